"""python3-vt tools/mutation_sweep.py [--files main.py,linesearch.py] [--jobs 16] [--limit N]

Systematic sensitivity sweep of the static checks: generates first-order syntactic mutants of the
package (relational / arithmetic operator replacement, constant perturbation, argument swap,
statement deletion, condition negation, break removal), analyses each one IN MEMORY (Repo overlay;
nothing is written to /repo, nothing is executed) with the rules of all twenty properties and
records which rules report a violation.  Survivors are either behaviour-preserving or gaps of the
rule set; they are listed for triage in sweep/survivors.json.
"""
import ast, copy, json, os, sys, time
from concurrent.futures import ProcessPoolExecutor

sys.path.insert(0, "/verif")
ROOT = "/repo"
FILES = ["main.py", "linesearch.py", "cauchy.py", "subspacemin.py", "bfgsmats.py", "scalar_function.py", "base.py", "utils.py"]

ROR = {ast.Lt: [ast.LtE, ast.Gt], ast.LtE: [ast.Lt, ast.GtE], ast.Gt: [ast.GtE, ast.Lt], ast.GtE: [ast.Gt, ast.LtE],
       ast.Eq: [ast.NotEq], ast.NotEq: [ast.Eq], ast.Is: [ast.IsNot], ast.IsNot: [ast.Is]}
AOR = {ast.Add: [ast.Sub], ast.Sub: [ast.Add], ast.Mult: [ast.Div], ast.Div: [ast.Mult]}


def in_logging(parents, node):
    n = node
    while id(n) in parents:
        n = parents[id(n)]
        if isinstance(n, ast.JoinedStr):
            return True
        if isinstance(n, ast.Call) and isinstance(n.func, ast.Attribute) and isinstance(n.func.value, ast.Name) and n.func.value.id == "logger":
            return True
        if isinstance(n, (ast.Raise,)):
            return True
    return False


def gen(file):
    src = open(f"{ROOT}/lbfgsb/{file}").read()
    tree = ast.parse(src)
    parents = {id(c): p for p in ast.walk(tree) for c in ast.iter_child_nodes(p)}
    nodes = list(ast.walk(tree))
    out = []

    def fn_of(n):
        while id(n) in parents:
            n = parents[id(n)]
            if isinstance(n, ast.FunctionDef):
                return n.name
        return "<module>"

    def emit(kind, node, mutate, desc):
        t2 = copy.deepcopy(tree)
        # locate the same node in the copy by index in walk order
        idx = nodes.index(node)
        n2 = list(ast.walk(t2))[idx]
        try:
            mutate(n2, {id(c): p for p in ast.walk(t2) for c in ast.iter_child_nodes(p)})
            code = ast.unparse(t2)
            compile(code, file, "exec")
        except Exception:
            return
        out.append({"file": file, "kind": kind, "line": getattr(node, "lineno", 0), "func": fn_of(node), "desc": desc, "code": code})

    for n in nodes:
        if isinstance(n, ast.stmt) and isinstance(n, ast.Expr) and isinstance(n.value, ast.Constant):
            continue
        if in_logging(parents, n):
            continue
        if isinstance(n, ast.Compare) and len(n.ops) == 1 and type(n.ops[0]) in ROR:
            for new in ROR[type(n.ops[0])]:
                emit("ROR", n, lambda m, P, new=new: m.ops.__setitem__(0, new()),
                     f"{ast.unparse(n)}  ->  {type(n.ops[0]).__name__}=>{new.__name__}")
        if isinstance(n, ast.BinOp) and type(n.op) in AOR:
            for new in AOR[type(n.op)]:
                emit("AOR", n, lambda m, P, new=new: setattr(m, "op", new()), f"{ast.unparse(n)}  ->  {type(n.op).__name__}=>{new.__name__}")
        if isinstance(n, ast.AugAssign) and type(n.op) in AOR:
            for new in AOR[type(n.op)]:
                emit("AOR", n, lambda m, P, new=new: setattr(m, "op", new()), f"{ast.unparse(n)}  ->  {type(n.op).__name__}=>{new.__name__}")
        if isinstance(n, ast.UnaryOp) and isinstance(n.op, ast.USub) and not isinstance(n.operand, ast.Constant):
            def drop(m, P):
                p = P[id(m)]
                for f, v in ast.iter_fields(p):
                    if v is m:
                        setattr(p, f, m.operand)
                    elif isinstance(v, list) and m in v:
                        v[v.index(m)] = m.operand
            emit("UOD", n, drop, f"{ast.unparse(n)}  ->  minus dropped")
        if isinstance(n, ast.Constant) and isinstance(n.value, (int, float)) and not isinstance(n.value, bool):
            p = parents.get(id(n))
            if isinstance(p, (ast.arguments,)) or isinstance(p, ast.Subscript) and False:
                continue
            newv = 1 if n.value == 0 else 0 if n.value == 1 else n.value * 2
            emit("CR", n, lambda m, P, newv=newv: setattr(m, "value", newv), f"constant {n.value!r} -> {newv!r} in {ast.unparse(p)[:60] if p is not None else ''}")
        if isinstance(n, ast.Call) and len(n.args) >= 2 and not any(isinstance(a, ast.Starred) for a in n.args):
            for i in range(len(n.args) - 1):
                if ast.unparse(n.args[i]) != ast.unparse(n.args[i + 1]):
                    def sw(m, P, i=i):
                        m.args[i], m.args[i + 1] = m.args[i + 1], m.args[i]
                    emit("ARGSWAP", n, sw, f"{ast.unparse(n)[:70]}  args {i}<->{i + 1}")
        if isinstance(n, (ast.Assign, ast.AugAssign, ast.Expr, ast.Break)) and not (isinstance(n, ast.Expr) and not isinstance(n.value, ast.Call)):
            def delete(m, P):
                p = P[id(m)]
                for f in ("body", "orelse", "finalbody"):
                    b = getattr(p, f, None)
                    if isinstance(b, list) and m in b:
                        b[b.index(m)] = ast.Pass()
            emit("SDL", n, delete, f"delete `{ast.unparse(n)[:70]}`")
        if isinstance(n, (ast.If, ast.While)):
            def negate(m, P):
                m.test = ast.UnaryOp(op=ast.Not(), operand=m.test)
            emit("COND-NEG", n, negate, f"negate `{ast.unparse(n.test)[:70]}`")
    return out


def analyse(m):
    from sa import props
    from sa.core import Repo, AnalysisError
    from sa.runner import RULES, Ctx
    import signal

    def _to(*a):
        raise TimeoutError()
    signal.signal(signal.SIGALRM, _to)
    signal.alarm(300)
    fired, errors = [], []
    try:
        repo = Repo(ROOT, overlay={m["file"]: m["code"]})
        ctx = Ctx(repo)
        for nm, r in RULES.items():
            if nm == "AD" and m["file"] != "benchmarks.py":
                continue
            try:
                obs = r["fn"](ctx)
                if any(not o.ok for o in obs):
                    fired.append(nm)
                elif len(obs) < r["min"]:
                    errors.append(nm)
            except AnalysisError:
                errors.append(nm)
            except TimeoutError:
                errors.append(nm + ":timeout")
                break
            except Exception as e:
                errors.append(f"{nm}:crash:{type(e).__name__}")
    except AnalysisError as e:
        errors.append("load")
    except Exception as e:
        errors.append(f"load-crash:{type(e).__name__}")
    signal.alarm(0)
    return {k: m[k] for k in ("file", "kind", "line", "func", "desc")} | {"fired": fired, "errors": errors}


if __name__ == "__main__":
    files = FILES
    if "--files" in sys.argv:
        files = sys.argv[sys.argv.index("--files") + 1].split(",")
    jobs = int(sys.argv[sys.argv.index("--jobs") + 1]) if "--jobs" in sys.argv else 16
    muts = []
    for f in files:
        muts += gen(f)
    if "--limit" in sys.argv:
        muts = muts[: int(sys.argv[sys.argv.index("--limit") + 1])]
    print(f"{len(muts)} mutants over {files}", flush=True)
    t0 = time.time()
    with ProcessPoolExecutor(max_workers=jobs) as ex:
        res = list(ex.map(analyse, muts, chunksize=4))
    os.makedirs("/verif/sweep", exist_ok=True)
    surv = [r for r in res if not r["fired"] and not r["errors"]]
    err_only = [r for r in res if not r["fired"] and r["errors"]]
    summary = {"mutants": len(res), "violation_reported": sum(1 for r in res if r["fired"]),
               "analysis_error_only": len(err_only), "survivors": len(surv), "wall_s": round(time.time() - t0, 1),
               "by_file": {}, "by_kind": {}}
    for r in res:
        for key, k in (("by_file", r["file"]), ("by_kind", r["kind"])):
            d = summary[key].setdefault(k, {"mutants": 0, "reported": 0, "error_only": 0, "survivors": 0})
            d["mutants"] += 1
            d["reported"] += 1 if r["fired"] else 0
            d["error_only"] += 1 if (not r["fired"] and r["errors"]) else 0
            d["survivors"] += 1 if (not r["fired"] and not r["errors"]) else 0
    json.dump(summary, open("/verif/sweep/summary.json", "w"), indent=1)
    json.dump(surv, open("/verif/sweep/survivors.json", "w"), indent=1)
    json.dump(err_only, open("/verif/sweep/error_only.json", "w"), indent=1)
    json.dump(res, open("/verif/sweep/all.json", "w"))
    print(json.dumps(summary, indent=1))
