"""python3-vt tools/confirm_control.py <dir with patch_c.diff demo_c.py meta_c.json> <control-id> [--store]
Confirms a CONTROL change (behaviour changes, the property still holds) in a scratch git worktree of
/repo (removed afterwards): (1) the patch applies, (2) the 106 tests pass with it, (3) the stress
script exits 0 with it and (4) exits 0 without it.  Then runs the rules of the control's OWN property on
a patched scratch copy: they must stay silent.  With --store, keeps
/verif/controls/<control-id>/{patch.diff, demo.py, meta.json}."""
import json, os, shutil, subprocess, sys, tempfile

src, cid = sys.argv[1], sys.argv[2]
store = "--store" in sys.argv
patch, demo, meta = (os.path.join(src, f"{n}_c.{e}") for n, e in (("patch", "diff"), ("demo", "py"), ("meta", "json")))
m = json.load(open(meta)) if os.path.exists(meta) else {}
pid = m.get("property") or cid.split("_")[-1][:3]
wt = tempfile.mkdtemp(prefix="cc_")
os.rmdir(wt)
def sh(cmd, **kw):
    return subprocess.run(cmd, shell=True, capture_output=True, text=True, **kw)
res = {}
try:
    r = sh(f"flock /tmp/wt/.gitlock git -C /repo worktree add -q --detach {wt} HEAD")
    assert r.returncode == 0, r.stderr
    env = {**os.environ, "PYTHONPATH": wt, "OMP_NUM_THREADS": "1", "OPENBLAS_NUM_THREADS": "1", "MKL_NUM_THREADS": "1"}
    r = sh(f"git -C {wt} apply {patch}")
    res["applies"] = r.returncode == 0
    if not res["applies"]:
        print("patch does not apply:", r.stderr)
    else:
        r = sh(f"cd {wt} && /venv/bin/python -m pytest -q -p no:cacheprovider --timeout=600 tests 2>&1 | tail -1", env=env)
        res["tests_with_change"] = r.stdout.strip()
        r = sh(f"cd {wt} && timeout 900 /venv/bin/python {demo}", env=env)
        res["stress_with_change_exit"] = r.returncode
        res["stress_with_change_out"] = (r.stdout + r.stderr).strip()[-500:]
        sh(f"git -C {wt} checkout -- .")
        r = sh(f"cd {wt} && timeout 900 /venv/bin/python {demo}", env=env)
        res["stress_without_change_exit"] = r.returncode
finally:
    sh(f"flock /tmp/wt/.gitlock git -C /repo worktree remove --force {wt}")
    shutil.rmtree(wt, ignore_errors=True)
ok = res.get("applies") and "106 passed" in res.get("tests_with_change", "") and res.get("stress_with_change_exit") == 0 \
    and res.get("stress_without_change_exit") == 0
r = sh(f"cd /verif && python3-vt tools/try_patch.py {patch} --props {pid}")
det = [l for l in r.stdout.splitlines() if not l.startswith("FIRED:")]
fired = [l for l in r.stdout.splitlines() if l.startswith("FIRED:")]
res["own_property_checks"] = fired[0] if fired else r.stdout[-300:] + r.stderr[-300:]
print(json.dumps(res, indent=1))
print("\n".join(det[:12]))
print("CONFIRMED" if ok else "NOT CONFIRMED", "| SILENT" if fired and "none" in fired[0] else "| ALARM")
if ok and store:
    out = f"/verif/controls/{cid}"
    os.makedirs(out, exist_ok=True)
    shutil.copy(patch, out + "/patch.diff")
    shutil.copy(demo, out + "/demo.py")
    m.update({"id": cid, "confirmed": {
        "how": "scratch git worktree of /repo at HEAD (removed afterwards): git apply patch.diff; pytest tests -> 106 passed; "
               "the stress script exits 0 with the change and 0 without it",
        "tests_with_change": res["tests_with_change"], "stress_output_with_change": res["stress_with_change_out"][-300:]},
        "checks_on_patched_copy": {"cmd": f"python3-vt tools/try_patch.py controls/{cid}/patch.diff --props {pid}",
                                   "result": res["own_property_checks"], "findings": det[:8]}})
    json.dump(m, open(out + "/meta.json", "w"), indent=1)
