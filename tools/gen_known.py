"""python3-vt tools/gen_known.py  -- regenerate tables.KNOWN_FUNCS from the raw source of /repo (no normalisation): every
module-level function, method and nested function.  To be run only when the rules are reviewed against a new tree."""
import ast, os, re, sys
names = []
for fn in sorted(os.listdir("/repo/lbfgsb")):
    if not fn.endswith(".py"):
        continue
    mod = fn[:-3]
    tree = ast.parse(open(f"/repo/lbfgsb/{fn}").read())

    def walk(body, prefix):
        for n in body:
            if isinstance(n, (ast.FunctionDef, ast.AsyncFunctionDef)):
                names.append(f"{prefix}.{n.name}")
                inner(n, f"{prefix}.{n.name}")
            elif isinstance(n, ast.ClassDef):
                walk(n.body, f"{prefix}.{n.name}")

    def inner(fnode, prefix):
        stack = list(ast.iter_child_nodes(fnode))
        while stack:
            n = stack.pop()
            if isinstance(n, (ast.FunctionDef, ast.AsyncFunctionDef)):
                names.append(f"{prefix}.{n.name}")
                inner(n, f"{prefix}.{n.name}")
                continue
            if isinstance(n, (ast.ClassDef, ast.Lambda)):
                continue
            stack.extend(ast.iter_child_nodes(n))
    walk(tree.body, mod)
names = sorted(set(names))
p = "/verif/sa/tables.py"
s = open(p).read()
i = s.index("KNOWN_FUNCS = {")
j = s.index("}", i)
s = s[:i] + "KNOWN_FUNCS = {\n" + "".join(f'    "{n}",\n' for n in names) + s[j:]
open(p, "w").write(s)
print(len(names), "names")
