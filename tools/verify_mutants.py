"""For every self-test mutant / equivalent variant: apply it to a scratch copy of /repo (under $TMPDIR,
removed afterwards), check it compiles and run the repository's 106 tests. Writes
sa/selftest/tests_status.json  {id: {"kind": M|Q, "tests": "pass"|"fail"|"n/a", "detail": ...}}
(information for DESIGN.md: which seeded mutants survive the existing suite)."""
import json, os, shutil, subprocess, sys, tempfile
from concurrent.futures import ThreadPoolExecutor
sys.path.insert(0, "/verif")
from sa import selftest
selftest.load()

def run(v_kind):
    v, kind = v_kind
    ov = selftest.overlay_for("/repo", v)
    if ov is None:
        return v["id"], {"kind": kind, "tests": "n/a", "detail": "not applicable to the current tree"}
    d = tempfile.mkdtemp(prefix="mut_")
    try:
        shutil.copytree("/repo/lbfgsb", d + "/lbfgsb")
        shutil.copytree("/repo/tests", d + "/tests")
        for fn, s in ov.items():
            open(f"{d}/lbfgsb/{fn}", "w").write(s)
        r = subprocess.run(["/venv/bin/python", "-m", "pytest", "-q", "-x", "-p", "no:cacheprovider", "--timeout=300", "tests"],
                           cwd=d, capture_output=True, text=True, env={**os.environ, "PYTHONPATH": d, "OMP_NUM_THREADS": "1", "OPENBLAS_NUM_THREADS": "1", "MKL_NUM_THREADS": "1"})
        last = (r.stdout.strip().splitlines() or [""])[-1]
        return v["id"], {"kind": kind, "tests": "pass" if r.returncode == 0 else "fail", "detail": last[:120]}
    finally:
        shutil.rmtree(d, ignore_errors=True)

work = [(m, "M") for m in selftest.MUTANTS] + [(q, "Q") for q in selftest.QUIET]
with ThreadPoolExecutor(max_workers=6) as ex:
    res = dict(ex.map(run, work))
json.dump(res, open("/verif/sa/selftest/tests_status.json", "w"), indent=1, sort_keys=True)
from collections import Counter
print(Counter((v["kind"], v["tests"]) for v in res.values()))
for k, v in sorted(res.items()):
    if v["kind"] == "Q" and v["tests"] != "pass":
        print("Q-variant failing tests:", k, v["detail"])
