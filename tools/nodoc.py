"""print a python file without docstrings/blank lines/comments, keeping line numbers"""
import ast,sys
src=open(sys.argv[1]).read(); t=ast.parse(src); skip=set()
for n in ast.walk(t):
    if isinstance(n,(ast.FunctionDef,ast.ClassDef,ast.Module)) and n.body and isinstance(n.body[0],ast.Expr) and isinstance(getattr(n.body[0],'value',None),ast.Constant) and isinstance(n.body[0].value.value,str):
        skip.update(range(n.body[0].lineno,n.body[0].end_lineno+1))
for i,l in enumerate(src.splitlines(),1):
    if i in skip or not l.strip() or l.strip().startswith('#'): continue
    print(f"{i:4d} {l}")
