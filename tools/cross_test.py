"""python3-vt tools/cross_test.py [--jobs N] [--only <substr of diff name>]
Cross product of the two self-test corpora: every text mutant (sa/selftest/m_*.py) is applied ON TOP of every
behaviour-preserving refactoring (equiv/*.diff) where its anchor text still exists, and must still be reported by
(one of) its rules -- i.e. a refactoring must not blind a rule.  Scratch copies under $TMPDIR, removed afterwards.
Writes cross/summary.json; prints the misses."""
import json, os, shutil, subprocess, sys, tempfile
from concurrent.futures import ProcessPoolExecutor
sys.path.insert(0, "/verif")
os.environ.setdefault("OMP_NUM_THREADS", "1")


def patched_sources(diff):
    d = tempfile.mkdtemp(prefix="cross_")
    try:
        shutil.copytree("/repo/lbfgsb", d + "/lbfgsb")
        r = subprocess.run(["patch", "-p1", "-s", "-f", "-d", d, "-i", diff], capture_output=True, text=True)
        if r.returncode != 0:
            return None
        return {fn: open(os.path.join(d, "lbfgsb", fn), encoding="utf-8").read() for fn in os.listdir(d + "/lbfgsb") if fn.endswith(".py")}
    finally:
        shutil.rmtree(d, ignore_errors=True)


def work(args):
    diff, srcs, m = args
    from sa import props  # noqa
    from sa.core import Repo, AnalysisError
    from sa.runner import run_rules, RULES
    rules = [r for r in m["rules"] if r in RULES]
    subs = [(m["file"], m["old"], m["new"], m.get("count", 1))] + [(a[0], a[1], a[2], 1) for a in m.get("also", [])]
    ov = dict(srcs)
    for fn, old, new, cnt in subs:
        if fn not in ov or ov[fn].count(old) != cnt:
            return (diff, m["id"], "n/a", "")
        ov[fn] = ov[fn].replace(old, new)
    try:
        for fn, s in ov.items():
            compile(s, fn, "exec")
    except SyntaxError:
        return (diff, m["id"], "n/a", "does not compile")
    import signal

    def _to(*a):
        raise TimeoutError()
    signal.signal(signal.SIGALRM, _to)
    signal.alarm(180)
    try:
        try:
            base = frozenset(o.key() for o in run_rules(Repo("/repo", overlay=srcs), rules) if not o.ok)
        except AnalysisError as e:
            return (diff, m["id"], "base-error", str(e)[:150])
        try:
            obs = run_rules(Repo("/repo", overlay=ov), rules)
        except AnalysisError as e:
            return (diff, m["id"], "error", str(e)[:150])
        bad = [o for o in obs if not o.ok and o.key() not in base]
        return (diff, m["id"], "fired" if bad else "MISSED", bad[0].rule if bad else "")
    except TimeoutError:
        return (diff, m["id"], "timeout", "")
    finally:
        signal.alarm(0)


if __name__ == "__main__":
    jobs = int(sys.argv[sys.argv.index("--jobs") + 1]) if "--jobs" in sys.argv else 12
    only = sys.argv[sys.argv.index("--only") + 1] if "--only" in sys.argv else ""
    from sa.selftest import load, MUTANTS
    load()
    diffs = sorted(os.path.join("/verif/equiv", f) for f in os.listdir("/verif/equiv") if f.endswith(".diff") and only in f)
    tasks = []
    for df in diffs:
        srcs = patched_sources(df)
        if srcs is None:
            print("patch does not apply:", df)
            continue
        # only mutants touching a file the refactoring changed, or whose rules look at it: keep all mutants of changed files
        changed = {fn for fn in srcs if not os.path.exists(f"/repo/lbfgsb/{fn}") or srcs[fn] != open(f"/repo/lbfgsb/{fn}", encoding="utf-8").read()}
        for m in MUTANTS:
            files = {m["file"]} | {a[0] for a in m.get("also", [])}
            if files & changed:
                tasks.append((os.path.basename(df), srcs, m))
    print(len(tasks), "combinations", flush=True)
    res = []
    with ProcessPoolExecutor(max_workers=jobs) as ex:
        for i, r in enumerate(ex.map(work, tasks, chunksize=4)):
            res.append(r)
            if r[2] not in ("fired", "n/a"):
                print(r, flush=True)
    from collections import Counter
    c = Counter(r[2] for r in res)
    os.makedirs("/verif/cross", exist_ok=True)
    json.dump({"counts": c, "not_fired": [r for r in res if r[2] not in ("fired", "n/a")]}, open("/verif/cross/summary.json", "w"), indent=1)
    print(dict(c))
