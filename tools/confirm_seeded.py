"""python3-vt tools/confirm_seeded.py <dir with patch_X.diff demo_X.py meta_X.json> <X> <seeded-id>
Confirms a seeded change in a scratch git worktree of /repo (removed afterwards):
  (1) the patch applies, (2) the 106 tests pass with it, (3) the demonstration exits 1 with it and
  (4) exits 0 without it.  Then runs all checks on a patched scratch copy and, if (1)-(4) hold, stores
  /verif/seeded/<seeded-id>/{patch.diff, demo.py, meta.json}."""
import json, os, shutil, subprocess, sys, tempfile

src, X, sid = sys.argv[1], sys.argv[2], sys.argv[3]
patch, demo, meta = (os.path.join(src, f"{n}_{X}.{e}") for n, e in (("patch", "diff"), ("demo", "py"), ("meta", "json")))
wt = tempfile.mkdtemp(prefix="cs_")
os.rmdir(wt)
def sh(cmd, **kw):
    return subprocess.run(cmd, shell=True, capture_output=True, text=True, **kw)
res = {}
try:
    r = sh(f"flock /tmp/wt/.gitlock git -C /repo worktree add -q --detach {wt} HEAD")
    assert r.returncode == 0, r.stderr
    env = {**os.environ, "PYTHONPATH": wt, "OMP_NUM_THREADS": "1", "OPENBLAS_NUM_THREADS": "1", "MKL_NUM_THREADS": "1"}
    r = sh(f"git -C {wt} apply {patch}")
    res["applies"] = r.returncode == 0
    if not res["applies"]:
        print("patch does not apply:", r.stderr)
    else:
        r = sh(f"cd {wt} && /venv/bin/python -m pytest -q -p no:cacheprovider --timeout=600 tests 2>&1 | tail -1", env=env)
        res["tests_with_change"] = r.stdout.strip()
        r = sh(f"cd {wt} && timeout 600 /venv/bin/python {demo}", env=env)
        res["demo_with_change_exit"] = r.returncode
        res["demo_with_change_out"] = (r.stdout + r.stderr).strip()[-600:]
        sh(f"git -C {wt} checkout -- .")
        r = sh(f"cd {wt} && timeout 600 /venv/bin/python {demo}", env=env)
        res["demo_without_change_exit"] = r.returncode
finally:
    sh(f"flock /tmp/wt/.gitlock git -C /repo worktree remove --force {wt}")
    shutil.rmtree(wt, ignore_errors=True)
ok = res.get("applies") and "106 passed" in res.get("tests_with_change", "") and res.get("demo_with_change_exit") == 1 \
    and res.get("demo_without_change_exit") == 0
r = sh(f"cd /verif && python3-vt tools/try_patch.py {patch}")
fired_line = [l for l in r.stdout.splitlines() if l.startswith("FIRED:")]
det = [l for l in r.stdout.splitlines() if not l.startswith("FIRED:")]
res["checks"] = fired_line[0] if fired_line else r.stdout[-300:] + r.stderr[-300:]
print(json.dumps(res, indent=1))
print("\n".join(det[:12]))
print("CONFIRMED" if ok else "NOT CONFIRMED")
if ok:
    out = f"/verif/seeded/{sid}"
    os.makedirs(out, exist_ok=True)
    shutil.copy(patch, out + "/patch.diff")
    shutil.copy(demo, out + "/demo.py")
    m = json.load(open(meta)) if os.path.exists(meta) else {}
    m.update({"id": sid, "confirmed": {
        "how": "scratch git worktree of /repo at HEAD (removed afterwards): git apply patch.diff; pytest tests -> 106 passed; "
               "demo.py exits 1 with the change and 0 after git checkout -- .",
        "tests_with_change": res["tests_with_change"], "demo_with_change_exit": 1, "demo_without_change_exit": 0,
        "demo_output_with_change": res["demo_with_change_out"][-300:]},
        "checks_on_patched_copy": {"cmd": f"python3-vt tools/try_patch.py seeded/{sid}/patch.diff", "result": res["checks"],
                                   "findings": det[:8]}})
    json.dump(m, open(out + "/meta.json", "w"), indent=1)
