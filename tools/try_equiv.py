"""python3-vt tools/try_equiv.py <refactor.diff> ... : a behaviour-preserving refactoring must leave every check silent
(no violation, no analysis error). Prints FALSE-ALARM lines otherwise."""
import os, shutil, subprocess, sys, tempfile
sys.path.insert(0, "/verif")
from sa import props
from sa.core import Repo, AnalysisError
from sa.runner import run_rules
bad_total = 0
for patch in sys.argv[1:]:
    d = tempfile.mkdtemp(prefix="eq_")
    try:
        shutil.copytree("/repo/lbfgsb", d + "/lbfgsb")
        r = subprocess.run(["patch", "-p1", "-s", "-d", d, "-i", os.path.abspath(patch)], capture_output=True, text=True)
        if r.returncode != 0:
            print(patch, "PATCH FAILED", r.stdout[-200:])
            continue
        seen = set()
        n = 0
        for pid, spec in props.PROPS.items():
            try:
                obs = run_rules(Repo(d), spec["rules"])
                for o in obs:
                    if not o.ok and (o.rule, o.line, o.construct) not in seen:
                        seen.add((o.rule, o.line, o.construct))
                        n += 1
                        print(f"FALSE-ALARM {os.path.basename(os.path.dirname(patch))}/{os.path.basename(patch)} {pid} {o.rule} {o.file}:{o.line} {o.construct[:70]} -> {o.fact[:200]}")
            except AnalysisError as e:
                k = str(e)[:100]
                if k not in seen:
                    seen.add(k)
                    n += 1
                    print(f"FALSE-ALARM(analysis-error) {os.path.basename(os.path.dirname(patch))}/{os.path.basename(patch)} {pid} {str(e)[:250]}")
        print(f"{patch}: {'silent' if n == 0 else str(n) + ' alarm(s)'}")
        bad_total += n
    finally:
        shutil.rmtree(d, ignore_errors=True)
sys.exit(1 if bad_total else 0)
