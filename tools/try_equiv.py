"""python3-vt tools/try_equiv.py [--jobs N] <refactor.diff> ... : a behaviour-preserving refactoring must leave every check
silent (no violation, no analysis error). Prints FALSE-ALARM lines otherwise.  Each rule is run once per patch (the rules
of all properties on one parsed tree); patches are processed in parallel."""
import os, shutil, subprocess, sys, tempfile
from concurrent.futures import ProcessPoolExecutor
sys.path.insert(0, "/verif")
os.environ.setdefault("OMP_NUM_THREADS", "1")


def one(patch):
    from sa import props
    from sa.core import Repo, AnalysisError
    from sa.runner import RULES, Ctx, load_known
    KNOWN_OPEN = load_known()
    d = tempfile.mkdtemp(prefix="eq_")
    out = []
    tag = f"{os.path.basename(os.path.dirname(patch))}/{os.path.basename(patch)}"
    try:
        shutil.copytree("/repo/lbfgsb", d + "/lbfgsb")
        r = subprocess.run(["patch", "-p1", "-s", "-d", d, "-i", os.path.abspath(patch)], capture_output=True, text=True)
        if r.returncode != 0:
            return patch, [f"{patch} PATCH FAILED {r.stdout[-200:]}"], 0
        try:
            repo = Repo(d)
        except AnalysisError as e:
            return patch, [f"FALSE-ALARM(analysis-error) {tag} ALL {str(e)[:250]}"], 1
        ctx = Ctx(repo)
        owners = {}
        for pid, spec in props.PROPS.items():
            for rn in spec["rules"]:
                owners.setdefault(rn, pid)
        n = 0
        seen = set()
        for rn in sorted(owners):
            try:
                obs = RULES[rn]["fn"](ctx)
                mi = RULES[rn].get("min", 0)
                if len(obs) < mi and not any(not o.ok for o in obs):
                    raise AnalysisError(f"rule {rn}: {len(obs)} instances found, {mi} confirmed by hand -- the rule would pass vacuously")
                for o in obs:
                    if not o.ok and any(k.get("status") == "open" and k.get("rule") == o.rule and k.get("function", "").split("#")[0] == o.func.split("#")[0] and
                                        " ".join(k.get("construct", "").split()) == " ".join(o.construct.split()) for k in KNOWN_OPEN):
                        continue        # the open known finding of the tree itself: a refactoring neither adds nor removes it
                    if not o.ok and (o.rule, o.line, o.construct) not in seen:
                        seen.add((o.rule, o.line, o.construct))
                        n += 1
                        out.append(f"FALSE-ALARM {tag} {owners[rn]} {o.rule} {o.file}:{o.line} {o.construct[:70]} -> {o.fact[:200]}")
            except AnalysisError as e:
                n += 1
                out.append(f"FALSE-ALARM(analysis-error) {tag} {owners[rn]} {rn}: {str(e)[:250]}")
            except Exception as e:       # a crash of the checker: reported like an analysis error, with the patch named
                n += 1
                out.append(f"FALSE-ALARM(CRASH) {tag} {owners[rn]} {rn}: {type(e).__name__}: {str(e)[:200]}")
        return patch, out, n
    finally:
        shutil.rmtree(d, ignore_errors=True)


if __name__ == "__main__":
    args = sys.argv[1:]
    jobs = 8
    if "--jobs" in args:
        jobs = int(args[args.index("--jobs") + 1])
        del args[args.index("--jobs"):args.index("--jobs") + 2]
    bad_total = 0
    with ProcessPoolExecutor(max_workers=jobs) as ex:
        for patch, lines, n in ex.map(one, args):
            for l in lines:
                print(l)
            print(f"{patch}: " + (f"{n} alarm(s)" if n else "silent"), flush=True)
            bad_total += n
    sys.exit(1 if bad_total else 0)
