"""python3-vt tools/ob_audit.py [diff ...]  -- for every behaviour-preserving refactoring of equiv/ (default: all), run
every rule on the refactored tree and compare the obligations it enumerates with those on the clean tree.  A rule that is
silent on a refactoring *because it no longer sees the construct* (fewer obligations, no analysis error) is a blind spot:
mutants of that construct would be missed there.  Prints rule, refactoring and the obligations that disappeared."""
import glob, os, shutil, subprocess, sys, tempfile
from concurrent.futures import ProcessPoolExecutor
sys.path.insert(0, "/verif")
os.environ.setdefault("OMP_NUM_THREADS", "1")


def obligations(root):
    from sa.core import Repo, AnalysisError
    from sa.runner import run_rules, RULES
    import sa.props  # noqa
    repo = Repo(root)
    out = {}
    for r in sorted(RULES):
        try:
            out[r] = sorted((o.inst, " ".join(o.construct.split())[:70]) for o in run_rules(repo, [r]))
        except AnalysisError as e:
            out[r] = ("ERROR", str(e)[:100])
    return out


def one(diff):
    d = tempfile.mkdtemp(prefix="oa_")
    try:
        shutil.copytree("/repo/lbfgsb", d + "/lbfgsb")
        r = subprocess.run(["patch", "-p1", "-s", "-d", d, "-i", os.path.abspath(diff)], capture_output=True, text=True)
        if r.returncode != 0:
            return diff, None
        return diff, obligations(d)
    finally:
        shutil.rmtree(d, ignore_errors=True)


if __name__ == "__main__":
    diffs = sys.argv[1:] or sorted(glob.glob("/verif/equiv/*.diff"))
    base = obligations("/repo")
    nbad = 0
    with ProcessPoolExecutor(int(os.environ.get("JOBS", "14"))) as ex:
        for diff, got in ex.map(one, diffs):
            if got is None:
                print("does not apply:", diff)
                continue
            for r, b in base.items():
                g = got.get(r)
                if isinstance(g, tuple):
                    print(f"{os.path.basename(diff)}: {r}: {g}")
                    nbad += 1
                    continue
                if len(g) < len(b):
                    lost = [x for x in b if x not in g]
                    print(f"{os.path.basename(diff)}: {r}: {len(b)} -> {len(g)} obligations; lost e.g. {lost[:3]}")
                    nbad += 1
    print(nbad, "rule/refactoring pairs with fewer obligations than on the clean tree")
