"""regenerate /verif/MANIFEST.json from sa.props (python3-vt tools/gen_manifest.py)"""
import json, os, sys
sys.path.insert(0, os.path.dirname(os.path.dirname(os.path.abspath(__file__))))
from sa import props

P = [json.loads(l) for l in open("/verif/properties.jsonl")]
NA_REASONS = json.load(open("/verif/tools/not_applicable.json")) if os.path.exists("/verif/tools/not_applicable.json") else {}
checks, na = [], []
for p in P:
    pid = p["id"]
    spec = props.PROPS.get(pid)
    if spec is None or pid in props.PENDING or pid in NA_REASONS:
        na.append({"property_id": pid, "reason": NA_REASONS.get(pid) or
                   ("check under construction: rules " + ", ".join(props.PENDING.get(pid, [])) + " not built yet "
                    "(planned static clauses: DESIGN.md section 3)")})
        continue
    checks.append({
        "property_id": pid,
        "quick_cmd": f"python3-vt -m sa check {pid} --tier quick --root /repo",
        "thorough_cmd": f"python3-vt -m sa check {pid} --tier thorough --root /repo",
        "evidence_file": f"/verif/evidence/{pid}.json",
        "replay_cmd_template": "python3-vt -m sa explain {path}",
        "engine": "sa",
        "level_claimed": {
            "category": "other",
            "text": "Static analysis of the current source tree (nothing is executed): the structural clauses of the "
                    "property listed below are decided for every path / call site / alias, which no finite set of test "
                    "inputs can do; the numerical remainder is explicitly NOT decided. " + spec["explanation"],
            "design_ref": spec["design"],
        },
        "level_note": "NOT decided by this check: " + spec["not_decided"] + ". Trusted base: Python ast parser, "
                      "networkx dominators, the frozen effect/idiom tables in sa/tables.py, the soundness assumptions of "
                      "DESIGN.md 2.1 (no monkey-patching / dynamic features; numpy effects as tabulated).",
        "technique": "static analysis: " + {
            "C01": "index-space typing + CFG typestate", "C02": "must-dataflow of box provenance + sign domain",
            "C03": "order-fact must-dataflow + def-use", "C04": "path-sensitive abstract state exploration of the CFG",
            "C05": "typestate must-dataflow + def-use + dominance", "C06": "orientation typing + writer/reader field maps",
            "C07": "may-alias origins + counter offsets + sibling agreement", "C08": "index-space typing + sign domain + provenance",
            "C09": "sign domain + boolean normal forms", "C10": "CFG reachability/dominance over all history mutators",
            "C11": "box provenance + order facts + loop-counter analysis (+ SciPy source cross-check)",
            "C12": "constant evaluation + argument binding through the call graph",
            "C13": "must-pass-through with path-correlation pruning", "C14": "interprocedural may-alias ownership + effect scan + taint",
            "C15": "typestate rules over the wrapper class (dominance, who-may-call)", "C16": "value-flow binding + exhaustiveness",
            "C17": "unit (raw/scaled) typing + def-use", "C18": "sibling agreement + may-alias escape + loop-index agreement",
            "C19": "source-level symbolic differentiation (sympy) of the benchmark bodies",
            "C20": "call-graph least fixpoint (user-callable reachability) + lexical handler scan"}[pid],
    })
m = {
    "version": 1,
    "setup_cmd": "python3-vt -c \"import networkx, sympy, ast; print('sa: tooling ok')\"",
    "hooks": {"guard": "LBFGSB_VERIF",
              "enable": "none: the checks are static (they parse /repo/lbfgsb/*.py on every run and execute nothing), so /repo carries no hook or instrumentation",
              "baseline_off_cmd": "cd /repo && /venv/bin/python -m pytest -ra -q -p no:cacheprovider --timeout=900 --continue-on-collection-errors",
              "source_commits": [], "add_only": True},
    "engines": [{"name": "sa", "path": "/verif/sa", "serves_properties": [c["property_id"] for c in checks],
                 "kind_free_text": "repository-specific static analyser over Python ast: statement CFG with dominators, forward dataflow "
                                   "(reaching defs, may-alias origins with interprocedural summaries, box provenance, order facts, units), "
                                   "path-sensitive exit-state exploration, index-space / orientation typing, call-graph fixpoints; "
                                   "self-tested on in-memory mutants and equivalent variants of the current tree"}],
    "checks": checks,
    "not_applicable": na,
    "notes": "Exit codes: 0 = all obligations discharged; 1 = VIOLATION lines (static finding with file:line, rule, refuting fact); "
             "2 = ANALYSIS-ERROR (anchor vanished / unsupported construct / checker self-test failed) -- never a silent pass. "
             "Genuine defects found while building the checks were repaired in /repo as `fix:` commits and are listed in known_findings.json.",
}
json.dump(m, open("/verif/MANIFEST.json", "w"), indent=1)
print("claimed:", [c["property_id"] for c in checks])
print("pending:", props.PENDING)
