"""python3-vt tools/verify_equiv.py [diff ...]  -- run the repository's 106 tests on a scratch copy of /repo with each
refactoring of equiv/ applied (default: all), in parallel; writes equiv/tests_status.json.  A refactoring that fails a test
is not behaviour preserving and must leave the corpus."""
import glob, json, os, shutil, subprocess, sys, tempfile
for _v in ("OMP_NUM_THREADS", "OPENBLAS_NUM_THREADS", "MKL_NUM_THREADS"):
    os.environ.setdefault(_v, "1")     # 16 pytest runs with 16 BLAS threads each starve the machine
from multiprocessing import Pool


def one(diff):
    tmp = tempfile.mkdtemp(prefix="ve_")
    try:
        wt = tmp + "/wt"
        shutil.copytree("/repo", wt, ignore=shutil.ignore_patterns(".git", "__pycache__", "*.pyc", ".pytest_cache"))
        r = subprocess.run(["patch", "-p1", "-s", "-d", wt, "-i", os.path.abspath(diff)], capture_output=True, text=True)
        if r.returncode != 0:
            return diff, "does not apply", (r.stdout + r.stderr)[-300:]
        env = dict(os.environ, PYTHONPATH=wt, PYTHONDONTWRITEBYTECODE="1")
        r = subprocess.run(["/venv/bin/python", "-m", "pytest", "-q", "-p", "no:cacheprovider", "-x", "--timeout=900", "tests"], cwd=wt, env=env,
                           capture_output=True, text=True)
        tail = r.stdout.strip().splitlines()[-1] if r.stdout.strip() else r.stderr[-200:]
        return diff, "pass" if r.returncode == 0 else "FAIL", tail
    finally:
        shutil.rmtree(tmp, ignore_errors=True)

if __name__ == "__main__":
    diffs = sys.argv[1:] or sorted(glob.glob("/verif/equiv/*.diff"))
    with Pool(int(os.environ.get("JOBS", "8"))) as p:
        res = p.map(one, diffs, chunksize=1)
    out = {os.path.basename(d): {"tests": s, "tail": t} for d, s, t in res}
    st = "/verif/equiv/tests_status.json"
    cur = json.load(open(st)) if os.path.exists(st) else {}
    cur.update(out)
    json.dump(cur, open(st, "w"), indent=1, sort_keys=True)
    for d, s, t in res:
        print(f"{s:5} {os.path.basename(d)}  {t}")
    print(sum(s == "pass" for _, s, _ in res), "of", len(res), "pass the 106 tests")
