"""python3-vt tools/e2e_seeded.py [--tier quick|thorough|both] [ids...]
End-to-end: for every kept seeded change, copy /repo's package to a scratch directory under $TMPDIR, apply the
patch and run the REGISTERED command line of the change's own property on it (`python3-vt -m sa check <id>
--tier T --root <scratch> --no-write`).  Expected: exit 1 and a `VIOLATION property=<id>` line.  Scratch copies
are removed.  Prints one line per change and a summary; exit 1 if any change is not reported."""
import json, os, shutil, subprocess, sys, tempfile
from concurrent.futures import ThreadPoolExecutor
tiers = ["quick", "thorough"]
args = sys.argv[1:]
if "--tier" in args:
    t = args[args.index("--tier") + 1]
    tiers = ["quick", "thorough"] if t == "both" else [t]
    del args[args.index("--tier"):args.index("--tier") + 2]
ids = args or sorted(d for d in os.listdir("/verif/seeded") if os.path.isdir(f"/verif/seeded/{d}")
                     and not json.load(open(f"/verif/seeded/{d}/meta.json")).get("obsolete_since"))


def one(sid):
    d = f"/verif/seeded/{sid}"
    prop = json.load(open(d + "/meta.json")).get("property", sid.split("-")[0].replace("R2_", ""))
    tmp = tempfile.mkdtemp(prefix="e2e_")
    out = []
    try:
        shutil.copytree("/repo/lbfgsb", tmp + "/lbfgsb")
        r = subprocess.run(["patch", "-p1", "-s", "-d", tmp, "-i", d + "/patch.diff"], capture_output=True, text=True)
        if r.returncode != 0:
            return sid, prop, [("patch", "does not apply")]
        for t in tiers:
            r = subprocess.run(["python3-vt", "-m", "sa", "check", prop, "--tier", t, "--root", tmp, "--no-write"],
                               capture_output=True, text=True, cwd="/verif")
            ok = r.returncode == 1 and f"VIOLATION property={prop}" in r.stdout
            out.append((t, "ok" if ok else f"exit={r.returncode} " + (r.stdout.strip().splitlines() or [""])[0][:160]))
    finally:
        shutil.rmtree(tmp, ignore_errors=True)
    return sid, prop, out


bad = 0
with ThreadPoolExecutor(max_workers=int(os.environ.get("JOBS", "4"))) as ex:
    for sid, prop, out in ex.map(one, ids):
        st = " ".join(f"{t}:{m}" for t, m in out)
        if any(m != "ok" for _, m in out):
            bad += 1
        print(f"{sid:10s} {prop} {st}", flush=True)
print(f"e2e: {len(ids) - bad} of {len(ids)} seeded changes reported by the registered command of their own property ({'+'.join(tiers)})")
sys.exit(1 if bad else 0)
