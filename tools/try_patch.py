"""python3-vt tools/try_patch.py <patch.diff> [--props C01,C02]
Applies a patch to a scratch copy of /repo (under $TMPDIR, removed afterwards) and runs the rules of
every property on it (no evidence written). Prints which properties / rules report a violation."""
import os, shutil, subprocess, sys, tempfile
sys.path.insert(0, "/verif")
from sa import props
from sa.core import Repo, AnalysisError
from sa.runner import run_rules, load_known
KNOWN_OPEN = load_known()

patch = os.path.abspath(sys.argv[1])
only = None
if "--props" in sys.argv:
    only = sys.argv[sys.argv.index("--props") + 1].split(",")
d = tempfile.mkdtemp(prefix="tryp_")
try:
    shutil.copytree("/repo/lbfgsb", d + "/lbfgsb")
    r = subprocess.run(["patch", "-p1", "-s", "-d", d, "-i", patch], capture_output=True, text=True)
    if r.returncode != 0:
        print("PATCH FAILED", r.stdout, r.stderr)
        sys.exit(3)
    fired = {}
    for pid, spec in props.PROPS.items():
        if only and pid not in only:
            continue
        try:
            obs = run_rules(Repo(d), spec["rules"])
            bad = [o for o in obs if not o.ok and not any(
                k.get("status") == "open" and k.get("rule") == o.rule and k.get("function", "").split("#")[0] == o.func.split("#")[0] and
                " ".join(k.get("construct", "").split()) == " ".join(o.construct.split()) for k in KNOWN_OPEN)]
            if bad:
                fired[pid] = bad
        except AnalysisError as e:
            fired[pid] = str(e)
    seen = set()
    for pid, bad in fired.items():
        if isinstance(bad, str):
            print(f"{pid}: ANALYSIS-ERROR {bad[:200]}")
            continue
        for o in bad:
            k = (o.rule, o.line, o.construct)
            tag = "" if k not in seen else " (same finding)"
            seen.add(k)
            print(f"{pid}: {o.rule} {o.file}:{o.line} {o.construct[:70]} -> {o.fact[:160]}{tag}")
    print("FIRED:", sorted(fired) if fired else "none")
finally:
    shutil.rmtree(d, ignore_errors=True)
