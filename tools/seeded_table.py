"""python3-vt tools/seeded_table.py  -- re-run all checks on every kept seeded change (patched scratch copy) and
write seeded/SUMMARY.json + print a markdown table (own property caught? which rules)."""
import json, os, shutil, subprocess, sys, tempfile
sys.path.insert(0, "/verif")
from sa import props
from sa.core import Repo, AnalysisError
from sa.runner import run_rules
def one(sid):
    from sa.runner import load_known
    KNOWN_OPEN = load_known()
    d = f"/verif/seeded/{sid}"
    meta = json.load(open(d + "/meta.json"))
    tmp = tempfile.mkdtemp(prefix="st_")
    try:
        shutil.copytree("/repo/lbfgsb", tmp + "/lbfgsb")
        r = subprocess.run(["patch", "-p1", "-s", "-d", tmp, "-i", d + "/patch.diff"], capture_output=True, text=True)
        assert r.returncode == 0, (sid, r.stdout, r.stderr)
        fired = {}
        try:
            repo = Repo(tmp)
        except AnalysisError:
            repo = None
        for pid, spec in props.PROPS.items():
            try:
                if repo is None:
                    raise AnalysisError("load")
                obs = run_rules(repo, spec["rules"])
                bad = sorted({o.rule for o in obs if not o.ok and not any(
                    k.get("status") == "open" and k.get("rule") == o.rule and k.get("function", "").split("#")[0] == o.func.split("#")[0] and
                    " ".join(k.get("construct", "").split()) == " ".join(o.construct.split()) for k in KNOWN_OPEN)})
                if bad:
                    fired[pid] = bad
            except AnalysisError as e:
                fired[pid] = ["ANALYSIS-ERROR"]
    finally:
        shutil.rmtree(tmp, ignore_errors=True)
    own = meta.get("reassigned_to") or meta.get("property", sid.split("-")[0])
    row = {"id": sid, "property": own, "own_check_fires": own in fired and fired[own] != ["ANALYSIS-ERROR"],
           "own_rules": fired.get(own, []), "all": fired, "summary": meta.get("summary", "")[:160], "needs": meta.get("needs", "")[:200]}
    meta["checks_on_patched_copy"] = {"cmd": f"python3-vt tools/seeded_table.py", "fired": fired}
    json.dump(meta, open(d + "/meta.json", "w"), indent=1)
    return row


if __name__ == "__main__":
    from multiprocessing import Pool
    sids = []
    for sid in sorted(os.listdir("/verif/seeded")):
        d = f"/verif/seeded/{sid}"
        if os.path.isdir(d) and not json.load(open(d + "/meta.json")).get("obsolete_since"):
            sids.append(sid)
    with Pool(int(os.environ.get("JOBS", "12"))) as pool:
        rows = pool.map(one, sids, chunksize=1)
    rows.sort(key=lambda r: r["id"])
    json.dump(rows, open("/verif/seeded/SUMMARY.json", "w"), indent=1)
    print("| id | own check | rules firing in the own property | other properties firing |")
    print("|---|---|---|---|")
    for r in rows:
        others = ", ".join(k for k in r["all"] if k != r["property"])
        print(f"| {r['id']} | {'yes' if r['own_check_fires'] else 'NO'} | {', '.join(r['own_rules'])} | {others} |")
    print(sum(r["own_check_fires"] for r in rows), "of", len(rows), "caught by the check of their own property")
