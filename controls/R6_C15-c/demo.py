"""Model-based checker of property C15 for lbfgsb.scalar_function.ScalarFunction.

A history is a list of operations:
    ("fun", i) / ("grad", i) / ("fun_and_grad", i)  request at point number i
    ("scale", s)                                    sf.scaling_factor = s
    ("mutate", i, delta)                            the caller modifies, in place, the
                                                    array it uses for point i
The caller keeps ONE array object per point and passes that same object on every
request (as a user holding its iterate in a buffer would do).
"""
import itertools

import numpy as np
from scipy.optimize._numdiff import approx_derivative

from lbfgsb.scalar_function import prepare_scalar_function


def f_user(x):
    return np.sum((x - 0.3) ** 2) + 0.5 * x[0] * x[-1] + np.sum(np.sin(x))


def g_user(x):
    g = 2.0 * (x - 0.3) + np.cos(x)
    g[0] += 0.5 * x[-1]
    g[-1] += 0.5 * x[0]
    return g


class Violation(Exception):
    pass


def run_history(
    mode, history, points, start_from=0, use_start_array=False, eps=1e-8, obj=None
):
    """Run `history`, raise Violation on the first departure from the property."""
    f_user, g_user = obj if obj is not None else (globals()["f_user"], globals()["g_user"])
    fcalls = []
    gcalls = []

    def fun(x):
        fcalls.append(np.array(x))
        return f_user(x)

    def jac(x):
        gcalls.append(np.array(x, dtype=float))
        return g_user(x)

    bufs = [np.array(p, dtype=float) for p in points]
    n = bufs[0].size
    lb, ub = np.full(n, -50.0), np.full(n, 50.0)
    x0 = bufs[start_from] if use_start_array else np.array(bufs[start_from])
    if mode == "callable":
        sf = prepare_scalar_function(fun, x0, jac=jac, bounds=(lb, ub))
    elif mode is None:
        sf = prepare_scalar_function(fun, x0, jac=None, epsilon=eps, bounds=(lb, ub))
    else:
        sf = prepare_scalar_function(fun, x0, jac=mode, bounds=(lb, ub))
    if len(fcalls) != sf.nfev or len(gcalls) != (sf.ngev if mode == "callable" else 0):
        raise Violation(f"counters after construction: nfev={sf.nfev} ngev={sf.ngev}")

    def ref_grad(x):
        if mode == "callable":
            return np.asarray(g_user(x), dtype=float)
        if mode is None:
            return approx_derivative(
                f_user, x, f0=f_user(x), method="2-point", abs_step=eps, bounds=(lb, ub)
            )
        return approx_derivative(
            f_user, x, f0=f_user(x), method=mode, rel_step=None, bounds=(lb, ub)
        )

    scale = 1.0
    # model of what the wrapper may legitimately remember
    last_x = None  # point of the last request
    f_known = False
    g_known = False
    n_gcomp = 0
    for step, op in enumerate(history):
        if op[0] == "scale":
            scale = op[1]
            sf.scaling_factor = scale
            continue
        if op[0] == "mutate":
            bufs[op[1]][...] = bufs[op[1]] + op[2]
            continue
        kind, i = op
        xb = bufs[i]
        xval = xb.copy()
        if last_x is None or not np.array_equal(last_x, xval):
            f_known = False
            g_known = False
        last_x = xval
        nf0, ng0 = len(fcalls), len(gcalls)
        out = getattr(sf, kind)(xb)
        where = f"{mode} step {step} {op} history={history}"
        if not np.array_equal(xb, xval):
            raise Violation(f"caller array modified by the wrapper: {where}")
        want_f = kind in ("fun", "fun_and_grad")
        want_g = kind in ("grad", "fun_and_grad")
        f_out = out if kind == "fun" else (out[0] if want_f else None)
        g_out = out if kind == "grad" else (out[1] if want_g else None)
        if want_f:
            exp = f_user(xval) * scale
            if not np.isclose(f_out, exp, rtol=1e-13, atol=0.0):
                raise Violation(f"value {f_out!r} != fresh {exp!r}: {where}")
        if want_g:
            exp = ref_grad(xval) * scale
            if np.shape(g_out) != exp.shape or not np.allclose(
                g_out, exp, rtol=1e-12, atol=1e-300
            ):
                raise Violation(f"gradient {g_out!r} != fresh {exp!r}: {where}")
        # evaluations AT the requested point during this request
        at_x = sum(1 for c in fcalls[nf0:] if np.array_equal(c, xval))
        if mode == "callable":
            need_f = want_f and not f_known
        else:
            need_f = (want_f or (want_g and not g_known)) and not f_known
        if at_x != (1 if need_f else 0):
            raise Violation(
                f"objective evaluated {at_x} time(s) at the requested point, "
                f"expected {1 if need_f else 0}: {where}"
            )
        if need_f:
            f_known = True
        if want_g and not g_known:
            n_gcomp += 1
            g_known = True
            if mode == "callable" and len(gcalls) != ng0 + 1:
                raise Violation(f"user gradient not called exactly once: {where}")
        elif mode == "callable" and len(gcalls) != ng0:
            raise Violation(f"user gradient re-evaluated: {where}")
        if sf.nfev != len(fcalls):
            raise Violation(f"nfev={sf.nfev} but {len(fcalls)} user calls: {where}")
        if sf.ngev != n_gcomp:
            raise Violation(f"ngev={sf.ngev} but {n_gcomp} gradient computations: {where}")
        if mode == "callable" and sf.ngev != len(gcalls):
            raise Violation(f"ngev={sf.ngev} but {len(gcalls)} user jac calls: {where}")
    return sf


MODES = ("callable", "2-point", "3-point", "cs", None)
POINTS3 = ([0.5, -1.0, 2.0], [1.5, 0.25, -0.75], [-2.0, 3.0, 0.125])
KINDS = ("fun", "grad", "fun_and_grad")


def exhaustive(max_len, modes=MODES, points=POINTS3, obj=None):
    """All histories up to max_len over KINDS x 3 points, for each mode."""
    alphabet = [(k, i) for k in KINDS for i in range(3)]
    count = 0
    for mode in modes:
        for L in range(1, max_len + 1):
            for h in itertools.product(alphabet, repeat=L):
                run_history(mode, list(h), points, obj=obj)
                count += 1
    return count


def random_histories(
    nb, length, seed, modes=MODES, with_scale=True, with_mutate=True, points=POINTS3,
    obj=None,
):
    rng = np.random.RandomState(seed)
    count = 0
    for _ in range(nb):
        mode = modes[rng.randint(len(modes))]
        h = []
        for _ in range(length):
            r = rng.rand()
            if with_scale and r < 0.2:
                h.append(("scale", float(rng.choice([1.0, 0.5, 3.0, 1e-3, 250.0]))))
            elif with_mutate and r < 0.35:
                h.append(("mutate", int(rng.randint(3)), float(rng.choice([0.5, -0.25]))))
            else:
                h.append((KINDS[rng.randint(3)], int(rng.randint(3))))
        run_history(
            mode,
            h,
            points,
            obj=obj,
            start_from=int(rng.randint(3)),
            use_start_array=bool(rng.randint(2)),
        )
        count += 1
    return count


# --------------------------------------------------------------------------------------
# stress script for control patch c
# --------------------------------------------------------------------------------------
def behaviour_report():
    """Part (i): what a mis-shaped user gradient gives. On the unmodified code a scalar
    'gradient' is accepted silently (shape (1,)) and a column gradient comes back with
    shape (n, 1); with patch c the first raises ValueError and the second is (n,)."""
    x0 = np.array([0.5, -1.0, 2.0])
    sf = prepare_scalar_function(f_user, x0, jac=lambda x: float(np.sum(g_user(x))))
    try:
        g = sf.grad(x0)
        scalar_case = f"accepted silently, returned shape {np.shape(g)}"
    except ValueError as e:
        scalar_case = f"ValueError: {e}"
    sf = prepare_scalar_function(f_user, x0, jac=lambda x: g_user(x).reshape(-1, 1))
    column_case = f"returned shape {np.shape(sf.grad(x0))}"
    # through the solver
    from lbfgsb import minimize_lbfgsb

    try:
        res = minimize_lbfgsb(
            x0=x0, fun=f_user, jac=lambda x: float(np.sum(g_user(x))), maxiter=5
        )
        solver_case = f"ran to '{res.message}' with jac of shape {np.shape(res.jac)}"
    except Exception as e:
        solver_case = f"{type(e).__name__}: {e}"
    unmodified = (
        "accepted silently, returned shape (1,)",
        "returned shape (3, 1)",
    )
    print("behaviour on mis-shaped user gradients:")
    print("  scalar gradient, n=3 :", scalar_case)
    print("  column gradient (n,1):", column_case)
    print("  scalar gradient in minimize_lbfgsb:", solver_case)
    differs = (scalar_case, column_case) != unmodified
    print(
        "  -> "
        + (
            "DIFFERS from the unmodified code, which gives: "
            if differs
            else "this IS the unmodified behaviour: "
        )
        + repr(unmodified)
    )


def check_error_path():
    """Counters and memo stay exact when the user gradient is rejected or raises."""
    fc, gc = [], []

    def fun(x):
        fc.append(x.copy())
        return f_user(x)

    state = {"bad": True}

    def jac(x):
        gc.append(x.copy())
        if state["bad"]:
            return g_user(x)[:2]  # wrong size
        return g_user(x).reshape(1, -1)  # row vector: same numbers

    p = np.array([0.5, -1.0, 2.0])
    sf = prepare_scalar_function(fun, p, jac=jac)
    sf.scaling_factor = 0.25
    for k in range(3):
        try:
            out = sf.fun_and_grad(p)
        except ValueError:
            out = None
        if out is not None:
            # unmodified code: the wrong-size gradient is handed back as it is
            if np.shape(out[1]) != (2,):
                raise Violation(f"unexpected shape {np.shape(out[1])}")
            if not np.allclose(out[1], g_user(p)[:2] * 0.25, rtol=1e-13):
                raise Violation("answer is not user gradient times scale")
        if sf.nfev != len(fc) or sf.ngev != len(gc):
            raise Violation(f"error path: nfev={sf.nfev}/{len(fc)} ngev={sf.ngev}/{len(gc)}")
        if len(fc) != 1:
            raise Violation("objective re-evaluated at the point it was last evaluated at")
    state["bad"] = False
    n_g = len(gc)
    sf.scaling_factor = 2.0
    f, g = sf.fun_and_grad(p)
    g2 = sf.grad(p)
    if len(fc) != 1 or sf.nfev != 1:
        raise Violation("objective re-evaluated / miscounted after a rejected gradient")
    if sf.ngev != len(gc) or len(gc) > n_g + 1:
        raise Violation(f"ngev={sf.ngev} vs {len(gc)} user gradient calls")
    # a gradient that was accepted (unmodified code) is legitimately memoized for p;
    # a rejected one (patch c) must have been asked again from the user
    expected = g_user(p) if out is None else g_user(p)[:2]
    if out is None and len(gc) != n_g + 1:
        raise Violation("rejected gradient was not recomputed")
    if out is not None and len(gc) != n_g:
        raise Violation("memoized gradient was recomputed")
    for arr in (g, g2):
        if np.size(arr) != expected.size or not np.allclose(
            np.ravel(arr), expected * 2.0, rtol=1e-13
        ):
            raise Violation("gradient is not a fresh evaluation times the current scale")
    if not np.isclose(f, f_user(p) * 2.0, rtol=1e-13):
        raise Violation("value is not a fresh evaluation times the current scale")


def check_solver_counts():
    """nfev/njev reported by minimize_lbfgsb = number of user calls, incl. checkpoint
    restarts, gradient scaling, bounds and finite differences."""
    from lbfgsb import minimize_lbfgsb
    from lbfgsb.benchmarks import rosenbrock, rosenbrock_grad
    from lbfgsb.utils import get_gradient_projection_unit_scaling

    def quad(x):
        return float(np.sum((np.arange(1, x.size + 1)) * (x - 0.7) ** 2))

    def quad_g(x):
        return 2.0 * np.arange(1, x.size + 1) * (x - 0.7)

    nb = 0
    for f, g in ((rosenbrock, rosenbrock_grad), (quad, quad_g), (f_user, g_user)):
        for n in (2, 5, 12):
            for bounds in (None, [(-1.5, 0.6)] * n, [(0.0, None)] * n):
                for jac_mode in ("callable", None, "3-point"):
                    for scaler in (None, get_gradient_projection_unit_scaling):
                        cnt = {"f": 0, "g": 0}

                        def fun(x, f=f, cnt=cnt):
                            cnt["f"] += 1
                            return f(x)

                        def jac(x, g=g, cnt=cnt):
                            cnt["g"] += 1
                            return g(x)

                        x0 = np.linspace(-1.2, 1.9, n)
                        if bounds is not None:
                            x0 = np.clip(
                                x0,
                                [-np.inf if b[0] is None else b[0] for b in bounds],
                                [np.inf if b[1] is None else b[1] for b in bounds],
                            )
                        kw = dict(
                            fun=fun,
                            jac=jac if jac_mode == "callable" else jac_mode,
                            bounds=bounds,
                            gradient_scaler=scaler,
                            maxcor=4,
                        )
                        res = minimize_lbfgsb(x0=x0, maxiter=3, **kw)
                        if res.nfev != cnt["f"]:
                            raise Violation(f"solver nfev {res.nfev} != {cnt['f']} user calls")
                        if jac_mode == "callable" and res.njev != cnt["g"]:
                            raise Violation(f"solver njev {res.njev} != {cnt['g']} user calls")
                        # restart from the checkpoint: the counters carry on
                        kw.pop("gradient_scaler")
                        res2 = minimize_lbfgsb(x0=res.x, checkpoint=res, maxiter=7, **kw)
                        if res2.nfev != cnt["f"]:
                            raise Violation(
                                f"restart nfev {res2.nfev} != {cnt['f']} user calls"
                            )
                        if jac_mode == "callable" and res2.njev != cnt["g"]:
                            raise Violation(
                                f"restart njev {res2.njev} != {cnt['g']} user calls"
                            )
                        s = res2.scaling_factor
                        if not np.isclose(res2.fun, f(res2.x) * s, rtol=1e-12, atol=1e-300):
                            raise Violation("solver fun is not f(x) * scaling_factor")
                        if jac_mode == "callable" and not np.allclose(
                            res2.jac, g(res2.x) * s, rtol=1e-12, atol=1e-300
                        ):
                            raise Violation("solver jac is not g(x) * scaling_factor")
                        nb += 1
    return nb


def main():
    import sys
    import warnings

    warnings.simplefilter("ignore")
    behaviour_report()

    def obj2_f(x):
        return np.sum(np.exp(0.3 * x)) + x[0] ** 2 * x[-1]

    def obj2_g(x):
        g = 0.3 * np.exp(0.3 * x)
        g[0] = g[0] + 2.0 * x[0] * x[-1]
        g[-1] = g[-1] + x[0] ** 2
        return g

    def col_g(x):  # same gradient as g_user, returned as a plain list
        return list(g_user(x))

    pts1 = ([0.5], [1.5], [-2.0])
    pts6 = tuple(list(np.linspace(a, b, 6)) for a, b in ((-1, 1), (0.5, 3), (-4, -2)))
    try:
        total = 0
        total += exhaustive(4, modes=("callable",))
        total += exhaustive(3)
        total += exhaustive(3, points=pts1)
        total += exhaustive(3, points=pts6, obj=(obj2_f, obj2_g))
        total += exhaustive(4, modes=("callable",), obj=(f_user, col_g))
        for seed, (pts, obj) in enumerate(
            ((POINTS3, None), (pts1, None), (pts6, (obj2_f, obj2_g)), (POINTS3, (obj2_f, obj2_g)))
        ):
            total += random_histories(400, 14, seed=100 + seed, points=pts, obj=obj)
        print(f"wrapper: {total} histories checked, property held")
        check_error_path()
        print("wrapper: counters/memo exact around a rejected or mis-shaped gradient")
        nb = check_solver_counts()
        print(f"solver: {nb} run+restart pairs checked, nfev/njev = user calls")
    except Violation as e:
        print("C15 VIOLATED:", e)
        sys.exit(1)
    print("C15 holds on all checked inputs")
    sys.exit(0)


if __name__ == "__main__":
    main()
