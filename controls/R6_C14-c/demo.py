"""
C14 stress script for the CONTROL patch (c).

(i)  shows what observably differs from the unmodified code (log output only:
     the start header is now emitted, the messages about dropped corrections are
     reworded) -- the expected output of the unmodified code is hard-coded below;
(ii) checks property C14 on many varied inputs: determinism / repeatability,
     independence from the logging configuration (logger, iprint), inputs left
     untouched (x0, bounds, checkpoint; read-only arrays accepted), restart twice
     from the same checkpoint object, gradient scalers, finite differences,
     on-the-fly redefinition of the objective (update_fun_def, with dropped
     corrections), nested runs and runs interleaved on two threads.

Exit status 0 = property held everywhere (expected both with patch c and on the
unmodified tree), 1 = property violated.
"""

import os

for _v in ("OMP_NUM_THREADS", "OPENBLAS_NUM_THREADS", "MKL_NUM_THREADS"):
    os.environ.setdefault(_v, "1")  # tiny matrices: BLAS threads only cost time

import copy  # noqa: E402
import itertools  # noqa: E402
import logging
import sys
import threading
from collections import deque

import numpy as np

from lbfgsb import minimize_lbfgsb

failures = []
n_checks = [0]


# --------------------------------------------------------------------- helpers
class ListHandler(logging.Handler):
    def __init__(self):
        super().__init__()
        self.lines = []

    def emit(self, record):
        self.lines.append(record.getMessage())


def make_logger():
    lg = logging.Logger("demo-c")
    h = ListHandler()
    lg.addHandler(h)
    lg.setLevel(logging.INFO)
    return lg, h


def summary(r):
    if isinstance(r, Exception):
        return ("EXC", type(r).__name__, str(r))
    return (
        np.asarray(r.x).tobytes(),
        np.float64(r.fun).tobytes(),
        np.asarray(r.jac).tobytes(),
        int(r.nit),
        int(r.nfev),
        int(r.njev),
        int(r.status),
        bool(r.success),
        str(r.message),
        np.float64(r.scaling_factor).tobytes(),
        np.asarray(r.hess_inv.sk).tobytes(),
        np.asarray(r.hess_inv.yk).tobytes(),
    )


def describe(r):
    if isinstance(r, Exception):
        return f"raised {type(r).__name__}: {r}"
    return f"nit={r.nit} nfev={r.nfev} fun={r.fun!r} msg={r.message} x={r.x!r}"


def expect_same(label, ref, res):
    n_checks[0] += 1
    if summary(ref) != summary(res):
        failures.append(label)
        print(f"FAIL [{label}]")
        print("    reference:", describe(ref))
        print("    this run :", describe(res))
        return False
    return True


def expect(label, cond, detail=""):
    n_checks[0] += 1
    if not cond:
        failures.append(label)
        print(f"FAIL [{label}] {detail}")
    return cond


def snapshot_ckp(c):
    return (
        np.array(c.x, copy=True),
        np.array(c.jac, copy=True),
        np.array(c.hess_inv.sk, copy=True),
        np.array(c.hess_inv.yk, copy=True),
        float(c.fun),
        int(c.nit),
        int(c.nfev),
        int(c.njev),
        float(c.get("scaling_factor", 1.0)),
        str(c.message),
    )


def same_snapshot(a, b):
    return all(
        np.array_equal(u, v) if isinstance(u, np.ndarray) else u == v
        for u, v in zip(a, b)
    )


# -------------------------------------------------------------------- problems
def rosen(x):
    return float(np.sum(100.0 * (x[1:] - x[:-1] ** 2) ** 2 + (1 - x[:-1]) ** 2))


def rosen_g(x):
    g = np.zeros_like(x)
    g[:-1] = -400.0 * x[:-1] * (x[1:] - x[:-1] ** 2) - 2 * (1 - x[:-1])
    g[1:] += 200.0 * (x[1:] - x[:-1] ** 2)
    return g


def quartic(x):
    return float(np.sum((x - 0.3) ** 4) + 0.5 * np.sum(x[:-1] * x[1:]) + np.sum(x**2))


def quartic_g(x):
    g = 4 * (x - 0.3) ** 3 + 2 * x
    g[:-1] += 0.5 * x[1:]
    g[1:] += 0.5 * x[:-1]
    return g


_Q = np.diag(np.arange(1.0, 8.0)) + 0.3 * np.ones((7, 7))
_B = np.linspace(-3, 4, 7)


def quad(x):
    return float(0.5 * x @ _Q @ x - _B @ x)


def quad_g(x):
    return _Q @ x - _B


def trig(x):
    return float(np.sum(np.cos(x) + 0.1 * x**2) + np.sin(x[0] * x[-1]))


def trig_g(x):
    g = -np.sin(x) + 0.2 * x
    g[0] += np.cos(x[0] * x[-1]) * x[-1]
    g[-1] += np.cos(x[0] * x[-1]) * x[0]
    return g


rng = np.random.default_rng(20240927)

PROBLEMS = [
    # name, fun, jac, x0, bounds
    (
        "rosen6-box",
        rosen,
        rosen_g,
        np.array([-1.2, 1.0, -0.5, 0.8, 1.5, -1.0]),
        np.array([[-2.0, 2.0]] * 6),
    ),
    ("rosen3-free", rosen, rosen_g, np.array([-1.2, 1.0, 0.7]), None),
    (
        "quartic4-mixed",
        quartic,
        quartic_g,
        np.array([2.0, -3.0, 1.5, 4.0]),
        np.array([[-5.0, 5.0], [-np.inf, 0.5], [-5.0, np.inf], [1.0, 5.0]]),
    ),
    (
        "quad7-active",
        quad,
        quad_g,
        np.clip(
            rng.uniform(-1, 1, 7),
            [-1.0] * 3 + [0.2] * 2 + [-1.0] * 2,
            [1.0] * 3 + [0.4] * 2 + [0.0] * 2,
        ),
        np.array([[-1.0, 1.0]] * 3 + [[0.2, 0.4]] * 2 + [[-1.0, 0.0]] * 2),
    ),
    (
        "trig5-box",
        trig,
        trig_g,
        rng.uniform(-2, 2, 5),
        np.array([[-3.0, 3.0]] * 5),
    ),
    (
        "quad7-start-on-bounds",
        quad,
        quad_g,
        np.array([-1.0, 1.0, 0.0, 0.2, 0.4, -1.0, 0.0]),
        np.array([[-1.0, 1.0]] * 3 + [[0.2, 0.4]] * 2 + [[-1.0, 0.0]] * 2),
    ),
]

OPTION_SETS = [
    dict(maxiter=25, ftol=1e-12, gtol=1e-9, maxcor=5),
    dict(maxiter=12, ftol=1e-8, gtol=1e-6, maxcor=2, maxls=5),
    dict(maxiter=30, ftol=0.0, gtol=1e-10, maxcor=10, maxfun=40),
    dict(
        maxiter=15,
        ftol=1e-10,
        gtol=1e-8,
        maxcor=3,
        ftol_linesearch=1e-4,
        gtol_linesearch=0.5,
        max_steplength=2.0,
    ),
]


def call(fun, jac, x0, bounds, logger=None, iprint=-1, **kw):
    try:
        return minimize_lbfgsb(
            x0=x0, fun=fun, jac=jac, bounds=bounds, logger=logger, iprint=iprint, **kw
        )
    except Exception as e:  # noqa: BLE001
        return e


# =========================================================================
# (i) what differs from the unmodified code
# =========================================================================
print("=== (i) observable difference with respect to the unmodified code ===")
name, fun, jac, x0, bounds = PROBLEMS[0]
lg, h = make_logger()
r_log = call(fun, jac, x0.copy(), bounds.copy(), logger=lg, iprint=1, **OPTION_SETS[0])
header = [ln for ln in h.lines if "RUNNING THE L-BFGS-B CODE" in ln]
at_x0 = [ln for ln in h.lines if ln.startswith("At X0")]
print(f"start header emitted with logger, iprint=1 : {len(header) == 1}")
print("   unmodified code                         : False (the logger was not")
print("   forwarded to display_start, the header was never printed)")
if at_x0:
    print(f"   observed first lines: {h.lines[:5]!r}")


class Regul:
    """f(x) = rosen(x) - w * ||x - a||^2, w changed at a given update."""

    a = np.linspace(-0.5, 0.5, 5)

    def __init__(self, switch_at, new_w):
        self.w, self.k, self.switch_at, self.new_w = 0.0, 0, switch_at, new_w

    def fun(self, x):
        return rosen(x) - self.w * float(np.sum((x - self.a) ** 2))

    def jac(self, x):
        return rosen_g(x) - 2.0 * self.w * (x - self.a)

    def update(self, x, f0, f0_old, grad, X, G):
        self.k += 1
        if self.k != self.switch_at:
            return f0, f0_old, grad, G
        self.w = self.new_w
        newG = deque(self.jac(xi) for xi in X)
        f0_old = self.fun(X[-1]) if len(X) > 0 else f0_old
        return self.fun(x), f0_old, self.jac(x), newG


REG_X0 = np.array([-1.2, 1.0, -0.5, 0.8, 1.5])
REG_BOUNDS = np.array([[-2.0, 2.0]] * 5)


def call_regul(switch_at, new_w, logger=None, iprint=-1, checkpoint=None, x0=REG_X0):
    pb = Regul(switch_at, new_w)
    try:
        return minimize_lbfgsb(
            x0=x0.copy(),
            fun=pb.fun,
            jac=pb.jac,
            update_fun_def=pb.update,
            bounds=REG_BOUNDS.copy(),
            checkpoint=checkpoint,
            maxcor=6,
            maxiter=20,
            ftol=1e-13,
            gtol=1e-9,
            logger=logger,
            iprint=iprint,
        )
    except Exception as e:  # noqa: BLE001
        return e


lg, h = make_logger()
call_regul(5, 40.0, logger=lg, iprint=-1)
drop = [ln for ln in h.lines if ln.startswith("Dropping") or "dropped" in ln]
print("messages when corrections are dropped after a redefinition of the objective:")
for ln in drop:
    print("   observed  :", ln)
print("   unmodified: 'Dropping update #-N' and 'len(newG) = .., len(oldG) = ..'")
is_patched = len(header) == 1 and any(ln.startswith("Dropping point") for ln in drop)
print(f"-> running against: {'patch c' if is_patched else 'the unmodified code'}")
print("   (numerical results are the same in both: see the checks below)\n")

# =========================================================================
# (ii) the property
# =========================================================================
print("=== (ii) C14 checks ===")

# ---- 1. repeatability, logging independence, inputs untouched, read-only ----
LOGCFG = [(False, 101), (True, -1), (True, 0), (True, 1), (True, 99), (True, 101)]
for (name, fun, jac, x0, bounds), (io, opts) in itertools.product(
    PROBLEMS, enumerate(OPTION_SETS)
):
    x0_keep = x0.copy()
    b_keep = None if bounds is None else bounds.copy()
    x0_ro = x0.copy()
    x0_ro.setflags(write=False)
    b_ro = None
    if bounds is not None:
        b_ro = bounds.copy()
        b_ro.setflags(write=False)
    ref = call(fun, jac, x0_ro, b_ro, **opts)
    expect(f"{name}/opt{io}: runs", not isinstance(ref, Exception), describe(ref))
    expect_same(f"{name}/opt{io}: repeat", ref, call(fun, jac, x0, bounds, **opts))
    for with_logger, ip in LOGCFG:
        lg = make_logger()[0] if with_logger else None
        r = call(fun, jac, x0, bounds, logger=lg, iprint=ip, **opts)
        expect_same(f"{name}/opt{io}: logger={with_logger} iprint={ip}", ref, r)
    expect(f"{name}/opt{io}: x0 untouched", np.array_equal(x0, x0_keep))
    expect(f"{name}/opt{io}: x0_ro untouched", np.array_equal(x0_ro, x0_keep))
    if bounds is not None:
        expect(
            f"{name}/opt{io}: bounds untouched",
            np.array_equal(bounds, b_keep) and np.array_equal(b_ro, b_keep),
        )
print(f"1. repeat / logging / inputs: done ({n_checks[0]} checks so far)")

# ---- 2. finite differences and gradient scalers -------------------------------
def scaler_a(x, g, lb, ub):
    return 1.0 / max(1.0, float(np.max(np.abs(g))))


def scaler_b(x, g, lb, ub):
    return 0.25


for (name, fun, jac, x0, bounds), jmode, scaler in itertools.product(
    PROBLEMS[:4], (None, "2-point", "3-point"), (None, scaler_a, scaler_b)
):
    kw = dict(maxiter=8, ftol=1e-10, gtol=1e-7, maxcor=4, gradient_scaler=scaler)
    ref = call(fun, jmode, x0.copy(), bounds, **kw)
    lg = make_logger()[0]
    expect_same(
        f"{name}/jac={jmode}/scaler: logger iprint=101",
        ref,
        call(fun, jmode, x0.copy(), bounds, logger=lg, iprint=101, **kw),
    )
    expect_same(
        f"{name}/jac={jmode}/scaler: repeat", ref, call(fun, jmode, x0.copy(), bounds, **kw)
    )
print(f"2. finite differences / scalers: done ({n_checks[0]} checks so far)")

# ---- 3. restarts from a checkpoint -------------------------------------------
for (name, fun, jac, x0, bounds), scaler in itertools.product(
    PROBLEMS, (None, scaler_a)
):
    ckp = call(
        fun, jac, x0.copy(), bounds, maxiter=6, ftol=1e-14, gtol=1e-12, maxcor=5,
        gradient_scaler=scaler,
    )
    if isinstance(ckp, Exception):
        expect(f"{name}: checkpoint run", False, describe(ckp))
        continue
    snap = snapshot_ckp(ckp)
    ckp_copy = copy.deepcopy(ckp)
    ref = None
    for k, (with_logger, ip, mc) in enumerate(
        [(False, -1, 5), (True, 101, 5), (False, -1, 2), (True, 1, 5), (False, -1, 5)]
    ):
        lg = make_logger()[0] if with_logger else None
        x_start = np.array(ckp.x, copy=True)
        x_start.setflags(write=False)
        r = call(
            fun, jac, x_start, bounds, checkpoint=ckp, maxiter=ckp.nit + 10,
            ftol=1e-12, gtol=1e-9, maxcor=mc, logger=lg, iprint=ip,
            gradient_scaler=scaler,
        )
        expect(
            f"{name}: checkpoint untouched after restart #{k}",
            same_snapshot(snap, snapshot_ckp(ckp)),
        )
        if mc == 5:
            if ref is None:
                ref = r
                # a restart from an equal (deep-copied) checkpoint gives the same
                r2 = call(
                    fun, jac, np.array(ckp_copy.x), bounds, checkpoint=ckp_copy,
                    maxiter=ckp.nit + 10, ftol=1e-12, gtol=1e-9, maxcor=5,
                    gradient_scaler=scaler,
                )
                expect_same(f"{name}: restart from an equal checkpoint", ref, r2)
            else:
                expect_same(f"{name}: restart #{k} same as restart #0", ref, r)
print(f"3. checkpoints: done ({n_checks[0]} checks so far)")

# ---- 4. on-the-fly redefinition (corrections dropped) -------------------------
for switch_at, new_w in ((5, 40.0), (4, 15.0), (7, 80.0), (1, 30.0)):
    ref = call_regul(switch_at, new_w)
    expect(f"regul {switch_at}/{new_w}: runs", not isinstance(ref, Exception), describe(ref))
    for with_logger, ip in LOGCFG:
        lg = make_logger()[0] if with_logger else None
        expect_same(
            f"regul {switch_at}/{new_w}: logger={with_logger} iprint={ip}",
            ref,
            call_regul(switch_at, new_w, logger=lg, iprint=ip),
        )
# restart from a checkpoint + redefinition at the restart
pb0 = Regul(10**9, 0.0)
ckp = minimize_lbfgsb(
    x0=REG_X0.copy(), fun=pb0.fun, jac=pb0.jac, bounds=REG_BOUNDS.copy(),
    maxcor=6, maxiter=8, ftol=1e-13, gtol=1e-9,
)
snap = snapshot_ckp(ckp)
for new_w in (40.0, 100.0):
    ref = call_regul(1, new_w, checkpoint=ckp, x0=ckp.x)
    expect(f"regul restart {new_w}: runs", not isinstance(ref, Exception), describe(ref))
    for with_logger, ip in ((True, 101), (True, -1), (False, -1), (True, 1)):
        lg = make_logger()[0] if with_logger else None
        expect_same(
            f"regul restart {new_w}: logger={with_logger} iprint={ip}",
            ref,
            call_regul(1, new_w, logger=lg, iprint=ip, checkpoint=ckp, x0=ckp.x),
        )
    expect(f"regul restart {new_w}: checkpoint untouched", same_snapshot(snap, snapshot_ckp(ckp)))
print(f"4. update_fun_def: done ({n_checks[0]} checks so far)")

# ---- 5. nested and interleaved runs -------------------------------------------
pairs = [(PROBLEMS[0], PROBLEMS[2]), (PROBLEMS[4], PROBLEMS[3]), (PROBLEMS[1], PROBLEMS[0])]
for (pn, pf, pj, px0, pb), (qn, qf, qj, qx0, qb) in pairs:
    kwp = dict(maxiter=15, ftol=1e-12, gtol=1e-9, maxcor=5)
    kwq = dict(maxiter=10, ftol=1e-12, gtol=1e-9, maxcor=3)
    ref_p = call(pf, pj, px0.copy(), pb, **kwp)
    ref_q = call(qf, qj, qx0.copy(), qb, **kwq)
    inner_ok = [True]

    def nested(x, qf=qf, qj=qj, qx0=qx0, qb=qb, ref_q=ref_q, kwq=kwq, pf=pf):
        lg = make_logger()[0]
        r = call(qf, qj, qx0.copy(), qb, logger=lg, iprint=101, **kwq)
        if summary(r) != summary(ref_q):
            inner_ok[0] = False
        return pf(x)

    expect_same(f"{pn} with {qn} nested in the objective", ref_p, call(nested, pj, px0.copy(), pb, **kwp))
    expect(f"{qn} nested in {pn}: inner results", inner_ok[0])

    sem = {"P": threading.Semaphore(1), "Q": threading.Semaphore(0)}
    done = {"P": False, "Q": False}
    out = {}

    def lockstep(f, me, other):
        def w(x):
            if not done[other]:
                sem[me].acquire(timeout=5.0)
            try:
                return f(x)
            finally:
                sem[other].release()

        return w

    def worker(me, other, f, j, x0_, b, kw, with_logger):
        try:
            lg = make_logger()[0] if with_logger else None
            out[me] = call(lockstep(f, me, other), j, x0_.copy(), b, logger=lg, iprint=99, **kw)
        finally:
            done[me] = True
            sem[other].release()

    tp = threading.Thread(target=worker, args=("P", "Q", pf, pj, px0, pb, kwp, True))
    tq = threading.Thread(target=worker, args=("Q", "P", qf, qj, qx0, qb, kwq, False))
    tp.start()
    tq.start()
    tp.join(30)
    tq.join(30)
    expect_same(f"{pn} interleaved with {qn} (thread)", ref_p, out.get("P", RuntimeError("no result")))
    expect_same(f"{qn} interleaved with {pn} (thread)", ref_q, out.get("Q", RuntimeError("no result")))
print(f"5. nested / interleaved: done ({n_checks[0]} checks so far)")

# ---- 6. order independence: same call before and after a batch of other runs --
name, fun, jac, x0, bounds = PROBLEMS[3]
before = call(fun, jac, x0.copy(), bounds, **OPTION_SETS[0])
for (n2, f2, j2, x2, b2), o2 in itertools.product(PROBLEMS, OPTION_SETS[:2]):
    call(f2, j2, x2.copy(), b2, logger=make_logger()[0], iprint=101, **o2)
expect_same("same call after many other runs", before, call(fun, jac, x0.copy(), bounds, **OPTION_SETS[0]))

print(f"\n{n_checks[0]} checks, {len(failures)} failure(s).")
if failures:
    print("C14 VIOLATED:", failures[:20])
    sys.exit(1)
print("C14 held on every input.")
sys.exit(0)
