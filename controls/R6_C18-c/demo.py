import os
import warnings

os.environ.setdefault("OMP_NUM_THREADS", "1")
os.environ.setdefault("OPENBLAS_NUM_THREADS", "1")

import numpy as np
from lbfgsb import minimize_lbfgsb, extract_hess_inv_diag

warnings.filterwarnings("ignore", category=RuntimeWarning)


class Logged:
    """Wrap f and g; keep private copies of every (x, g) the user code returned."""

    def __init__(self, f, g, scale=1.0):
        self._f, self._g = f, g
        self.glog = {}
        self.scale = scale

    def fun(self, x):
        return self._f(x)

    def jac(self, x):
        out = self._g(x)
        self.glog[np.asarray(x, dtype=float).tobytes()] = np.array(out, dtype=float)
        return out

    def g_at(self, x):
        return self.glog.get(np.asarray(x, dtype=float).tobytes())


def check_operator(hess_inv, visited, gvis, maxcor, where, exact=True):
    """Check C18 for one operator.

    visited: list of iterates the run visited so far (chronological, the last one is
    the iterate the operator belongs to); gvis: gradients (as used by the solver,
    i.e. the user's values times the scaling factor) at these iterates.
    Returns a list of violation messages.
    """
    errs = []

    def same(a, b):
        if exact:
            return np.array_equal(a, b)
        # restart from a checkpoint: the solver rebuilds the history from the pairs,
        # inherited pairs are reproduced up to rounding only (also on unmodified code)
        return np.allclose(a, b, rtol=1e-11, atol=1e-12 * (1.0 + np.max(np.abs(b))))

    sk, yk = np.atleast_2d(hess_inv.sk), np.atleast_2d(hess_inv.yk)
    m = sk.shape[0]
    if sk.shape != yk.shape:
        return [f"{where}: sk/yk shape mismatch {sk.shape} {yk.shape}"]
    if m > maxcor:
        errs.append(f"{where}: {m} pairs > maxcor={maxcor}")
    for i in range(m):
        sy = float(sk[i].dot(yk[i]))
        if not sy > 0:
            errs.append(f"{where}: pair {i} has s.y = {sy!r} (not > 0)")

    def chain(c):
        # the newest retained iterate is visited[c]; walk back through the pairs
        for i in range(m - 1, -1, -1):
            found = None
            for j in range(c - 1, -1, -1):
                if same(visited[c] - visited[j], sk[i]):
                    if gvis[c] is None or gvis[j] is None:
                        return f"pair {i}: no gradient was ever returned at x_{c}/x_{j}"
                    if same(gvis[c] - gvis[j], yk[i]):
                        found = j
                        break
                    found = -1 - j
            if found is None:
                return f"pair {i}: s is not the difference of two visited iterates"
            if found < 0:
                j = -1 - found
                dev = np.max(np.abs(gvis[c] - gvis[j] - yk[i]))
                return (
                    f"pair {i}: s = x_{c} - x_{j} but y != g(x_{c}) - g(x_{j}) as "
                    f"returned by the user (max deviation {dev:.3e})"
                )
            c = found
        return None

    if m > 0:
        msgs = []
        for c in range(len(visited) - 1, 0, -1):
            msg = chain(c)
            if msg is None:
                msgs = []
                break
            msgs.append(msg)
        if msgs:
            # report the most informative failure (a matching s with a wrong y)
            msgs.sort(key=lambda t: "but y !=" not in t)
            errs.append(f"{where}: {msgs[0]}")
    if m > 0:
        # symmetric positive definite + diagonal utility
        H = hess_inv.todense()
        if not np.allclose(H, H.T, rtol=1e-10, atol=1e-300):
            errs.append(f"{where}: dense operator not symmetric")
        d = extract_hess_inv_diag(hess_inv)
        if not np.array_equal(d, np.diag(H)) and not np.allclose(
            d, np.diag(H), rtol=1e-12, atol=0
        ):
            errs.append(f"{where}: extract_hess_inv_diag != diag(todense())")
    return errs


def run_and_check(f, g, x0, bounds=None, maxcor=10, scaler=None, tag="", **kw):
    """Run the solver with a recording callback, check every operator seen."""
    lg = Logged(f, g)
    x0 = np.asarray(x0, dtype=float)
    if bounds is not None:
        b = np.asarray(bounds, dtype=float)
        xs = np.clip(x0, b[:, 0], b[:, 1])
    else:
        xs = x0.copy()
    visited = [xs.copy()]
    states = []

    def cb(xk, state):
        visited.append(np.array(xk, dtype=float))
        states.append((len(visited), state))
        return False

    res = minimize_lbfgsb(
        x0=x0, fun=lg.fun, jac=lg.jac, bounds=bounds, maxcor=maxcor,
        callback=cb, gradient_scaler=scaler, **kw
    )
    if not np.array_equal(visited[-1], res.x):
        visited.append(np.array(res.x, dtype=float))
    sc = res.scaling_factor

    def gv(x):
        v = lg.g_at(x)
        return None if v is None else v * sc

    gvis = [gv(x) for x in visited]
    errs = []
    for k, (nv, st) in enumerate(states):
        errs += check_operator(
            st.hess_inv, visited[:nv], gvis[:nv], maxcor, f"{tag} callback state {k + 1}"
        )
    errs += check_operator(res.hess_inv, visited, gvis, maxcor, f"{tag} final result")
    return res, states, errs


# --------------------------------------------------------------------------
# Demo c (control / stress): (i) show where behaviour differs from the unmodified
# code, (ii) check C18 on many runs: plain, boxed, scaled, restarted from a
# checkpoint, objective redefined on the fly (update_fun_def), + diagonal utility.
# --------------------------------------------------------------------------
from collections import deque

from lbfgsb.bfgsmats import make_X_and_G_respect_strong_wolfe
from scipy.optimize import LbfgsInvHessProduct


class Session:
    """One objective, possibly several runs (restarts); records what the user code
    returned and checks every operator (callback states and results)."""

    def __init__(self, f, g, tag, ufd=None):
        self.f, self.g, self.tag, self.ufd = f, g, tag, ufd
        self.raw = {}  # x -> gradient returned by jac (unscaled)
        self.rew = {}  # x -> gradient last returned by update_fun_def
        self.visited = []
        self.errs = []
        self.nops = 0
        self.npairs = []
        self.exact = True

    # -- user side ---------------------------------------------------------
    def fun(self, x):
        return self.f(x)

    def jac(self, x):
        out = self.g(x)
        self.raw[x.tobytes()] = np.array(out, dtype=float)
        return out

    def key(self, x):
        k = np.asarray(x, dtype=float).tobytes()
        if self.exact:
            return k
        for v in reversed(self.visited):
            if np.allclose(v, x, rtol=1e-11, atol=1e-13):
                return v.tobytes()
        return k

    def ufd_wrapped(self, x, f0, f0_old, grad, X, G):
        f0, f0_old, grad, G = self.ufd(x, f0, f0_old, grad, X, G)
        for xi, gi in zip(X, G):
            self.rew[self.key(xi)] = np.array(gi, dtype=float)
        self.rew[self.key(x)] = np.array(grad, dtype=float)
        return f0, f0_old, grad, G

    # -- checks --------------------------------------------------------------
    def gvis(self, sc):
        out = []
        for v in self.visited:
            k = v.tobytes()
            if self.ufd is not None and k in self.rew:
                out.append(self.rew[k])
            elif k in self.raw:
                out.append(self.raw[k] * sc)
            else:
                out.append(None)
        return out

    def check(self, state, maxcor, where):
        self.nops += 1
        self.npairs.append(np.atleast_2d(state.hess_inv.sk).shape[0])
        self.errs += check_operator(
            state.hess_inv, self.visited, self.gvis(state.scaling_factor), maxcor,
            f"{self.tag} {where}", exact=self.exact,
        )

    def run(self, x0, maxcor, bounds=None, checkpoint=None, scaler=None, **kw):
        x0 = np.asarray(x0, dtype=float)
        if checkpoint is None:
            xs = x0.copy()
            if bounds is not None:
                b = np.asarray(bounds, dtype=float)
                xs = np.clip(x0, b[:, 0], b[:, 1])
            self.visited.append(xs)
        else:
            self.exact = False  # inherited pairs: up to rounding (see check_operator)
        k = [0]

        def cb(xk, state):
            self.visited.append(np.array(xk, dtype=float))
            k[0] += 1
            self.check(state, maxcor, f"callback state {k[0]}")
            return False

        res = minimize_lbfgsb(
            x0=x0, fun=self.fun, jac=self.jac, bounds=bounds, maxcor=maxcor,
            callback=cb, checkpoint=checkpoint, gradient_scaler=scaler,
            update_fun_def=None if self.ufd is None else self.ufd_wrapped, **kw
        )
        if not np.array_equal(self.visited[-1], res.x):
            self.visited.append(np.array(res.x, dtype=float))
        self.check(res, maxcor, "result")
        return res


# ---- objectives ------------------------------------------------------------
def rosen(x):
    return float(np.sum(100.0 * (x[1:] - x[:-1] ** 2) ** 2 + (1 - x[:-1]) ** 2))


def rosen_g(x):
    d = np.zeros_like(x)
    d[1:-1] = (200 * (x[1:-1] - x[:-2] ** 2) - 400 * (x[2:] - x[1:-1] ** 2) * x[1:-1]
               - 2 * (1 - x[1:-1]))
    d[0] = -400 * x[0] * (x[1] - x[0] ** 2) - 2 * (1 - x[0])
    d[-1] = 200 * (x[-1] - x[-2] ** 2)
    return d


def make_quad(n, seed):
    r = np.random.RandomState(seed)
    q = r.randn(n, n)
    a = q @ q.T + 0.1 * np.eye(n)
    c = r.randn(n)
    return (lambda x: float(0.5 * x @ a @ x - c @ x)), (lambda x: a @ x - c)


def wavy(x):  # non convex
    return float(np.sum(0.1 * x**2 + np.sin(3.0 * x)))


def wavy_g(x):
    return 0.2 * x + 3.0 * np.cos(3.0 * x)


def quartic(x):
    return float(np.sum((x - 0.5) ** 4) + 0.5 * np.sum(x[:-1] * x[1:]) ** 2)


def quartic_g(x):
    t = np.sum(x[:-1] * x[1:])
    d = 4 * (x - 0.5) ** 3
    d[:-1] += t * x[1:]
    d[1:] += t * x[:-1]
    return d


def unit_scaler(x, grad, lb, ub):
    return 1.0 / max(np.max(np.abs(grad)), 1e-30)


class RegProblem:
    """data(x) + w * reg(x), the weight w is changed while optimizing; the past
    gradients are recomputed for the new definition (the documented use)."""

    def __init__(self, n, seed, weights, nonconvex):
        self.fd, self.gd = make_quad(n, seed)
        self.w = weights[0]
        self.weights = weights
        self.calls = 0
        self.nonconvex = nonconvex

    def reg(self, x):
        return float(np.sum(np.cos(2.0 * x))) if self.nonconvex else float(x @ x)

    def reg_g(self, x):
        return -2.0 * np.sin(2.0 * x) if self.nonconvex else 2.0 * x

    def f(self, x):
        return self.fd(x) + self.w * self.reg(x)

    def g(self, x):
        return self.gd(x) + self.w * self.reg_g(x)

    def ufd(self, x, f0, f0_old, grad, X, G):
        self.calls += 1
        self.w = self.weights[min(self.calls // 3, len(self.weights) - 1)]
        newG = deque(self.g(xi) for xi in X)
        f_old = self.f(X[-1]) if len(X) else self.f(x)
        return self.f(x), f_old, self.g(x), newG


class Corrupter:
    """update_fun_def that, at its `at`-th call, rewrites ONE gradient in the middle
    of the history so that the pair ending there has negative curvature."""

    def __init__(self, at, pos):
        self.at, self.pos, self.calls = at, pos, 0

    def ufd(self, x, f0, f0_old, grad, X, G):
        self.calls += 1
        G = deque(np.array(g) for g in G)
        if self.calls == self.at and len(X) > self.pos + 1:
            k = self.pos
            s_prev = X[k] - X[k - 1]
            # g_k := g_{k-1} - s_prev  ->  s_prev.y_prev = -|s_prev|^2 < 0
            G[k] = G[k - 1] - s_prev
        return f0, f0_old, grad, G


# ---- (i) behaviour difference ------------------------------------------------
# reference values recorded with the UNMODIFIED code
REF_UNIT_KEPT = 3


def behaviour_difference():
    # history of 4 points; the pair (x1 -> x2) has negative curvature, every other
    # adjacent pair, and the bridging pair (x0 -> x2), has positive curvature.
    X = deque(np.array(v, dtype=float) for v in ([0, 0], [1, 0], [1.5, 1], [2.5, 2]))
    G = deque(np.array(v, dtype=float) for v in ([0, 0], [2, 0], [1.0, 0.2], [3.0, 5]))
    Xf, Gf = make_X_and_G_respect_strong_wolfe(X, G)
    print(f"(i) filter on a 4-point history with one bad inner pair keeps {len(Xf)} "
          f"points here; the unmodified code keeps {REF_UNIT_KEPT}"
          f" -> {'DIFFERENT' if len(Xf) != REF_UNIT_KEPT else 'same'}")
    fq, gq = make_quad(6, 3)
    cor = Corrupter(at=6, pos=2)
    s = Session(fq, gq, "corrupt-demo", ufd=cor.ufd)
    res = s.run(np.full(6, 2.0), maxcor=5, maxiter=9, ftol=-np.inf, gtol=1e-14)
    print(f"    end-to-end (update_fun_def rewriting one inner gradient at its 6th "
          f"call): pairs per operator {s.npairs}, nit={res.nit}, nfev={res.nfev}, "
          f"fun={res.fun!r}")
    got = (s.npairs, res.nit, res.nfev, float(res.fun))
    print(f"    unmodified code gives: pairs per operator {REF_CORRUPT[0]}, "
          f"nit={REF_CORRUPT[1]}, nfev={REF_CORRUPT[2]}, fun={REF_CORRUPT[3]!r}"
          f" -> {'DIFFERENT' if got != REF_CORRUPT else 'same'}")
    return s


REF_CORRUPT = ([1, 2, 3, 4, 4, 5, 5, 5, 5, 5], 9, 11, -1.3589512346565404)


# ---- (ii) stress ---------------------------------------------------------------
def stress():
    sessions = []
    rng = np.random.RandomState(12345)
    objs = [
        ("rosen", rosen, rosen_g, 5),
        ("wavy", wavy, wavy_g, 7),
        ("quartic", quartic, quartic_g, 4),
    ]
    for seed in (1, 2):
        fq, gq = make_quad(8, seed)
        objs.append((f"quad{seed}", fq, gq, 8))

    # plain / boxed / scaled runs, several maxcor
    for name, f, g, n in objs:
        for maxcor in (1, 2, 5, 10):
            for boxed in (False, True):
                for scaler in (None, unit_scaler):
                    x0 = rng.uniform(-2.0, 2.0, n)
                    bounds = None
                    if boxed:
                        lo = rng.uniform(-1.5, 0.0, n)
                        bounds = np.column_stack([lo, lo + rng.uniform(0.5, 3.0, n)])
                        x0 = np.clip(x0, bounds[:, 0], bounds[:, 1])
                    s = Session(f, g, f"{name}/m{maxcor}/box{int(boxed)}/"
                                f"sc{int(scaler is not None)}")
                    s.run(x0, maxcor, bounds=bounds, scaler=scaler, maxiter=20,
                          ftol=1e-13, gtol=1e-9)
                    sessions.append(s)

    # restarts from a checkpoint (same / smaller / larger maxcor, twice in a row)
    for name, f, g, n in objs:
        for m1, m2, m3 in ((5, 5, 5), (6, 2, 4), (2, 7, 3)):
            for boxed in (False, True):
                x0 = rng.uniform(-2.0, 2.0, n)
                bounds = None
                if boxed:
                    bounds = np.column_stack([np.full(n, -1.0), np.full(n, 2.5)])
                    x0 = np.clip(x0, bounds[:, 0], bounds[:, 1])
                s = Session(f, g, f"restart/{name}/m{m1}-{m2}-{m3}/box{int(boxed)}")
                kw = dict(bounds=bounds, ftol=-np.inf, gtol=1e-10)
                r1 = s.run(x0, m1, maxiter=8, **kw)
                r2 = s.run(r1.x, m2, checkpoint=r1, maxiter=14, **kw)
                s.run(r2.x, m3, checkpoint=r2, maxiter=20, **kw)
                sessions.append(s)

    # objective redefined on the fly (update_fun_def), with and without restart
    for seed in (1, 2, 3):
        for nonconvex in (False, True):
            for weights in ((0.0, 0.5, 2.0, 0.1), (1.0, 5.0, 0.0, 8.0, 0.3)):
                for maxcor in (3, 6):
                    p = RegProblem(6, seed, weights, nonconvex)
                    s = Session(p.f, p.g, f"reg/s{seed}/nc{int(nonconvex)}/"
                                f"w{len(weights)}/m{maxcor}", ufd=p.ufd)
                    # ftol=-inf: stop on maxiter/gtol only (the objective changes, so
                    # a relative-decrease test is meaningless here)
                    r1 = s.run(rng.uniform(-2, 2, 6), maxcor, maxiter=10,
                               ftol=-np.inf, gtol=1e-12)
                    s.run(r1.x, maxcor, checkpoint=r1, maxiter=16, ftol=-np.inf,
                          gtol=1e-12)
                    sessions.append(s)
    # history rewritten so that an inner pair loses positive curvature
    for at in (3, 4, 5, 6, 7):
        for pos in (1, 2, 3):
            for maxcor in (3, 5, 8):
                fq, gq = make_quad(6, 10 + at)
                cor = Corrupter(at, pos)
                s = Session(fq, gq, f"corrupt/at{at}/pos{pos}/m{maxcor}", ufd=cor.ufd)
                s.run(np.full(6, 2.0), maxcor, maxiter=10, ftol=-np.inf, gtol=1e-14)
                sessions.append(s)
    return sessions


def diag_utility():
    errs = []
    rng = np.random.RandomState(777)
    cnt = 0
    for n in range(1, 31):
        for m in range(1, 13):
            q = rng.randn(n, n)
            a = q @ q.T + 0.5 * np.eye(n)
            sk = rng.randn(m, n) * 10.0 ** rng.uniform(-3, 3)
            yk = sk @ a
            op = LbfgsInvHessProduct(sk, yk)
            d = extract_hess_inv_diag(op)
            ref = np.diag(op.todense())
            cnt += 1
            if not np.allclose(d, ref, rtol=1e-12, atol=0.0):
                errs.append(f"diag utility n={n} m={m}: max rel dev "
                            f"{np.max(np.abs(d - ref) / np.abs(ref)):.2e}")
    return cnt, errs


def main():
    behaviour_difference()
    sessions = stress()
    errs = [e for s in sessions for e in s.errs]
    nops = sum(s.nops for s in sessions)
    nfull = sum(1 for s in sessions for k in s.npairs if k > 0)
    cnt, e2 = diag_utility()
    errs += e2
    print(f"(ii) checked {nops} operators ({nfull} non-empty) from {len(sessions)} "
          f"sessions, and {cnt} random pair sets for the diagonal utility")
    if errs:
        print("C18 VIOLATED:")
        for m in errs[:15]:
            print("  -", m)
        print(f"  ({len(errs)} messages)")
        return 1
    print("C18 held everywhere")
    return 0


if __name__ == "__main__":
    raise SystemExit(main())
