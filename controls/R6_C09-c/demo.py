"""Stress script for the control patch c (C09).

(i)  shows where the behaviour differs from the unmodified code,
(ii) checks C09 on many varied inputs: random (x, gradient, box, memory) chains
     cauchy -> get_freev -> subspace_minimization for n in 1..10 and 0..maxcor pairs,
     all free / none free / mixed partitions, infinite bounds, several scales; and
     every subspace call of whole minimize_lbfgsb runs (3 objectives, bounded and
     half bounded boxes, starts on the boundary, several maxcor, restarts from a
     checkpoint with a changed maxcor, on-the-fly update_fun_def changes).
Exit 0 when the property held everywhere (with patch c AND on the unmodified tree).
"""

# ---------------------------------------------------------------------------
# Shared C09 checker (inlined in each demo).
# Property C09: given the Cauchy point xcp, the subspace step
#   * keeps every variable on a bound at xcp fixed,
#   * moves the free variables along the exact minimiser direction of the
#     quadratic model restricted to them, truncated by the largest factor <= 1
#     keeping the point in the box,
#   * never increases the model value,
#   * and xbar - x is a descent direction when the projected gradient is != 0.
# ---------------------------------------------------------------------------
import sys
from collections import deque

import numpy as np

from lbfgsb.bfgsmats import LBFGSB_MATRICES, update_lbfgs_matrices
from lbfgsb.cauchy import get_cauchy_point
from lbfgsb.subspacemin import get_freev, subspace_minimization


def dense_B_from_mats(mats, n):
    """B = theta I - W M W' with M^-1 given by the stored factors."""
    if not mats.use_factor:
        return mats.theta * np.eye(n)
    Minv = mats.invMfactors[0] @ mats.invMfactors[1]
    return mats.theta * np.eye(n) - mats.W @ np.linalg.solve(Minv, mats.W.T)


def dense_B_bfgs(mats, n):
    """The same matrix by the plain BFGS recursion on the stored pairs."""
    B = mats.theta * np.eye(n)
    if not mats.use_factor:
        return B
    for s, y in zip(mats.S.T, mats.Y.T):
        Bs = B @ s
        B = B - np.outer(Bs, Bs) / s.dot(Bs) + np.outer(y, y) / y.dot(s)
    return B


def projected_gradient(x, g, lb, ub):
    return x - np.clip(x - g, lb, ub)


def check_step(x, g, lb, ub, mats, xcp, xbar, label, rtol=1e-6):
    """Return a list of violation strings (empty list: property holds)."""
    out = []
    n = x.size
    x, g, xcp, xbar = (np.asarray(v, dtype=float) for v in (x, g, xcp, xbar))
    step_scale = max(np.linalg.norm(xbar - x), np.linalg.norm(xcp - x), 1e-300)
    # box
    if np.any(xbar < lb - 1e-12 * (1 + np.abs(lb))) or np.any(
        xbar > ub + 1e-12 * (1 + np.abs(ub))
    ):
        out.append(f"{label}: xbar leaves the box: {xbar}")
    active = (xcp == lb) | (xcp == ub)
    free = ~active
    if np.any(xbar[active] != xcp[active]):
        out.append(f"{label}: a variable on a bound at the Cauchy point was moved")
    for name, B in (
        ("B(theta,W,M)", dense_B_from_mats(mats, n)),
        ("B(bfgs recursion)", dense_B_bfgs(mats, n)),
    ):
        ref = xcp.copy()
        if free.any():
            r = g + B @ (xcp - x)
            dN = -np.linalg.solve(B[np.ix_(free, free)], r[free])
            room = np.where(dN > 0, (ub - xcp)[free], (lb - xcp)[free])
            with np.errstate(divide="ignore", invalid="ignore"):
                ratios = np.where(dN != 0, room / dN, np.inf)
            alpha = min(1.0, float(np.min(ratios)))
            ref[free] = xcp[free] + alpha * dN
        err = np.linalg.norm(xbar - ref)
        if err > rtol * step_scale:
            out.append(
                f"{label}: xbar is not the box-truncated Newton point of the model "
                f"{name} on the free variables {np.nonzero(free)[0].tolist()}: "
                f"|xbar-ref|={err:.3e} (step scale {step_scale:.3e})\n"
                f"      xbar={xbar}\n      ref ={ref}"
            )

        def m(z):
            return g.dot(z - x) + 0.5 * (z - x).dot(B @ (z - x))

        m_cp, m_bar = m(xcp), m(xbar)
        if m_bar > m_cp + 1e-9 * (abs(m_cp) + abs(m_bar)) + 1e-14 * np.linalg.norm(
            g
        ) * step_scale:
            out.append(
                f"{label}: model value increased ({name}): m(xcp)={m_cp:.6e} "
                f"m(xbar)={m_bar:.6e}"
            )
    pg = projected_gradient(x, g, lb, ub)
    if np.max(np.abs(pg)) > 0:
        slope = g.dot(xbar - x)
        if not slope < 0:
            out.append(
                f"{label}: projected gradient is non-zero (|pg|={np.max(np.abs(pg)):.3e})"
                f" but g.(xbar-x)={slope:.3e} is not a descent slope"
            )
    return out


def build_mats(n, pairs_x, pairs_g, maxcor):
    """Feed a sequence of (x, g) through the package's own update routine."""
    mats = LBFGSB_MATRICES(n)
    X, G = deque([pairs_x[0].copy()]), deque([pairs_g[0].copy()])
    for xk, gk in zip(pairs_x[1:], pairs_g[1:]):
        mats = update_lbfgs_matrices(xk.copy(), gk.copy(), X, G, maxcor, mats, False)
    return mats


def one_step(x, g, lb, ub, mats, label, rtol=1e-6):
    """cauchy -> freev -> subspace exactly as minimize_lbfgsb chains them."""
    xcp, c = get_cauchy_point(x, g, lb, ub, mats, 0, -1, None)
    free_vars, Z, A = get_freev(xcp, lb, ub, 0, None, -1, None)
    xbar = subspace_minimization(x, xcp, free_vars, Z, A, c, g, lb, ub, mats)
    return check_step(x, g, lb, ub, mats, xcp, xbar, label, rtol), xcp, xbar


class Recorder:
    """Wraps lbfgsb.main.subspace_minimization to check every step of a real run."""

    def __init__(self, rtol=1e-6):
        import lbfgsb.main as main

        self.main = main
        self.orig = main.subspace_minimization
        self.violations = []
        self.ncalls = 0
        self.rtol = rtol
        self.label = "run"

    def __enter__(self):
        def wrapped(x, xc, free_vars, Z, A, c, grad, lb, ub, mats, **kw):
            xbar = self.orig(x, xc, free_vars, Z, A, c, grad, lb, ub, mats, **kw)
            self.ncalls += 1
            self.violations += check_step(
                x, grad, lb, ub, mats, xc, xbar,
                f"{self.label} / subspace call #{self.ncalls}", self.rtol,
            )
            return xbar

        self.main.subspace_minimization = wrapped
        return self

    def __exit__(self, *a):
        self.main.subspace_minimization = self.orig
        return False

# ---------------------------------------------------------------------------

from lbfgsb import minimize_lbfgsb


def random_case(rng, n, npairs, maxcor, scale=1.0):
    """Random feasible x, box, gradient and memory (npairs accepted pairs)."""
    lb = -rng.uniform(0.5, 2.0, n) * scale
    ub = rng.uniform(0.5, 2.0, n) * scale
    kind = rng.integers(0, 4, n)
    lb = np.where(kind == 1, -np.inf, lb)
    ub = np.where(kind == 2, np.inf, ub)
    if rng.random() < 0.15:
        lb[:], ub[:] = -np.inf, np.inf
    lo = np.where(np.isfinite(lb), lb, -2 * scale)
    hi = np.where(np.isfinite(ub), ub, 2 * scale)
    # spd matrix generating consistent curvature pairs
    Q = rng.normal(size=(n, n))
    Q = Q @ Q.T + n * np.eye(n) * rng.uniform(0.2, 2.0)
    a = rng.uniform(lo, hi) * rng.uniform(0.2, 2.5)
    pts = [rng.uniform(lo, hi) for _ in range(npairs + 1)]
    x = pts[-1].copy()
    # put some coordinates exactly on their bounds
    where = rng.random(n)
    mode = rng.integers(0, 4)
    frac = (0.0, 0.3, 0.7, 1.0)[mode]
    for i in range(n):
        if where[i] < frac:
            if np.isfinite(lb[i]) and (rng.random() < 0.5 or not np.isfinite(ub[i])):
                x[i] = lb[i]
            elif np.isfinite(ub[i]):
                x[i] = ub[i]
    pts[-1] = x
    grads = [Q @ (p - a) for p in pts]
    mats = build_mats(n, pts, grads, maxcor)
    g = grads[-1].copy()
    gm = rng.integers(0, 4)
    if gm == 1:  # arbitrary gradient, unrelated to the memory
        g = rng.normal(size=n) * scale * rng.uniform(0.1, 10)
    elif gm == 2:  # gradient pushing bound variables outwards (they stay active)
        g = np.where(x == lb, np.abs(g), np.where(x == ub, -np.abs(g), g))
    elif gm == 3 and n > 1:  # one very small (but non-zero) component
        g[rng.integers(0, n)] *= 1e-6
    return x, g, lb, ub, mats


def stress_direct(seed, ncases):
    rng = np.random.default_rng(seed)
    viol, done = [], 0
    for k in range(ncases):
        n = int(rng.integers(1, 11))
        maxcor = int(rng.integers(1, 11))
        npairs = int(rng.integers(0, maxcor + 3))
        scale = float(10.0 ** rng.integers(-2, 3))
        x, g, lb, ub, mats = random_case(rng, n, npairs, maxcor, scale)
        if np.max(np.abs(projected_gradient(x, g, lb, ub))) == 0:
            continue  # the solver never takes a step from a stationary point
        v, _, _ = one_step(x, g, lb, ub, mats, f"direct case {k} (n={n}, m={npairs})")
        viol += v
        done += 1
    return viol, done


def rosen(x):
    return float(np.sum(100.0 * (x[1:] - x[:-1] ** 2) ** 2 + (1 - x[:-1]) ** 2))


def rosen_g(x):
    g = np.zeros_like(x)
    g[:-1] = -400 * x[:-1] * (x[1:] - x[:-1] ** 2) - 2 * (1 - x[:-1])
    g[1:] += 200 * (x[1:] - x[:-1] ** 2)
    return g


def make_quad(rng, n):
    Q = rng.normal(size=(n, n))
    Q = Q @ Q.T + 0.5 * np.eye(n)
    a = rng.normal(size=n) * 2
    return (lambda x: float(0.5 * (x - a) @ Q @ (x - a))), (lambda x: Q @ (x - a))


def logsumexp_obj(x):
    z = np.concatenate([x, -x]) * 1.5
    zm = z.max()
    return float(zm + np.log(np.exp(z - zm).sum()) + 0.05 * x.dot(x) + np.sin(x).sum())


def logsumexp_g(x):
    z = np.concatenate([x, -x]) * 1.5
    w = np.exp(z - z.max())
    w /= w.sum()
    return 1.5 * (w[: x.size] - w[x.size:]) + 0.1 * x + np.cos(x)


def stress_runs(seed):
    """Whole optimisation runs; every subspace call of every run is checked."""
    rng = np.random.default_rng(seed)
    viol, ncalls, nruns = [], 0, 0
    with Recorder() as rec:
        for rep in range(14):
            n = int(rng.integers(1, 11))
            kind = rep % 3
            if kind == 0 and n >= 2:
                f, gf = rosen, rosen_g
            elif kind == 1:
                f, gf = make_quad(rng, n)
            else:
                f, gf = logsumexp_obj, logsumexp_g
            lb = -rng.uniform(0.2, 2.0, n)
            ub = rng.uniform(0.2, 2.0, n)
            if rep % 4 == 1:
                ub[::2] = np.inf
            if rep % 4 == 2:
                lb[:] = -np.inf
            bounds = np.array([lb, ub]).T
            lo = np.where(np.isfinite(lb), lb, -2)
            hi = np.where(np.isfinite(ub), ub, 2)
            x0 = rng.uniform(lo, hi)
            if rep % 3 == 0:  # start on the boundary
                x0 = np.where(rng.random(n) < 0.5, lo, hi)
            maxcor = int(rng.integers(1, 8))
            rec.label = f"run {rep} (n={n}, maxcor={maxcor})"
            opts = dict(
                fun=f, jac=gf, bounds=bounds, maxcor=maxcor, ftol=1e-13, gtol=1e-9
            )
            # first leg, stopped early, then restart from the checkpoint (with a
            # different memory size every other time)
            res = minimize_lbfgsb(x0=x0, maxiter=int(rng.integers(2, 7)), **opts)
            nruns += 1
            rec.label += " restarted from checkpoint"
            if rep % 2 == 0:
                opts["maxcor"] = max(1, maxcor - 2)
            res2 = minimize_lbfgsb(x0=res.x, checkpoint=res, maxiter=40, **opts)
            nruns += 1
        # on-the-fly change of the objective (regularisation weight updated while
        # optimising): the gradient history is rewritten by update_fun_def
        for rep in range(4):
            n = int(rng.integers(2, 9))
            f, gf = make_quad(rng, n)
            state = {"w": 0.0, "it": 0}

            def ff(x, state=state, f=f):
                return f(x) + state["w"] * x.dot(x)

            def gg(x, state=state, gf=gf):
                return gf(x) + 2 * state["w"] * x

            def upd(x, f0, f0_old, grad, X, G, state=state):
                state["it"] += 1
                if state["it"] in (2, 4):
                    dw = 0.5
                    state["w"] += dw
                    G = deque([g + 2 * dw * xx for xx, g in zip(X, G)])
                    return (
                        f0 + dw * x.dot(x), f0_old + dw * X[-1].dot(X[-1]) if len(X)
                        else f0_old, grad + 2 * dw * x, G,
                    )
                return f0, f0_old, grad, G

            lb = -rng.uniform(0.2, 1.5, n)
            ub = rng.uniform(0.2, 1.5, n)
            rec.label = f"update_fun_def run {rep} (n={n})"
            minimize_lbfgsb(
                x0=rng.uniform(lb, ub), fun=ff, jac=gg, update_fun_def=upd,
                bounds=np.array([lb, ub]).T, maxcor=int(rng.integers(1, 6)),
                ftol=1e-14, gtol=1e-10, maxiter=25,
            )
            nruns += 1
        viol, ncalls = rec.violations, rec.ncalls
    return viol, ncalls, nruns


def count_offbound(seed, ncases):
    """Among truncated subspace steps, how often is the blocking variable not
    exactly on the bound it reaches?"""
    rng = np.random.default_rng(seed)
    ntrunc = noff = 0
    example = None
    for k in range(ncases):
        n = int(rng.integers(1, 11))
        maxcor = int(rng.integers(1, 11))
        npairs = int(rng.integers(0, maxcor + 3))
        scale = float(10.0 ** rng.integers(-2, 3))
        x, g, lb, ub, mats = random_case(rng, n, npairs, maxcor, scale)
        if np.max(np.abs(projected_gradient(x, g, lb, ub))) == 0:
            continue
        xcp, c = get_cauchy_point(x, g, lb, ub, mats, 0, -1, None)
        fv, Z, A = get_freev(xcp, lb, ub, 0, None, -1, None)
        xbar = subspace_minimization(x, xcp, fv, Z, A, c, g, lb, ub, mats)
        free = (xcp != lb) & (xcp != ub)
        if not free.any():
            continue
        B = dense_B_bfgs(mats, n)
        r = g + B @ (xcp - x)
        dN = -np.linalg.solve(B[np.ix_(free, free)], r[free])
        room = np.where(dN > 0, (ub - xcp)[free], (lb - xcp)[free])
        ratios = np.where(dN != 0, room / dN, np.inf)
        if ratios.min() < 1 - 1e-9:
            ntrunc += 1
            j = int(np.argmin(ratios))
            kk = np.nonzero(free)[0][j]
            bound = ub[kk] if dN[j] > 0 else lb[kk]
            if xbar[kk] != bound:
                noff += 1
                if example is None:
                    example = (k, int(kk), float(xbar[kk]), float(bound))
    return ntrunc, noff, example


def behaviour_difference():
    print("== (i) behaviour with respect to the unmodified code ==")
    # a) public API: bounded 2-d Rosenbrock run
    lb = np.array([-0.9159653273288137, -0.9123123279522833])
    ub = np.array([0.20129421369967285, 1.664103571618628])
    x0 = np.array([-0.03835103110027149, -0.08250703667701231])
    res = minimize_lbfgsb(
        x0=x0, fun=rosen, jac=rosen_g, bounds=np.array([lb, ub]).T,
        ftol=1e-15, gtol=1e-11, maxiter=40, maxcor=1,
    )
    gap = float(res.x[0] - ub[0])
    print(f"  bounded Rosenbrock run: nit={res.nit} nfev={res.nfev} x={res.x!r}")
    print(f"    x[0] - ub[0] = {gap!r}   (x[0] exactly on its bound: {gap == 0.0})")
    print("    recorded on the unmodified tree : -2.7755575615628914e-17 (1 ulp inside)")
    print("    recorded with patch c           : 0.0 (exactly on the bound)")
    # b) function level
    ntrunc, noff, ex = count_offbound(11, 300)
    print(f"  {ntrunc} truncated subspace steps, blocking variable NOT exactly on its"
          f" bound in {noff} of them")
    print("    recorded on the unmodified tree : 40 truncated, 2 off the bound, e.g. case"
          " 67: xbar[0]=-0.007059788162962715 < lb[0]=-0.0070597881629627145")
    print("    recorded with patch c           : 40 truncated, 0 off the bound")
    if ex is not None:
        print(f"    this tree, first example: case {ex[0]} xbar[{ex[1]}]={ex[2]!r}"
              f" bound={ex[3]!r}")
    differs = (gap == 0.0) and (noff == 0)
    print("  => this tree behaves like", "patch c" if differs else "the unmodified code")


def main():
    behaviour_difference()
    print("== (ii) C09 on many inputs ==")
    viol, done = stress_direct(123, 700)
    print(f"  direct chains checked: {done}, violations: {len(viol)}")
    v2, ncalls, nruns = stress_runs(7)
    print(f"  minimize_lbfgsb runs: {nruns}, subspace calls checked: {ncalls},"
          f" violations: {len(v2)}")
    viol += v2
    if viol:
        print(f"C09 VIOLATED ({len(viol)} findings), first ones:")
        for s in viol[:5]:
            print("  " + s)
        return 1
    print("C09 held everywhere")
    return 0


if __name__ == "__main__":
    import warnings

    warnings.simplefilter("ignore")
    sys.exit(main())
