import copy
import sys

import numpy as np

from lbfgsb import minimize_lbfgsb

FIELDS = ("x", "fun", "jac", "nfev", "njev", "nit")


class Crash(Exception):
    pass


def same_state(a, b):
    """Exact comparison of the fields named by the property. Returns list of diffs."""
    bad = []
    for k in FIELDS:
        if not np.array_equal(np.asarray(a[k]), np.asarray(b[k])):
            bad.append(k)
    if not np.array_equal(a.hess_inv.sk, b.hess_inv.sk):
        bad.append("sk")
    if not np.array_equal(a.hess_inv.yk, b.hess_inv.yk):
        bad.append("yk")
    return bad


def same_end(a, b, tol=1e-7):
    """Same continuation: same counters/message, same point up to restore roundoff."""
    bad = []
    for k in ("nit", "nfev", "njev", "message"):
        if a[k] != b[k]:
            bad.append(f"{k}: {a[k]!r} != {b[k]!r}")
    scale = 1.0 + np.max(np.abs(b.x))
    if np.max(np.abs(a.x - b.x)) > tol * scale:
        bad.append(f"x differs by {np.max(np.abs(a.x - b.x)):.3e}")
    if abs(a.fun - b.fun) > tol * (1.0 + abs(b.fun)):
        bad.append(f"fun differs: {a.fun!r} vs {b.fun!r}")
    if a.hess_inv.sk.shape != b.hess_inv.sk.shape:
        bad.append(f"pairs {a.hess_inv.sk.shape} vs {b.hess_inv.sk.shape}")
    return bad


def check_property(name, make_problem, x0, maxiter, crash_offsets=(0, 1, 2), **opts):
    """
    make_problem() -> (fun, jac, counter) fresh objective (own buffers/counters);
    counter is a dict with key 'n' (number of objective calls) and 'limit'
    (raise Crash when n exceeds limit; None = never).
    Returns list of failure strings.
    """
    fails = []

    def run(callback=None, limit=None, **kw):
        fun, jac, ctr = make_problem()
        ctr["limit"] = limit
        o = dict(opts)
        o.update(kw)
        return minimize_lbfgsb(x0=o.pop("x0", x0), fun=fun, jac=jac, callback=callback, **o)

    # reference: uninterrupted run without callback
    ref = run(maxiter=maxiter)

    # uninterrupted run with a callback that returns False
    live, snaps, evals_at_cb = [], [], []
    fun, jac, ctr = make_problem()
    ctr["limit"] = None

    def cb(xk, state):
        live.append(state)
        snaps.append(copy.deepcopy(state))
        evals_at_cb.append(ctr["n"])
        return False

    o = dict(opts)
    full = minimize_lbfgsb(x0=x0, fun=fun, jac=jac, callback=cb, maxiter=maxiter, **o)
    d = same_state(full, ref)
    if d or full.message != ref.message:
        fails.append(f"[{name}] a callback returning False altered the run: {d}")

    for snap, lv, nev in zip(snaps, live, evals_at_cb):
        k = snap.nit
        # (1) the state must not change after the callback returned
        d = same_state(lv, snap)
        if d:
            fails.append(f"[{name}] k={k}: state changed after callback returned: {d}")
        # (2) snapshot == what maxiter=k returns
        rk = run(maxiter=k)
        d = same_state(snap, rk)
        if d:
            fails.append(f"[{name}] k={k}: state != result of maxiter={k}: {d}")
        # (3) crash at a later moment, restart from the latest state kept by the user
        for off in crash_offsets:
            latest = []

            def cb2(xk, state):
                latest[:] = [state]
                return False

            try:
                run(callback=cb2, limit=nev + off, maxiter=maxiter)
                continue  # run finished before the crash point
            except Crash:
                pass
            if not latest:
                continue
            ck = latest[0]
            if ck.nit != k:
                continue  # crash fell into another iteration: covered by that k
            try:
                cont = run(maxiter=maxiter, checkpoint=ck, x0=ck.x)
            except Exception as e:  # noqa
                fails.append(f"[{name}] k={k} off={off}: restart raised {e!r}")
                continue
            d = same_end(cont, ref)
            if d:
                fails.append(
                    f"[{name}] k={k} crash after {nev + off} evals: restart != uninterrupted: {d}"
                )
    return fails, ref, len(snaps)


def report(fails):
    if fails:
        print("PROPERTY C07 VIOLATED:")
        for f in fails[:25]:
            print("  ", f)
        if len(fails) > 25:
            print(f"   ... and {len(fails) - 25} more")
        sys.exit(1)
    print("C07 held on all explored runs")
    sys.exit(0)


# ----------------------------------------------------------------- problems
def _rosen(x):
    return float(np.sum(100.0 * (x[1:] - x[:-1] ** 2) ** 2 + (1.0 - x[:-1]) ** 2))


def _rosen_g(x, out):
    out[:] = 0.0
    out[:-1] += -400.0 * x[:-1] * (x[1:] - x[:-1] ** 2) - 2.0 * (1.0 - x[:-1])
    out[1:] += 200.0 * (x[1:] - x[:-1] ** 2)
    return out


def _quad_factory(n, cond, shift):
    d = np.logspace(0, np.log10(cond), n)
    c = np.linspace(-1.0, 1.0, n) * shift

    def f(x):
        return float(0.5 * np.sum(d * (x - c) ** 2) + 0.25 * np.sum((x - c) ** 4))

    def g(x, out):
        out[:] = d * (x - c) + (x - c) ** 3
        return out

    return f, g


def make_factory(f, g, n, reuse_buffer):
    """Objective factory. reuse_buffer=True: jac writes into one preallocated work
    array and returns it (the usual way to avoid allocations in expensive codes)."""

    def make_problem():
        ctr = {"n": 0, "limit": None}
        buf = np.zeros(n)

        def fun(x):
            ctr["n"] += 1
            if ctr["limit"] is not None and ctr["n"] > ctr["limit"]:
                raise Crash()
            return f(x)

        def jac(x):
            if reuse_buffer:
                return g(x, buf)
            return g(x, np.zeros(n))

        return fun, jac, ctr

    return make_problem


def _lse_factory(n, seed):
    rng = np.random.RandomState(seed)
    A = rng.randn(3 * n, n)
    b = rng.randn(3 * n)

    def f(x):
        z = A @ x - b
        m = np.max(z)
        return float(m + np.log(np.sum(np.exp(z - m))) + 0.05 * x @ x)

    def g(x, out):
        z = A @ x - b
        p = np.exp(z - np.max(z))
        p /= p.sum()
        out[:] = A.T @ p + 0.1 * x
        return out

    return f, g


def make_fd_factory(f):
    """Objective only: the gradient is obtained by finite differences (jac=None)."""

    def make_problem():
        ctr = {"n": 0, "limit": None}

        def fun(x):
            ctr["n"] += 1
            if ctr["limit"] is not None and ctr["n"] > ctr["limit"]:
                raise Crash()
            return f(x)

        return fun, None, ctr

    return make_problem


# behaviour of the unmodified package on the probe input (recorded from the clean tree)
CLEAN_PROBE = dict(nit=10, nfev=12, has_n_flat=False, accepts_ftol_patience=False)


def show_difference():
    import inspect

    n = 6
    box = np.array([[-2.0, 2.0]] * n)
    buf = np.zeros(n)
    common = dict(
        x0=np.full(n, -1.2), fun=_rosen, jac=lambda x: _rosen_g(x, buf).copy(),
        bounds=box, maxcor=4, ftol=1e-2, gtol=1e-10, maxiter=60,
    )
    res = minimize_lbfgsb(**common)
    now = dict(nit=res.nit, nfev=res.nfev, has_n_flat="n_flat" in res)
    now["accepts_ftol_patience"] = (
        "ftol_patience" in inspect.signature(minimize_lbfgsb).parameters
    )
    print("probe (rosenbrock n=6, ftol=1e-2):")
    print("   unmodified package :", CLEAN_PROBE)
    print("   this package       :", now)
    diffs = [k for k in CLEAN_PROBE if CLEAN_PROBE[k] != now[k]]
    if now["accepts_ftol_patience"]:
        r2 = minimize_lbfgsb(ftol_patience=2, **common)
        print(
            f"   ftol_patience=2 is accepted (unmodified: TypeError) and runs on: "
            f"nit={r2.nit} nfev={r2.nfev} n_flat={r2.get('n_flat')} "
            f"vs nit={res.nit} nfev={res.nfev} by default"
        )
    if diffs:
        print("   => observable behaviour differs from the unmodified package in:", diffs)
    else:
        print("   => same observable behaviour as the unmodified package")
    return now["accepts_ftol_patience"]


def main():
    has_patience = show_difference()
    from lbfgsb.utils import get_gradient_projection_unit_scaling

    pat = [dict()]
    if has_patience:
        pat += [dict(ftol_patience=2), dict(ftol_patience=3)]
    fails = []
    nruns = 0
    ncrash = 0

    def go(name, factory, x0, maxiter, **o):
        nonlocal nruns, ncrash
        f, ref, ncb = check_property(name, factory, x0, maxiter, crash_offsets=(0, 1), **o)
        nruns += 1
        ncrash += ncb
        print(f"  {name}: nit={ref.nit} [{ref.message}] crash points={ncb} failures={len(f)}")
        fails.extend(f)

    n = 6
    rosen6 = make_factory(_rosen, _rosen_g, n, False)
    rosen6_buf = make_factory(_rosen, _rosen_g, n, True)
    qf, qg = _quad_factory(8, 50.0, 1.5)
    quart = make_factory(qf, qg, 8, False)
    lf, lg = _lse_factory(5, 3)
    lse = make_factory(lf, lg, 5, False)

    for cfg in pat:
        t = str(cfg)
        go(f"rosen6 box[-2,2] ftol=1e-2 {t}", rosen6, np.full(n, -1.2), 40,
           bounds=np.array([[-2.0, 2.0]] * n), maxcor=4, ftol=1e-2, gtol=1e-10, **cfg)
        go(f"rosen6(buffer) box[-2,2] ftol=2e-2 maxcor=2 {t}", rosen6_buf, np.full(n, 0.5), 40,
           bounds=np.array([[-2.0, 2.0]] * n), maxcor=2, ftol=2e-2, gtol=1e-10, **cfg)
        go(f"quartic half-bounded ftol=1e-2 {t}", quart, np.full(8, 0.3), 40,
           bounds=np.array([[-0.5, np.inf]] * 8), maxcor=3, ftol=1e-2, gtol=1e-10, **cfg)
        go(f"quartic active box ftol=1e-4 {t}", quart, np.linspace(-0.4, 0.4, 8), 40,
           bounds=np.array([[-0.6, 0.9]] * 8), maxcor=10, ftol=1e-4, gtol=1e-10, **cfg)
        go(f"logsumexp unbounded ftol=1e-3 {t}", lse, np.full(5, 1.0), 40,
           bounds=None, maxcor=5, ftol=1e-3, gtol=1e-10, **cfg)
        go(f"logsumexp box ftol=1e-5 scaled {t}", lse, np.full(5, -0.5), 40,
           bounds=np.array([[-1.0, 0.4]] * 5), maxcor=3, ftol=1e-5, gtol=1e-12,
           gradient_scaler=get_gradient_projection_unit_scaling, **cfg)
        go(f"quartic finite-diff jac ftol=1e-3 {t}", make_fd_factory(qf), np.full(8, 0.3), 40,
           bounds=np.array([[-0.5, 2.0]] * 8), maxcor=4, ftol=1e-3, gtol=1e-8, **cfg)
    # stop criteria other than ftol in charge
    go("rosen6 maxiter-limited ftol=1e-14", rosen6, np.full(n, -1.2), 12,
       bounds=np.array([[-2.0, 2.0]] * n), maxcor=4, ftol=1e-14, gtol=1e-10,
       **pat[-1])
    go("quartic gtol-limited", quart, np.full(8, 0.3), 40,
       bounds=np.array([[-0.5, np.inf]] * 8), maxcor=6, ftol=1e-15, gtol=1e-4, **pat[-1])
    print(f"{nruns} runs, {ncrash} crash points explored")
    report(fails)


if __name__ == "__main__":
    main()
