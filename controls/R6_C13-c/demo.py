"""
Stress script for C13 (control patch c).

Part 1 shows that the behaviour of this tree differs (or not) from the unmodified
code: with an update function, when the objective target AND the minimum relative
change are reached at the same iteration, the unmodified code reports
"CONVERGENCE: REL_REDUCTION_OF_F_<=_FTOL" while patch c reports
"CONVERGENCE: F_<=_TARGET" (as a run without update function always did).

Part 2 checks property C13 on many varied inputs:
  P1 identity update function  -> run bit-for-bit identical (all numerical content:
     x, fun, jac, pairs, nit, nfev, njev, status, success),
  P2 after a gradient rewrite the pairs carried by states/result are exactly
     differences of the rewritten gradients,
  P3 every retained pair satisfies the curvature condition,
  P4 the newest point is retained,
  P5 the next iterate equals (up to rounding) the one obtained by restarting on the
     new objective from a checkpoint holding the rewritten history (both the filtered
     history = state after the switch, and the raw rewritten history + an identity
     update function so that the restart filters it itself).

exit 0 when the property held everywhere (expected both with patch c and on the
unmodified tree), exit 1 otherwise.
"""

import copy
import sys
import warnings
from collections import deque

import numpy as np
from lbfgsb import minimize_lbfgsb
from scipy.optimize import LbfgsInvHessProduct, OptimizeResult

EPS_SY = 2.2e-16
failures = []
notes = []
nchecks = {"P1": 0, "P2": 0, "P3": 0, "P4": 0, "P5a": 0, "P5b": 0, "skipped": 0}


# --------------------------------------------------------------------------- part 1
def identity(x, f0, f0_old, grad, X, G):
    return f0, f0_old, grad, G


def part1():
    def quad(x):
        return float(x.dot(x))

    def gquad(x):
        return 2.0 * x

    x0 = np.array([5.0, -3.0, 2.0])
    kw = dict(x0=x0, fun=quad, jac=gquad, ftol=0.999, ftarget=quad(x0) - 1e-3)
    with_upd = minimize_lbfgsb(update_fun_def=identity, **kw)
    without = minimize_lbfgsb(**kw)
    unmodified_msg = "CONVERGENCE: REL_REDUCTION_OF_F_<=_FTOL"
    print("PART 1: target and ftol reached at the same iteration, identity update")
    print(f"  unmodified code, with update_fun_def : {unmodified_msg!r}")
    print(f"  this tree,       with update_fun_def : {with_upd.message!r}")
    print(f"  this tree,       without             : {without.message!r}")
    if with_upd.message != unmodified_msg:
        print("  -> behaviour DIFFERS from the unmodified code (reported message)")
    else:
        print("  -> same behaviour as the unmodified code (this is the clean tree)")
    # numerical content must be identical in any case
    if not (
        np.array_equal(with_upd.x, without.x)
        and with_upd.fun == without.fun
        and with_upd.nit == without.nit
        and with_upd.nfev == without.nfev
        and with_upd.status == without.status
    ):
        failures.append("part 1: identity update changed the numerical content")


# --------------------------------------------------------------------------- part 2
class Problem:
    """f(x) = scale * (data(x) + w * reg(x))."""

    def __init__(self, kind, n, seed):
        rng = np.random.default_rng(seed)
        self.kind, self.n = kind, n
        self.w, self.scale = 0.0, 1.0
        self.xr = rng.normal(size=n)
        Q = np.linalg.qr(rng.normal(size=(n, n)))[0]
        self.A = Q @ np.diag(np.logspace(0, 1.5, n)) @ Q.T
        self.A = 0.5 * (self.A + self.A.T)
        self.b = rng.normal(size=n)
        self.x0 = rng.uniform(-2, 2, size=n)

    def data(self, x):
        if self.kind == "quad":
            return 0.5 * x.dot(self.A @ x) - self.b.dot(x)
        if self.kind == "logcosh":
            r = self.A @ x - self.b
            return float(np.sum(np.logaddexp(r, -r) - np.log(2.0)))
        return float(np.sum(100.0 * (x[1:] - x[:-1] ** 2) ** 2 + (1.0 - x[:-1]) ** 2))

    def data_grad(self, x):
        if self.kind == "quad":
            return self.A @ x - self.b
        if self.kind == "logcosh":
            return self.A.T @ np.tanh(self.A @ x - self.b)
        g = np.zeros_like(x)
        g[:-1] = -400.0 * x[:-1] * (x[1:] - x[:-1] ** 2) - 2.0 * (1.0 - x[:-1])
        g[1:] += 200.0 * (x[1:] - x[:-1] ** 2)
        return g

    def f(self, x):
        return self.scale * (self.data(x) + self.w * 0.5 * np.sum((x - self.xr) ** 2))

    def g(self, x):
        return self.scale * (self.data_grad(x) + self.w * (x - self.xr))


def same_numbers(a, b):
    return (
        np.array_equal(a.x, b.x)
        and a.fun == b.fun
        and np.array_equal(a.jac, b.jac)
        and np.array_equal(a.hess_inv.sk, b.hess_inv.sk)
        and np.array_equal(a.hess_inv.yk, b.hess_inv.yk)
        and (a.nit, a.nfev, a.njev, a.status, a.success)
        == (b.nit, b.nfev, b.njev, b.status, b.success)
    )


def rebuild(state):
    sk, yk = np.atleast_2d(state.hess_inv.sk), np.atleast_2d(state.hess_inv.yk)
    if sk.size == 0:
        return state.x[None, :], state.jac[None, :], sk, yk
    Xs = np.vstack([state.x - np.cumsum(sk[::-1], axis=0)[::-1], state.x])
    Gs = np.vstack([state.jac - np.cumsum(yk[::-1], axis=0)[::-1], state.jac])
    return Xs, Gs, sk, yk


def run_case(idx, kind, n, seed, switch_at, mode, maxcor, bounded, extra):
    tag = (
        f"[#{idx} {kind} n={n} seed={seed} switch_at={switch_at} mode={mode} "
        f"maxcor={maxcor} bounded={bounded} extra={extra}]"
    )
    rng = np.random.default_rng(1000 + seed)
    pb = Problem(kind, n, seed)
    w0 = float(rng.choice([0.0, 0.1, 1.0, 3.0]))
    pb.w, pb.scale = w0, 1.0
    bounds = None
    if bounded:
        lo, hi = -1.5, 1.2
        bounds = np.array([np.full(n, lo), np.full(n, hi)]).T
        if bounded == "half":
            bounds[: n // 2, 1] = np.inf
            bounds[n // 2 :, 0] = -np.inf
        pb.x0 = np.clip(pb.x0, bounds[:, 0], bounds[:, 1])
    opts = dict(bounds=bounds, maxcor=maxcor, ftol=1e-15, gtol=1e-12, eps_SY=EPS_SY)
    opts.update(extra)

    # ---------------- P1
    kw = dict(x0=pb.x0, fun=pb.f, jac=pb.g, maxiter=switch_at + 4, **opts)
    seen_plain, seen_ident = [], []
    r_plain = minimize_lbfgsb(
        callback=lambda x, s: seen_plain.append(copy.deepcopy(s)) and False, **kw
    )
    r_ident = minimize_lbfgsb(
        update_fun_def=identity,
        callback=lambda x, s: seen_ident.append(copy.deepcopy(s)) and False,
        **kw,
    )
    nchecks["P1"] += 1
    if not same_numbers(r_plain, r_ident) or len(seen_plain) != len(seen_ident):
        failures.append(f"{tag}: P1 identity update function changed the run")
    elif not all(same_numbers(a, b) for a, b in zip(seen_plain, seen_ident)):
        failures.append(f"{tag}: P1 identity update function changed a state")
    if r_plain.message != r_ident.message:
        notes.append(
            f"{tag}: message differs with an identity update function: "
            f"{r_plain.message!r} vs {r_ident.message!r}"
        )

    # ---------------- run with a switch
    ncall = {"n": 0}
    rw = {}
    if mode == "reweight":
        w1, s1 = float(rng.choice([0.01, 5.0, 40.0])) + w0, 1.0
    elif mode == "rescale":
        w1, s1 = w0, float(rng.choice([1e-2, 0.3, 7.0, 1e3]))
    else:
        w1, s1 = w0, 1.0

    def update(x, f0, f0_old, grad, X, G):
        if len(X) == 0:
            return f0, f0_old, grad, G
        ncall["n"] += 1  # == iteration number == state.nit
        if ncall["n"] != switch_at:
            return f0, f0_old, grad, G
        if mode in ("reweight", "rescale"):
            pb.w, pb.scale = w1, s1
            newG = deque(pb.g(xx) for xx in X)
            out = pb.f(x), pb.f(X[-1]), pb.g(x), newG
        elif mode == "shift2":
            # shift the two oldest gradients: breaks a pair and the merged pair
            newG = deque(g.copy() for g in G)
            if len(X) >= 3:
                v = X[2] - X[0]
                c = 50.0 * (1.0 + np.max(np.abs(G[0]))) / max(v.dot(v), 1e-30)
                newG[0] = G[0] + c * v
                newG[1] = G[1] + c * v
            out = f0, f0_old, grad, newG
        else:  # "random": arbitrary rewrite of a random subset of old gradients
            newG = deque(g.copy() for g in G)
            for j in range(len(X)):
                if rng.uniform() < 0.5:
                    newG[j] = G[j] + rng.normal(size=n) * (
                        0.5 * np.max(np.abs(G[j])) + 1e-3
                    )
            out = f0, f0_old, grad, newG
        rw["X"] = [xx.copy() for xx in X]
        rw["G"] = [g.copy() for g in newG]
        rw["x"], rw["f"], rw["g"] = x.copy(), out[0], out[2].copy()
        return out

    states = []

    def callback(xk, state):
        states.append(copy.deepcopy(state))
        return False

    pb.w, pb.scale = w0, 1.0
    try:
        with warnings.catch_warnings():
            warnings.simplefilter("ignore")
            res = minimize_lbfgsb(
                x0=pb.x0,
                fun=pb.f,
                jac=pb.g,
                update_fun_def=update,
                callback=callback,
                maxiter=switch_at + 1,
                **opts,
            )
    except Exception as e:  # noqa: BLE001
        failures.append(f"{tag}: run with the switch crashed: {type(e).__name__}: {e}")
        return
    by_nit = {s.nit: s for s in states}
    if "G" not in rw or switch_at not in by_nit or switch_at + 1 not in by_nit:
        nchecks["skipped"] += 1  # converged / stopped before the switch
        return
    ckpt, nxt = by_nit[switch_at], by_nit[switch_at + 1]

    # ---------------- P2, P3, P4 on every state from the switch on + the result
    allX = rw["X"] + [rw["x"]]
    allG = rw["G"] + [rw["g"]]
    for s in [by_nit[switch_at], by_nit[switch_at + 1], res]:
        Xs, Gs, sk, yk = rebuild(s)
        nchecks["P3"] += 1
        for i, (a, b) in enumerate(zip(sk, yk)):
            if sk.size and not a.dot(b) > EPS_SY * b.dot(b):
                failures.append(f"{tag}: P3 nit={s.nit}: pair #{i} violates curvature")
        nchecks["P2"] += 1
        last_j = -1
        for xs, gs in zip(Xs, Gs):
            d = [np.max(np.abs(xs - xr)) for xr in allX]
            j = int(np.argmin(d))
            if d[j] > 1e-9 * (1 + np.max(np.abs(xs))):
                continue  # a point created after the switch
            if j <= last_j:
                failures.append(f"{tag}: P2 nit={s.nit}: history out of order")
            last_j = j
            if np.max(np.abs(gs - allG[j])) > 1e-8 * (1 + np.max(np.abs(allG[j]))):
                failures.append(
                    f"{tag}: P2 nit={s.nit}: gradient stored for old point #{j} is "
                    "not the rewritten one"
                )
    # newest stored point at the switch (X[-1]) must survive the filter
    nchecks["P4"] += 1
    Xs, Gs, sk, yk = rebuild(ckpt)
    newest_old = rw["X"][-1]
    if not any(np.max(np.abs(xs - newest_old)) < 1e-9 for xs in Xs):
        # only acceptable if the current pair (X[-1], x) itself was rejected, in which
        # case the state does not reach x: detect it and skip
        nchecks["skipped"] += 1
        return
    if sk.size == 0 or np.max(np.abs((ckpt.x - sk[-1]) - newest_old)) > 1e-9:
        nchecks["skipped"] += 1  # newest pair rejected: checkpoint not representable
        return

    # ---------------- P5a: restart from the state after the switch
    pb.w, pb.scale = w1, s1
    common = dict(x0=ckpt.x, fun=pb.f, jac=pb.g, maxiter=ckpt.nit + 1, **opts)
    with warnings.catch_warnings():
        warnings.simplefilter("ignore")
        r5a = minimize_lbfgsb(checkpoint=copy.deepcopy(ckpt), **common)
        # ------------ P5b: restart from the RAW rewritten history, the restart filters
        raw = OptimizeResult(
            fun=rw["f"],
            jac=rw["g"],
            nfev=ckpt.nfev,
            njev=ckpt.njev,
            nit=ckpt.nit,
            status=ckpt.status,
            message=ckpt.message,
            x=rw["x"],
            success=False,
            scaling_factor=1.0,
            hess_inv=LbfgsInvHessProduct(
                np.diff(np.array(allX), axis=0), np.diff(np.array(allG), axis=0)
            ),
        )
        r5b = minimize_lbfgsb(checkpoint=raw, update_fun_def=identity, **common)
    step = np.max(np.abs(nxt.x - ckpt.x))
    for name, r in (("P5a", r5a), ("P5b", r5b)):
        nchecks[name] += 1
        diff = np.max(np.abs(nxt.x - r.x))
        if r.nit != ckpt.nit + 1:
            failures.append(f"{tag}: {name}: restart did not perform one iteration")
        elif not diff <= 1e-6 * step + 1e-12:
            failures.append(
                f"{tag}: {name}: next iterate differs from the restart: "
                f"max|dx|={diff:.3e}, step={step:.3e}"
            )


def part2():
    kinds = ["quad", "rosen", "logcosh"]
    modes = ["reweight", "rescale", "shift2", "random"]
    extras = [
        {},
        {"maxls": 30, "gtol_linesearch": 0.5},
        {"ftarget": -1e30},
        {"ftol_linesearch": 1e-4, "max_steplength": 10.0},
    ]
    idx = 0
    for kind in kinds:
        for mode in modes:
            for rep in range(6):
                idx += 1
                n = [4, 6, 9, 12, 20, 7][rep]
                maxcor = [3, 5, 10, 4, 7, 2][rep]
                switch_at = [4, 5, 3, 6, 8, 4][rep]
                bounded = [False, True, "half", False, True, "half"][rep]
                run_case(
                    idx,
                    kind,
                    n,
                    17 * idx + rep,
                    switch_at,
                    mode,
                    maxcor,
                    bounded,
                    extras[(idx + rep) % len(extras)],
                )


part1()
part2()
print("PART 2: number of checks performed:", nchecks)
for note in notes[:5]:
    print("  note:", note)
if failures:
    print("C13 VIOLATED:")
    for f in failures[:20]:
        print("  -", f)
    if len(failures) > 20:
        print(f"  ... and {len(failures) - 20} more")
    sys.exit(1)
print("C13 held on every input")
sys.exit(0)
