"""C19 stress script for the control change (c).

(i) prints where the behaviour of ackley_grad / griewank_grad differs from the
    formulas of the unmodified code (reference formulas are inlined below);
(ii) checks C19 (gradient == high-order numerical derivative of the function,
    gradient has the shape of x, function returns a finite real scalar) for all
    eight pairs on many varied points: random points of [-5, 5]^n for n = 1..12
    (2.. for the chained functions) visited in increasing and decreasing order of
    n, box vertices / faces, integer points, points on the zeros of the Griewank
    cosine factors, points close to (but outside a neighbourhood of) the Ackley
    origin, and iterates of minimize_lbfgsb runs in different boxes.

Exit 0 if the property held everywhere, 1 otherwise.
"""

import sys

import numpy as np

import lbfgsb

PAIRS = {
    "ackley": (lbfgsb.ackley, lbfgsb.ackley_grad, 1),
    "beale": (lbfgsb.beale, lbfgsb.beale_grad, 2),
    "griewank": (lbfgsb.griewank, lbfgsb.griewank_grad, 1),
    "quartic": (lbfgsb.quartic, lbfgsb.quartic_grad, 1),
    "rastrigin": (lbfgsb.rastrigin, lbfgsb.rastrigin_grad, 1),
    "rosenbrock": (lbfgsb.rosenbrock, lbfgsb.rosenbrock_grad, 2),
    "sphere": (lbfgsb.sphere, lbfgsb.sphere_grad, 1),
    "styblinski_tang": (lbfgsb.styblinski_tang, lbfgsb.styblinski_tang_grad, 1),
}

# 8th order central difference stencil
COEFS = np.array([1 / 280, -4 / 105, 1 / 5, -4 / 5, 0.0, 4 / 5, -1 / 5, 4 / 105, -1 / 280])
OFFS = np.arange(-4, 5)
H = 5e-3


def num_grad(f, x):
    g = np.zeros(x.size)
    for i in range(x.size):
        acc = 0.0
        for c, k in zip(COEFS, OFFS):
            if c == 0.0:
                continue
            xp = x.copy()
            xp[i] += k * H
            acc += c * float(f(xp))
        g[i] = acc / H
    return g


failures = []


def check(name, x):
    f, g, _ = PAIRS[name]
    x = np.array(x, dtype=float)
    val = f(x.copy())
    if not (np.ndim(val) == 0 and np.isrealobj(val) and np.isfinite(val)):
        failures.append(f"{name}: value at {x} is not a finite real scalar: {val!r}")
        return
    ga = np.asarray(g(x.copy()))
    if ga.shape != x.shape:
        failures.append(f"{name}: gradient shape {ga.shape} != x shape {x.shape}")
        return
    gn = num_grad(f, x)
    err = np.abs(ga - gn)
    tol = 1e-6 + 1e-6 * np.abs(gn)
    if not np.all(err <= tol):
        i = int(np.argmax(err - tol))
        failures.append(
            f"{name} n={x.size}: gradient[{i}]={ga[i]:.12g} but numerical derivative"
            f"={gn[i]:.12g} (max abs err {err.max():.3g}) at x={np.array2string(x, precision=17)}"
        )


rng = np.random.default_rng(20190)

# ---------------------------------------------------------------- (i) differences
def ref_ackley_grad(x):
    ndim = x.size
    ss = np.square(x).sum()
    return (4.0 * x * np.sqrt(ss / ndim) * np.exp(-0.2 * np.sqrt(ss / ndim)) / ss) + (
        2.0 * np.pi / ndim * np.sin(2.0 * np.pi * x)
        * np.exp(np.cos(2.0 * np.pi * x).sum() / ndim)
    )


def ref_griewank_grad(x):
    den = np.sqrt(np.arange(1, x.size + 1))
    return (
        x / 2000.0 + np.sin(x / den) * np.prod(np.cos(x / den)) / np.cos(x / den) / den
    )


ndiff = 0
with np.errstate(all="ignore"):
    z = np.zeros(3)
    new, old = lbfgsb.ackley_grad(z), ref_ackley_grad(z)
    if not np.array_equal(new, old, equal_nan=True):
        ndiff += 1
        print(f"DIFFERENCE: ackley_grad(0,0,0) = {new} ; unmodified formula gives {old}")
    for name, ref in (("ackley", ref_ackley_grad), ("griewank", ref_griewank_grad)):
        nbits, worst = 0, 0.0
        for n in range(1, 13):
            for _ in range(20):
                x = rng.uniform(-5.0, 5.0, n)
                new, old = PAIRS[name][1](x), ref(x)
                if not np.array_equal(new, old):
                    nbits += 1
                    worst = max(worst, float(np.max(np.abs(new - old))))
        if nbits:
            ndiff += 1
            print(
                f"DIFFERENCE: {name}_grad differs in the last bits from the unmodified "
                f"formula on {nbits}/240 random points (max abs diff {worst:.3g})"
            )
print(
    f"(i) {ndiff} kinds of behavioural difference w.r.t. the unmodified formulas"
    + (" (this is the unmodified code)" if ndiff == 0 else "")
)


# ---------------------------------------------------------------- (ii) property
def ok_for(name, x):
    return not (name == "ackley" and np.linalg.norm(x) < 0.25)


count = 0
for order in (range(1, 13), range(12, 0, -1)):
    for name, (_, _, nmin) in PAIRS.items():
        for n in order:
            if n < nmin:
                continue
            pts = [rng.uniform(-5.0, 5.0, n) for _ in range(4)]
            pts.append(np.full(n, 5.0))
            pts.append(np.full(n, -5.0))
            pts.append(np.where(np.arange(n) % 2 == 0, 5.0, -5.0))
            pts.append(rng.integers(-5, 6, n).astype(float))
            pts.append(rng.uniform(-1.0, 1.0, n))
            # close to the origin, but not in its neighbourhood
            d = rng.normal(size=n)
            pts.append(0.3 * d / np.linalg.norm(d))
            f5 = rng.uniform(-5.0, 5.0, n)
            f5[rng.integers(0, n)] = 5.0
            pts.append(f5)
            for x in pts:
                if ok_for(name, x):
                    check(name, x)
                    count += 1

# Griewank: coordinates on the zeros of the cosine factors (one, two or all)
for n in range(1, 13):
    zeros = []
    for i in range(n):
        zi = [np.sqrt(i + 1.0) * (np.pi / 2 + k * np.pi) for k in (-2, -1, 0, 1)]
        zeros.append([v for v in zi if abs(v) <= 5.0])
    for i in range(n):
        for v in zeros[i]:
            x = rng.uniform(-5.0, 5.0, n)
            x[i] = v
            check("griewank", x)
            count += 1
            j = (i + 1) % n
            if n > 1 and zeros[j]:
                x2 = x.copy()
                x2[j] = zeros[j][0]
                check("griewank", x2)
                count += 1
    check("griewank", np.array([z[0] if z else 1.0 for z in zeros]))
    check("griewank", np.array([z[-1] if z else -1.0 for z in zeros]))
    count += 2

# iterates of optimisation runs (different boxes, starts, options)
for name, (f, g, nmin) in PAIRS.items():
    for n, box, maxcor in ((max(nmin, 2), 5.0, 10), (7, 3.0, 3), (12, 5.0, 5)):
        its = []

        def cb(xk, state, its=its):
            its.append(np.array(xk, dtype=float))
            return False

        x0 = rng.uniform(-box, box, n)
        bounds = np.array([[-box, box]] * n)
        lbfgsb.minimize_lbfgsb(
            x0=x0, fun=f, jac=g, bounds=bounds, maxcor=maxcor, maxiter=15, callback=cb
        )
        for x in [x0] + its[:15]:
            if ok_for(name, x):
                check(name, x)
                count += 1

print(f"(ii) {count} property checks done")
if failures:
    print(f"C19 VIOLATED: {len(failures)} failing checks; first ones:")
    for msg in failures[:5]:
        print("  -", msg)
    sys.exit(1)
print("C19 holds on all checked points")
sys.exit(0)
