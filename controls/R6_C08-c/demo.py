"""Reference oracle for property C08 (generalized Cauchy point). Dense, slow, simple."""
from collections import deque

import numpy as np

from lbfgsb.bfgsmats import LBFGSB_MATRICES, update_lbfgs_matrices
from lbfgsb.cauchy import get_cauchy_point


def dense_model(mats, n):
    """Dense limited-memory BFGS matrix defined by (theta, S, Y): BFGS recursion."""
    if not mats.use_factor:
        return mats.theta * np.eye(n)
    B = mats.theta * np.eye(n)
    for j in range(mats.S.shape[1]):
        s = mats.S[:, j]
        y = mats.Y[:, j]
        Bs = B @ s
        B = B - np.outer(Bs, Bs) / s.dot(Bs) + np.outer(y, y) / y.dot(s)
    return B


def breakpoints(x, g, lb, ub):
    t = np.full(x.size, np.inf)
    for i in range(x.size):
        if g[i] < 0:
            t[i] = (x[i] - ub[i]) / g[i]
        elif g[i] > 0:
            t[i] = (x[i] - lb[i]) / g[i]
    return t


def path(x, g, lb, ub, t, tt):
    """P(x - tt g) with reached variables put exactly on their bounds."""
    out = x.copy()
    for i in range(x.size):
        if g[i] == 0:
            continue
        if tt >= t[i]:
            out[i] = lb[i] if g[i] > 0 else ub[i]
        else:
            out[i] = x[i] - tt * g[i]
    return out


def reference_gcp(x, g, lb, ub, B):
    """First local minimiser of m(z)=g.z+0.5 z'Bz along the projected path (BLN95)."""
    t = breakpoints(x, g, lb, ub)
    knots = np.unique(np.concatenate([[0.0], t[np.isfinite(t) & (t > 0)]]))
    t_star = None
    for j, tj in enumerate(knots):
        d = np.where(t > tj, -g, 0.0)
        if not np.any(d):
            t_star = tj
            break
        z = path(x, g, lb, ub, t, tj) - x
        f1 = g.dot(d) + d.dot(B @ z)
        f2 = d.dot(B @ d)
        if f1 >= 0:
            t_star = tj
            break
        dt = -f1 / f2
        t_next = knots[j + 1] if j + 1 < len(knots) else np.inf
        if dt < t_next - tj:
            t_star = tj + dt
            break
    assert t_star is not None
    return t_star, t, path(x, g, lb, ub, t, t_star)


def check_c08(x, g, lb, ub, mats, label="", rtol=1e-7):
    """Return a list of violation strings (empty if the property holds)."""
    n = x.size
    bad = []
    B = dense_model(mats, n)
    ev = np.linalg.eigvalsh(B)
    if ev.min() <= 0:
        return ["%s: model not positive definite (test input invalid)" % label]
    x_cp, c = get_cauchy_point(x.copy(), g.copy(), lb, ub, mats, 0, -1, None)
    t_star, t, x_ref = reference_gcp(x, g, lb, ub, B)
    scale = max(1.0, np.abs(x).max(), np.abs(x_ref).max())
    # feasibility
    if np.any(x_cp < lb) or np.any(x_cp > ub):
        bad.append("%s: Cauchy point infeasible: %r" % (label, x_cp))
    # on the path at the first local minimiser
    if not np.allclose(x_cp, x_ref, rtol=rtol, atol=rtol * scale):
        bad.append(
            "%s: Cauchy point %r is not the first local minimiser on the path %r "
            "(t*=%g)" % (label, x_cp, x_ref, t_star)
        )
    # pinned exactly on the bounds reached strictly before t*
    for i in range(n):
        if g[i] != 0 and t[i] <= t_star * (1 - 1e-9) and np.isfinite(t[i]):
            bnd = lb[i] if g[i] > 0 else ub[i]
            if x_cp[i] != bnd:
                bad.append(
                    "%s: variable %d reached its bound %r (t_i=%g < t*=%g) but is "
                    "not pinned on it: x_cp=%r" % (label, i, bnd, t[i], t_star, x_cp[i])
                )
    # model decrease
    z = x_cp - x
    mval = g.dot(z) + 0.5 * z.dot(B @ z)
    if mval > 1e-12 * max(1.0, abs(g.dot(g))):
        bad.append("%s: model value increased at the Cauchy point: %g" % (label, mval))
    # auxiliary vector
    # (restricted to the case where a variable is still moving at t*: with only
    # zero-gradient variables left free the unmodified code already returns a
    # round-off dominated c, which is not what is being tested here)
    free = (g != 0) & (t > t_star * (1 + 1e-9)) & (x_cp > lb) & (x_cp < ub)
    if np.any(free) and mats.use_factor:
        c_ref = mats.W.T @ z
        if not np.allclose(c, c_ref, rtol=1e-6, atol=1e-8 * max(1.0, np.abs(c_ref).max())):
            bad.append("%s: c=%r differs from W'(x_cp-x)=%r" % (label, c, c_ref))
    return bad


def make_mats(n, pairs, maxcor):
    """Feed successive (x, g) points through the public update routine."""
    mats = LBFGSB_MATRICES(n)
    X, G = deque(), deque()
    first = True
    for xk, gk in pairs:
        if first:
            X.append(xk.copy())
            G.append(gk.copy())
            first = False
            continue
        mats = update_lbfgs_matrices(xk.copy(), gk.copy(), X, G, maxcor, mats, False)
    return mats, X, G


def quad_points(rng, n, k, cond=50.0):
    """k points and exact gradients of a random strictly convex quadratic."""
    Q, _ = np.linalg.qr(rng.standard_normal((n, n)))
    A = Q @ np.diag(np.linspace(1.0, cond, n)) @ Q.T
    pts = []
    xk = rng.standard_normal(n)
    for _ in range(k):
        pts.append((xk.copy(), A @ xk))
        xk = xk + rng.standard_normal(n) * 0.5
    return pts


# --------------------------------------------------------------------------- demo c
import io
import itertools
import logging
import sys
import time
import warnings


def show_difference():
    """(i) behaviour that differs from the unmodified code (hard-coded reference)."""
    inf = np.inf
    differs = False
    # a) the number of breakpoints that is reported
    mats = LBFGSB_MATRICES(4)
    x = np.array([0.5, 0.5, 0.5, 0.5])
    g = np.array([1.0, -2.0, 0.0, -1.0])  # var 2: zero gradient; var 3: no upper bound
    lb = np.array([0.0, 0.0, 0.0, 0.0])
    ub = np.array([1.0, 1.0, 1.0, inf])
    stream = io.StringIO()
    lg = logging.getLogger("demo_c")
    lg.handlers[:] = [logging.StreamHandler(stream)]
    lg.setLevel(logging.INFO)
    lg.propagate = False
    x_cp, c = get_cauchy_point(x, g, lb, ub, mats, 0, 100, lg)
    lines = [ln for ln in stream.getvalue().splitlines() if "breakpoints" in ln]
    unmodified = "There are 4 breakpoints "
    print("[diff a] unmodified code logs %r ; this tree logs %r" % (unmodified, lines[0]))
    print("         (Cauchy point is %r in both)" % (x_cp,))
    differs |= lines[0] != unmodified
    assert np.allclose(x_cp, [0.0, 1.0, 0.5, 1.5]), x_cp
    # b) zero projected gradient with a zero gradient component (outside C08's domain)
    x = np.array([0.0, 0.3])
    g = np.array([1.0, 0.0])
    with warnings.catch_warnings():
        warnings.simplefilter("ignore")
        try:
            out = get_cauchy_point(
                x, g, np.zeros(2), np.ones(2), LBFGSB_MATRICES(2), 0, -1, None
            )[0]
            now = "returns %r" % (out,)
        except Exception as e:  # noqa
            now = "raises %s" % type(e).__name__
    print("[diff b] zero projected gradient: unmodified code returns array([0., nan])"
          " (0/0) ; this tree %s" % now)
    differs |= "nan" not in now
    return differs


def structural(bad):
    """Exhaustive structural patterns for n <= 3: position x gradient sign x bounds."""
    inf = np.inf
    per_var = []
    for pos in ("lo", "up", "in"):
        for sg in (-1.0, 0.0, 1.0):
            for lbf in (True, False):
                for ubf in (True, False):
                    if pos == "lo" and not lbf:
                        continue
                    if pos == "up" and not ubf:
                        continue
                    per_var.append((pos, sg, lbf, ubf))
    rng = np.random.default_rng(3)
    count = 0
    for n in (1, 2, 3):
        mems = [LBFGSB_MATRICES(n)]
        for k in (1, 2, 3):
            mems.append(make_mats(n, quad_points(rng, n, k + 1), 3)[0])
        mag = rng.uniform(0.3, 3.0, n)
        for mi, mats in enumerate(mems):
            if n == 3 and mi in (1, 3):
                continue  # n = 3: 0 and 2 pairs only (time)
            for combo in itertools.product(per_var, repeat=n):
                lb = np.array([-1.0 if cb[2] else -inf for cb in combo])
                ub = np.array([1.5 if cb[3] else inf for cb in combo])
                x = np.array(
                    [
                        -1.0 if cb[0] == "lo" else (1.5 if cb[0] == "up" else 0.2)
                        for cb in combo
                    ]
                )
                g = np.array([cb[1] for cb in combo]) * mag
                if not np.any((g != 0) & (breakpoints(x, g, lb, ub) > 0)):
                    continue  # zero projected gradient: outside the property
                bad += check_c08(x, g, lb, ub, mats, "struct n=%d mem=%d %r" % (n, mi, combo))
                count += 1
    return count


def randomised(bad, ntrials):
    rng = np.random.default_rng(0)
    inf = np.inf
    count = 0
    for trial in range(ntrials):
        n = int(rng.integers(1, 11))
        maxcor = int(rng.integers(1, 6))
        k = int(rng.integers(1, maxcor + 6))  # also more points than the memory holds
        mats = make_mats(n, quad_points(rng, n, k, cond=10 ** rng.uniform(0, 3)), maxcor)[0]
        lb = -rng.uniform(0.01, 3, n)
        ub = rng.uniform(0.01, 3, n)
        lb[rng.random(n) < 0.25] = -inf
        ub[rng.random(n) < 0.25] = inf
        x = rng.uniform(np.maximum(lb, -3), np.minimum(ub, 3))
        pos = rng.integers(0, 3, n)
        x = np.where((pos == 0) & np.isfinite(lb), lb, x)
        x = np.where((pos == 1) & np.isfinite(ub), ub, x)
        g = rng.standard_normal(n) * 10 ** rng.uniform(-2, 2)
        g[rng.random(n) < 0.2] = 0.0
        if rng.random() < 0.3:  # tied breakpoints
            g = np.where(g != 0, np.sign(g) * 0.7, 0.0)
            lb = np.where(np.isfinite(lb), -1.0, lb)
            ub = np.where(np.isfinite(ub), 1.0, ub)
            x = np.clip(np.round(x), lb, ub) * 0.5
        if not np.any((g != 0) & (breakpoints(x, g, lb, ub) > 0)):
            continue
        bad += check_c08(x, g, lb, ub, mats, "random %d" % trial)
        count += 1
    return count


def in_situ(bad):
    """Check every Cauchy point computed inside real minimize_lbfgsb runs."""
    import lbfgsb.main as lmain
    from lbfgsb import minimize_lbfgsb
    from lbfgsb.benchmarks import (
        beale, beale_grad, quartic, quartic_grad, rosenbrock, rosenbrock_grad,
        sphere, sphere_grad, styblinski_tang, styblinski_tang_grad,
    )

    stats = {"n": 0, "skipped": 0}
    real = lmain.get_cauchy_point

    def checking(x, grad, lb, ub, mats, it, iprint, logger=None):
        ok = np.all(np.isfinite(grad)) and np.any(
            (grad != 0) & (breakpoints(x, grad, lb, ub) > 0)
        )
        if ok:
            B = dense_model(mats, x.size)
            ev = np.linalg.eigvalsh(B)
            if ev.min() > 0 and ev.max() / ev.min() < 1e8:
                bad.extend(check_c08(x, grad, lb, ub, mats, "in-situ %s it=%d" % (tag[0], it)))
                stats["n"] += 1
            else:
                stats["skipped"] += 1
        return real(x, grad, lb, ub, mats, it, iprint, logger)

    tag = [""]
    lmain.get_cauchy_point = checking
    inf = np.inf
    try:
        problems = [
            ("rosenbrock", rosenbrock, rosenbrock_grad, 2, -1.2, (-2.0, 2.0)),
            ("rosenbrock-halfbox", rosenbrock, rosenbrock_grad, 4, -0.5, (-inf, 0.8)),
            ("beale", beale, beale_grad, 2, 1.0, (-4.5, 4.5)),
            ("quartic", quartic, quartic_grad, 6, 0.9, (-1.0, 1.28)),
            ("sphere-offbox", sphere, sphere_grad, 5, 2.0, (0.5, 3.0)),
            ("styblinski", styblinski_tang, styblinski_tang_grad, 7, 0.5, (-5.0, inf)),
            ("styblinski-free", styblinski_tang, styblinski_tang_grad, 3, -0.5, (-inf, inf)),
        ]
        for name, f, gf, n, start, (lo, hi) in problems:
            for maxcor in (1, 3, 10):
                tag[0] = "%s maxcor=%d" % (name, maxcor)
                bounds = np.array([[lo, hi]] * n)
                x0 = np.clip(np.full(n, start) + 0.1 * np.arange(n), lo, hi)
                kw = dict(fun=f, jac=gf, bounds=bounds, maxcor=maxcor, ftol=1e-12, gtol=1e-9)
                res = minimize_lbfgsb(x0=x0, maxiter=6, **kw)
                # restart from the checkpoint
                tag[0] += " (restart)"
                minimize_lbfgsb(x0=res.x, checkpoint=res, maxiter=12, **kw)
        # on-the-fly update of the objective definition (gradients rewritten)
        def upd(x, f0, f0_old, grad, X, G):
            return f0, f0_old, grad, G

        tag[0] = "rosenbrock update_fun_def"
        minimize_lbfgsb(
            x0=np.array([-1.0, -1.0]), fun=rosenbrock, jac=rosenbrock_grad,
            bounds=np.array([[-2.0, 2.0]] * 2), maxiter=15, update_fun_def=upd,
        )
    finally:
        lmain.get_cauchy_point = real
    return stats


def main():
    differs = show_difference()
    print("behaviour differs from the unmodified code: %s" % differs)
    bad = []
    t0 = time.time()
    n_rand = randomised(bad, 1200)
    print("randomised inputs checked: %d (%.1fs)" % (n_rand, time.time() - t0))
    with warnings.catch_warnings():
        warnings.simplefilter("ignore")
        st = in_situ(bad)
    print("in-situ Cauchy points checked: %d (skipped %d ill-conditioned) (%.1fs)"
          % (st["n"], st["skipped"], time.time() - t0))
    n_struct = structural(bad)
    print("structural patterns checked: %d (%.1fs)" % (n_struct, time.time() - t0))
    if bad:
        print("C08 VIOLATED (%d findings):" % len(bad))
        for b in bad[:15]:
            print("  " + b)
        sys.exit(1)
    print("C08 held on every input")
    sys.exit(0)


if __name__ == "__main__":
    main()
