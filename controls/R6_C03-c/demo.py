"""C03 stress script for control patch (c).

(i)  prints the evaluation counters / end points of a few fixed runs next to the
     values recorded on the unmodified code, so that a behaviour change is visible;
(ii) checks C03 on many varied runs: the sequence f(x0), f(callback iterates),
     f(returned x), recomputed with the user's own objective, is non-increasing;
     the reported values (state.fun, res.fun, res.jac) agree with the user's
     objective at the reported points; an iterate only moves when the objective
     strictly improves; restarts from a checkpoint continue the same sequence.
Exit status 0 when the property held everywhere.
"""
import sys
import time

import numpy as np

import lbfgsb
from lbfgsb import minimize_lbfgsb

T0 = time.time()


# ----------------------------------------------------------------- objectives
def _illcond(x):
    w = np.logspace(0, 6, x.size)
    return float(0.5 * np.sum(w * (x - 0.3) ** 2))


def _illcond_grad(x):
    w = np.logspace(0, 6, x.size)
    return w * (x - 0.3)


def _shifted_rosen(x):
    return float(lbfgsb.rosenbrock((x - 1000.0) * 1e3))


def _shifted_rosen_grad(x):
    return lbfgsb.rosenbrock_grad((x - 1000.0) * 1e3) * 1e3


def _abs15(x):  # non smooth at the solution
    return float(np.sum(np.abs(x - 0.5) ** 1.5) + 0.1 * np.sum(np.cos(3 * x)))


def _abs15_grad(x):
    return 1.5 * np.sign(x - 0.5) * np.abs(x - 0.5) ** 0.5 - 0.3 * np.sin(3 * x)


OBJ = {
    "sphere": (lbfgsb.sphere, lbfgsb.sphere_grad, 5.0, 0.0),
    "rosenbrock": (lbfgsb.rosenbrock, lbfgsb.rosenbrock_grad, 2.0, 0.0),
    "rastrigin": (lbfgsb.rastrigin, lbfgsb.rastrigin_grad, 5.12, 0.0),
    "ackley": (lbfgsb.ackley, lbfgsb.ackley_grad, 30.0, 0.0),
    "griewank": (lbfgsb.griewank, lbfgsb.griewank_grad, 50.0, 0.0),
    "styblinski": (lbfgsb.styblinski_tang, lbfgsb.styblinski_tang_grad, 5.0, 0.0),
    "quartic": (lbfgsb.quartic, lbfgsb.quartic_grad, 1.28, 0.0),
    "illcond": (_illcond, _illcond_grad, 3.0, 0.0),
    "shifted_rosen": (_shifted_rosen, _shifted_rosen_grad, 2e-3, 1000.0),
    "abs15": (_abs15, _abs15_grad, 2.0, 0.0),
}

FAIL = []
NRUNS = [0]


def run_and_check(label, f, g, x0, n_restart=0, **kw):
    """One run (optionally continued n_restart times from its own result)."""
    scale_box = {}
    seq = [("x0", float(f(x0)), np.array(x0, dtype=float))]

    def make_cb(leg):
        def cb(xk, state):
            fx = float(f(xk))
            s = state.scaling_factor
            if abs(state.fun - s * fx) > 1e-9 * max(1.0, abs(s * fx)):
                FAIL.append(f"{label}: callback fun={state.fun!r} but s*f(xk)={s * fx!r}")
            if g is not None and not np.allclose(state.jac, s * np.asarray(g(xk)), rtol=1e-9, atol=1e-12):
                FAIL.append(f"{label}: callback jac does not match the gradient at xk")
            seq.append((f"leg{leg} nit={state.nit}", fx, np.array(xk)))
        return cb

    res = None
    for leg in range(n_restart + 1):
        kw2 = dict(kw)
        if res is not None:
            kw2["checkpoint"] = res
            kw2["maxiter"] = res.nit + kw.get("maxiter", 50)
            kw2["maxfun"] = res.nfev + kw.get("maxfun", 15000)
            start = res.x.copy()
        else:
            start = np.array(x0, dtype=float)
        res = minimize_lbfgsb(x0=start, fun=f, jac=g, callback=make_cb(leg), **kw2)
        NRUNS[0] += 1
        fx = float(f(res.x))
        s = res.scaling_factor
        seq.append((f"leg{leg} returned", fx, np.array(res.x)))
        if abs(res.fun - s * fx) > 1e-9 * max(1.0, abs(s * fx)):
            FAIL.append(f"{label}: res.fun={res.fun!r} but s*f(res.x)={s * fx!r}")
        if g is not None:
            gx = s * np.asarray(g(res.x))
            if not np.allclose(res.jac, gx, rtol=1e-9, atol=1e-12):
                FAIL.append(f"{label}: res.jac does not match the gradient at res.x")
        lb, ub = (-np.inf, np.inf)
        if kw.get("bounds") is not None:
            lb, ub = kw["bounds"][:, 0], kw["bounds"][:, 1]
            if np.any(res.x < lb) or np.any(res.x > ub):
                FAIL.append(f"{label}: returned point outside the box")
    for (na, fa, xa), (nb, fb, xb) in zip(seq, seq[1:]):
        if not fb <= fa:
            FAIL.append(f"{label}: f went UP {fa!r} ({na}) -> {fb!r} ({nb}); {res.message!r}")
            break
        if fb == fa and not np.array_equal(xa, xb):
            FAIL.append(f"{label}: iterate moved without improvement ({na} -> {nb})")
            break
    if seq[-1][1] > seq[0][1]:
        FAIL.append(f"{label}: returned objective worse than at x0")
    return res


# ------------------------------------------------- (i) behaviour vs. baseline
# values recorded with the unmodified package (same python / numpy / scipy)
BASELINE = {
    "rastrigin [3.12,3.15] box maxls=3": (18, 18, 9, 1.9899181141865867),
    "rastrigin [3.12,3.15] box maxls=3 maxfun=8": (8, 8, 2, 10.810860960971649),
    "rastrigin [-4.62,5.11] box maxls=20": (15, 15, 7, 28.853554125096373),
    "rosenbrock [-1.2,1] maxls=3": (45, 45, 37, 1.705495818919572e-17),
}


def fixed_runs():
    out = {}
    B = 5.12
    box = np.array([[-B, B]] * 2)
    kw = dict(fun=lbfgsb.rastrigin, jac=lbfgsb.rastrigin_grad, bounds=box, maxiter=40, ftol=1e-12)
    out["rastrigin [3.12,3.15] box maxls=3"] = minimize_lbfgsb(
        x0=np.array([3.12, 3.15]), maxls=3, **kw)
    out["rastrigin [3.12,3.15] box maxls=3 maxfun=8"] = minimize_lbfgsb(
        x0=np.array([3.12, 3.15]), maxls=3, maxfun=8, **kw)
    out["rastrigin [-4.62,5.11] box maxls=20"] = minimize_lbfgsb(
        x0=np.array([-4.62, 5.11]), maxls=20, **kw)
    out["rosenbrock [-1.2,1] maxls=3"] = minimize_lbfgsb(
        x0=np.array([-1.2, 1.0]), fun=lbfgsb.rosenbrock, jac=lbfgsb.rosenbrock_grad,
        maxls=3, maxiter=60, ftol=1e-12)
    return out


def part_one():
    print("(i) fixed runs: (nfev, njev, nit, fun) now  vs  unmodified package")
    differs = 0
    for name, r in fixed_runs().items():
        now = (int(r.nfev), int(r.njev), int(r.nit), float(r.fun))
        base = BASELINE[name]
        same = base is not None and now[:3] == base[:3] and abs(now[3] - base[3]) <= 1e-12 * max(1, abs(base[3]))
        differs += 0 if same else 1
        print(f"   {name:42s} now={now}  baseline={base}  {'same' if same else 'DIFFERENT'}")
    print(f"   -> {differs} of {len(BASELINE)} fixed runs behave differently from the unmodified package")


# ------------------------------------------------------- (ii) property stress
def part_two():
    rng = np.random.default_rng(20260927)
    for name, (f, g, B, shift) in OBJ.items():
        for n in (2, 3, 6):
            for rep in range(2):
                x0 = shift + rng.uniform(-B, B, n)
                box = np.column_stack([np.full(n, shift - B), np.full(n, shift + B)])
                half = box.copy()
                half[::2, 0] = -np.inf  # partly unbounded
                tight = np.column_stack([x0 - 0.3 * B * rng.uniform(0, 1, n),
                                         x0 + 0.3 * B * rng.uniform(0, 1, n)])
                for bname, bounds in (("none", None), ("box", box), ("half", half), ("tight", tight)):
                    maxls = int(rng.integers(1, 21))
                    maxcor = int(rng.choice([1, 2, 3, 5, 10, 17]))
                    maxfun = int(rng.choice([1, 2, 3, 4, 5, 7, 10, 15, 25, 60, 15000]))
                    msl = float(rng.choice([1e8, 1e8, 0.5, 0.1]))
                    lab = (f"{name} n={n} rep={rep} bounds={bname} maxls={maxls} maxcor={maxcor} "
                           f"maxfun={maxfun} max_steplength={msl}")
                    run_and_check(lab, f, g, x0, bounds=bounds, maxls=maxls, maxcor=maxcor,
                                  maxfun=maxfun, maxiter=25, ftol=1e-10, gtol=1e-8,
                                  max_steplength=msl)
                # a restarted run: small budget per leg, two restarts
                maxls = int(rng.integers(1, 21))
                maxfun = int(rng.choice([3, 5, 8, 12]))
                lab = f"{name} n={n} rep={rep} RESTARTx2 maxls={maxls} maxfun/leg={maxfun}"
                run_and_check(lab, f, g, x0, n_restart=2, bounds=box, maxls=maxls,
                              maxcor=int(rng.choice([2, 5, 10])), maxfun=maxfun, maxiter=4,
                              ftol=0.0, gtol=1e-10)
        # finite-difference gradients (budget runs out inside a line search) and scaler
        for rep in range(2):
            n = 3
            x0 = shift + rng.uniform(-B, B, n)
            box = np.column_stack([np.full(n, shift - B), np.full(n, shift + B)])
            if name != "shifted_rosen":  # FD with eps=1e-8 is meaningless there
                for maxfun in (1, 6, 13, 40, 400):
                    run_and_check(f"{name} FD rep={rep} maxfun={maxfun}", f, None, x0, bounds=box,
                                  maxfun=maxfun, maxls=int(rng.integers(1, 21)), maxiter=20)
            run_and_check(f"{name} scaler rep={rep}", f, g, x0, n_restart=1, bounds=box,
                          gradient_scaler=lbfgsb.get_gradient_projection_unit_scaling,
                          maxiter=6, maxls=int(rng.integers(1, 21)), ftol=0.0)
    # every maxls from 1 to 20 on a hard line-search problem
    for maxls in range(1, 21):
        for maxfun in (2, 5, 9, 30, 15000):
            run_and_check(f"rosenbrock maxls={maxls} maxfun={maxfun}", lbfgsb.rosenbrock,
                          lbfgsb.rosenbrock_grad, np.array([-1.2, 1.0, -0.5, 2.0]),
                          maxls=maxls, maxfun=maxfun, maxiter=40, ftol=1e-12)
            run_and_check(f"rastrigin maxls={maxls} maxfun={maxfun}", lbfgsb.rastrigin,
                          lbfgsb.rastrigin_grad, np.array([2.25, 3.44, -2.23]),
                          bounds=np.array([[-5.12, 5.12]] * 3),
                          maxls=maxls, maxfun=maxfun, maxiter=40, ftol=1e-12)


def main():
    part_one()
    part_two()
    print(f"(ii) {NRUNS[0]} solver runs checked in {time.time() - T0:.1f}s")
    if FAIL:
        print(f"C03 VIOLATED / inconsistent report in {len(FAIL)} checks, first ones:")
        for m in FAIL[:10]:
            print("  -", m)
        return 1
    print("C03 held on every run")
    return 0


if __name__ == "__main__":
    sys.exit(main())
