"""Stress script for the control change c (property C01). Exit 0 = property held everywhere."""
import sys

import numpy as np

from lbfgsb import minimize_lbfgsb


def make_spd(rng, n, cond):
    q, _ = np.linalg.qr(rng.standard_normal((n, n)))
    if n == 1:
        ev = np.array([1.0])
    else:
        ev = np.exp(np.linspace(0.0, np.log(cond), n))
        ev = ev / np.sqrt(cond)
    return (q * ev) @ q.T


def make_objective(rng, n, kind, cond):
    A = make_spd(rng, n, cond)
    A = 0.5 * (A + A.T)
    b = rng.standard_normal(n) * 2.0
    if kind == "qp":

        def f(x):
            return 0.5 * x @ A @ x - b @ x

        def g(x):
            return A @ x - b

    elif kind == "quartic":
        c = rng.uniform(0.05, 1.0, n)

        def f(x):
            return 0.5 * x @ A @ x - b @ x + 0.25 * np.sum(c * x**4)

        def g(x):
            return A @ x - b + c * x**3

    elif kind == "softplus":
        C = rng.standard_normal((n, n))
        e = rng.standard_normal(n)

        def f(x):
            z = C @ x + e
            return 0.5 * x @ A @ x - b @ x + np.sum(np.logaddexp(0.0, z))

        def g(x):
            z = C @ x + e
            return A @ x - b + C.T @ (0.5 * (1.0 + np.tanh(0.5 * z)))

    else:
        raise ValueError(kind)
    return f, g


def make_box(rng, n, box_kind):
    lo = -rng.uniform(0.1, 2.0, n)
    hi = rng.uniform(0.1, 2.0, n)
    shift = rng.standard_normal(n) * 0.5
    lo, hi = lo + shift, hi + shift
    if box_kind == "finite":
        pass
    elif box_kind == "lower":
        hi[:] = np.inf
    elif box_kind == "upper":
        lo[:] = -np.inf
    elif box_kind == "free":
        lo[:] = -np.inf
        hi[:] = np.inf
    elif box_kind == "mixed":
        for i in range(n):
            r = rng.integers(0, 5)
            if r == 0:
                lo[i] = -np.inf
            elif r == 1:
                hi[i] = np.inf
            elif r == 2:
                lo[i], hi[i] = -np.inf, np.inf
            elif r == 3:
                hi[i] = lo[i]  # degenerate side
    else:
        raise ValueError(box_kind)
    return lo, hi


def make_start(rng, lo, hi, start_kind):
    n = lo.size
    flo = np.where(np.isfinite(lo), lo, np.where(np.isfinite(hi), hi - 3.0, -1.5))
    fhi = np.where(np.isfinite(hi), hi, np.where(np.isfinite(lo), lo + 3.0, 1.5))
    x = flo + rng.uniform(0.05, 0.95, n) * (fhi - flo)
    if start_kind == "interior":
        pass
    elif start_kind == "face":
        for i in range(n):
            if rng.uniform() < 0.5:
                x[i] = _pick_bound(rng, lo[i], hi[i], x[i])
    elif start_kind == "vertex":
        for i in range(n):
            x[i] = _pick_bound(rng, lo[i], hi[i], x[i])
    return np.clip(x, lo, hi)


def _pick_bound(rng, l, h, default):
    c = [v for v in (l, h) if np.isfinite(v)]
    if not c:
        return default
    return c[rng.integers(0, len(c))]


def pg_norm(x, grad, lo, hi):
    return float(np.max(np.abs(np.clip(x - grad, lo, hi) - x)))


def solve(f, g, x0, lo, hi, maxcor, gtol=1e-6, **kw):
    return minimize_lbfgsb(
        x0=x0.copy(),
        fun=f,
        jac=g,
        bounds=np.array(list(zip(lo, hi))),
        maxcor=maxcor,
        ftol=0.0,
        gtol=gtol,
        maxiter=5000,
        maxfun=100000,
        **kw,
    )


def threshold(gtol):
    """Accepted projected-gradient level: the tolerance, with a margin for the
    floating-point resolution of the objective (an abnormal line-search stop at
    resolution level is allowed; on the unmodified code the worst observed value
    over thousands of instances with gtol=1e-6 is below 1e-5)."""
    return max(100.0 * gtol, 1e-4)


def check(label, f, g, x0, lo, hi, maxcor, gtol=1e-6, **kw):
    """Run the solver and check property C01. Return (ok, text)."""
    try:
        res = solve(f, g, x0, lo, hi, maxcor, gtol=gtol, **kw)
    except Exception as e:  # a crash is a violation too
        return False, f"{label}: solver raised {e!r}"
    x = np.asarray(res.x, dtype=float)
    if np.any(x < lo) or np.any(x > hi):
        return False, f"{label}: returned point violates the box"
    pg = pg_norm(x, g(x), lo, hi)
    pg0 = pg_norm(x0, g(x0), lo, hi)
    txt = (
        f"{label}: n={x0.size} maxcor={maxcor} nit={res.nit} |pg(x0)|={pg0:.3e} "
        f"|pg(x*)|={pg:.3e} msg={res.message!r}"
    )
    return bool(pg <= threshold(gtol)), txt


# Behaviour of the UNMODIFIED package on three fixed unconstrained instances
# (recorded on the clean tree with the very code of part (i) below).
RECORDED_UNMODIFIED = {
    101: dict(
        nit=66,
        nfev=75,
        msg="CONVERGENCE: NORM_OF_PROJECTED_GRADIENT_<=_PGTOL",
        x=[
            "0x1.77cd2e4fa7db3p+3",
            "-0x1.aec416c001725p+2",
            "-0x1.2c9e8a1c8d89cp+0",
            "0x1.454de3af7229ap+3",
            "-0x1.c3f801878d477p+3",
            "0x1.a1735c463d38cp+3",
        ],
    ),
    108: dict(
        nit=59,
        nfev=98,
        msg="CONVERGENCE: NORM_OF_PROJECTED_GRADIENT_<=_PGTOL",
        x=[
            "0x1.72d1548beba69p+6",
            "-0x1.a801d97fb23f3p+5",
            "-0x1.ae864b050a681p+5",
            "-0x1.08c6365d23b77p+5",
            "-0x1.a618306ee75bdp+2",
            "0x1.55cb003a6c79dp+4",
        ],
    ),
    117: dict(
        nit=85,
        nfev=169,
        msg="ABNORMAL_TERMINATION_IN_LNSRCH",
        x=[
            "0x1.4a723118a88a5p+4",
            "-0x1.293cccf623bc2p+4",
            "-0x1.042437744e3f5p-1",
            "0x1.083343e2b75a5p+7",
            "0x1.3056ed5475b81p+5",
            "-0x1.0bbe2e27891c1p+4",
        ],
    ),
}


def part_i():
    """Show whether the behaviour differs from the unmodified code."""
    print("(i) comparison with the recorded behaviour of the unmodified code")
    ndiff = 0
    for seed, rec in RECORDED_UNMODIFIED.items():
        rng = np.random.default_rng(seed)
        n = 6
        kind = ["qp", "quartic", "softplus"][seed % 3]
        f, g = make_objective(rng, n, kind, 3e3)
        lo, hi = make_box(rng, n, "free")
        x0 = rng.uniform(-1.0, 1.0, n)
        res = solve(f, g, x0, lo, hi, 5)
        xr = np.array([float.fromhex(h) for h in rec["x"]])
        same = (
            res.nit == rec["nit"]
            and res.nfev == rec["nfev"]
            and res.message == rec["msg"]
            and np.array_equal(res.x, xr)
        )
        ndiff += not same
        print(
            f"  seed {seed} ({kind}, n=6, no bounds, maxcor=5): "
            f"unmodified nit={rec['nit']} nfev={rec['nfev']} msg={rec['msg']!r}"
        )
        print(
            f"  {'':9s} this code  nit={res.nit} nfev={res.nfev} msg={res.message!r}"
            f" max|x - x_unmodified|={np.max(np.abs(res.x - xr)):.3e}"
            f" -> {'IDENTICAL' if same else 'DIFFERS'}"
        )
    print(
        f"  => behaviour differs from the unmodified code on {ndiff} of "
        f"{len(RECORDED_UNMODIFIED)} instances"
    )


def restart_check(label, f, g, x0, lo, hi, maxcor, gtol, first_iters):
    """Interrupt after `first_iters` iterations, restart from the checkpoint."""
    bounds = np.array(list(zip(lo, hi)))
    kw = dict(fun=f, jac=g, bounds=bounds, maxcor=maxcor, ftol=0.0, gtol=gtol)
    try:
        r1 = minimize_lbfgsb(x0=x0.copy(), maxiter=first_iters, maxfun=100000, **kw)
        res = minimize_lbfgsb(
            x0=r1.x, checkpoint=r1, maxiter=5000 + first_iters, maxfun=100000, **kw
        )
    except Exception as e:
        return False, f"{label}: solver raised {e!r}"
    x = np.asarray(res.x, dtype=float)
    pg = pg_norm(x, g(x), lo, hi)
    txt = (
        f"{label}: n={x0.size} maxcor={maxcor} nit={res.nit} |pg(x*)|={pg:.3e} "
        f"msg={res.message!r}"
    )
    ok = bool(np.all(x >= lo) and np.all(x <= hi) and pg <= threshold(gtol))
    return ok, txt


def part_ii():
    print("(ii) property C01 on varied inputs")
    failures = []
    nrun = 0
    rng = np.random.default_rng(987654321)
    kinds = ["qp", "quartic", "softplus"]
    # the patched path is the one without any finite bound: over-represent it
    boxes = ["free", "finite", "free", "lower", "upper", "mixed", "free", "mixed"]
    starts = ["interior", "face", "vertex"]
    gtols = [1e-6, 1e-4, 1e-8, 1e-6]
    for k in range(150):
        n = 1 + k % 12
        kind = kinds[k % 3]
        boxk = boxes[k % len(boxes)]
        sk = starts[(k // 3) % 3]
        m = 1 + (k * 7) % 10
        gtol = gtols[(k // 5) % 4]
        f, g = make_objective(rng, n, kind, 10 ** rng.uniform(0, 4))
        lo, hi = make_box(rng, n, boxk)
        x0 = make_start(rng, lo, hi, sk)
        label = f"#{k} {kind}/{boxk}/{sk}/gtol={gtol:g}"
        if k % 6 == 5:
            ok, txt = restart_check(
                label + "/restart", f, g, x0, lo, hi, m, gtol, 2 + k % 5
            )
        else:
            ok, txt = check(label, f, g, x0, lo, hi, m, gtol=gtol)
        nrun += 1
        if not ok:
            print("  FAIL " + txt)
            failures.append(txt)
    # a few larger unconstrained problems with small memory (long runs)
    for k in range(6):
        n = 12
        f, g = make_objective(rng, n, kinds[k % 3], 1e4)
        lo, hi = make_box(rng, n, "free")
        x0 = rng.uniform(-2.0, 2.0, n)
        ok, txt = check(f"long#{k} {kinds[k % 3]}/free", f, g, x0, lo, hi, 1 + k)
        nrun += 1
        print(("  ok   " if ok else "  FAIL ") + txt)
        if not ok:
            failures.append(txt)
    print(f"  {nrun} runs, {len(failures)} violations of C01")
    return failures


def main():
    part_i()
    failures = part_ii()
    if failures:
        print("C01 violated.")
        return 1
    print("C01 held on every run.")
    return 0


if __name__ == "__main__":
    sys.exit(main())
