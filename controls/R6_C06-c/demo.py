"""C06 stress script for the CONTROL patch (c).

(i)  shows that the behaviour differs from the unmodified code: on an unbounded problem
     whose initial gradient has a norm < 1, the first line search is no longer capped
     at a unit step (values of the unmodified code are hard-coded below for reference);
(ii) checks C06 on many inputs: objectives x boxes (starts, options cycled), every split
     iteration k = 0..K (k = 0 is the result of a maxiter=0 run: this is the only split
     for which a restart reaches the edited branch), no-iteration restarts, next
     iterate, chains of 4 restarts, maxcor kept or reduced.
Exit status 0 if the property held everywhere (expected with patch c AND on the
unmodified tree), 1 otherwise.

Note: chains are only compared while every update of the reference run was accepted
(number of pairs == min(k, maxcor)). When L-BFGS-B skips an update (s'y <= eps y'y,
nonconvex objective with a step cut by the box) the unmodified code already lets a
restarted CHAIN diverge from the uninterrupted run; this is unrelated to patch c and
such links are counted and reported, not checked.
"""
import copy
import itertools
import sys

import numpy as np
from scipy.optimize import LbfgsInvHessProduct

from lbfgsb import minimize_lbfgsb

# ----------------------------------------------------------------------------- (i)
w = np.array([1.0, 2.0, 5.0, 10.0]) * 1e-2


def f_flat(x):
    return float(0.5 * np.sum(w * x**2) + 1e-3 * np.sum(x**4))


def g_flat(x):
    return w * x + 4e-3 * x**3


r1 = minimize_lbfgsb(x0=np.full(4, 0.8), fun=f_flat, jac=g_flat, maxiter=1, ftol=0.0, gtol=1e-12)
rfull = minimize_lbfgsb(x0=np.full(4, 0.8), fun=f_flat, jac=g_flat, maxiter=100, ftol=1e-14, gtol=1e-9)
BASE_X1 = np.array([0.789952, 0.781952, 0.757952, 0.717952])  # unmodified code
BASE_NIT, BASE_NFEV = 11, 13  # unmodified code
print("(i) unbounded problem, |g0| < 1, first iterate :", r1.x)
print("    unmodified code gives                       :", BASE_X1)
print(f"    full run: nit={rfull.nit} nfev={rfull.nfev}   (unmodified code: nit={BASE_NIT} nfev={BASE_NFEV})")
if np.allclose(r1.x, BASE_X1, atol=1e-6) and (rfull.nit, rfull.nfev) == (BASE_NIT, BASE_NFEV):
    print("    -> same as the unmodified code (this tree does not carry patch c)")
else:
    print(
        "    -> DIFFERS from the unmodified code: first step length "
        f"{np.linalg.norm(r1.x - 0.8) / np.linalg.norm(g_flat(np.full(4, 0.8))):.3f} instead of 1.0"
    )

# ---------------------------------------------------------------------------- (ii)


def rosen(x):
    return float(np.sum(100.0 * (x[1:] - x[:-1] ** 2) ** 2 + (1 - x[:-1]) ** 2))


def rosen_g(x):
    g = np.zeros_like(x)
    g[:-1] = -400 * x[:-1] * (x[1:] - x[:-1] ** 2) - 2 * (1 - x[:-1])
    g[1:] += 200 * (x[1:] - x[:-1] ** 2)
    return g


def make_convex(n, seed, scale):
    rng = np.random.default_rng(seed)
    M = rng.normal(size=(n, n))
    A = scale * (M @ M.T + np.diag(np.linspace(1.0, 30.0, n)))
    b = scale * rng.normal(size=n) * 5.0
    return (
        lambda x: float(0.5 * x @ A @ x - b @ x + scale * 0.1 * np.sum(x**4)),
        lambda x: A @ x - b + scale * 0.4 * x**3,
    )


def make_softplus(n, seed):
    rng = np.random.default_rng(seed)
    C = rng.normal(size=(3 * n, n))
    t = rng.normal(size=3 * n)

    def f(x):
        z = C @ x - t
        return float(np.sum(np.logaddexp(0.0, z)) + 0.05 * x @ x)

    def g(x):
        z = C @ x - t
        return C.T @ (1.0 / (1.0 + np.exp(-z))) + 0.1 * x

    return f, g


N = 5
OBJECTIVES = {
    "rosenbrock": (rosen, rosen_g),
    "convex": make_convex(N, 3, 1.0),
    "convex-tiny": make_convex(N, 4, 1e-3),  # |g0| < 1: exercises the edited branch
    "softplus": make_softplus(N, 5),
    "flat": (lambda x: f_flat(x[:4]) + 0.5e-2 * x[4] ** 2, lambda x: np.append(g_flat(x[:4]), 1e-2 * x[4])),
}
BOXES = {
    "free": None,
    "box": np.array([[-2.0, 2.0]] * N),
    "tight": np.array([[-0.9, 0.4]] * N),
    "lower-only": np.array([[-0.5, np.inf]] * N),
    "mixed": np.array([[-np.inf, 0.3], [-1.0, np.inf], [-np.inf, np.inf], [-0.2, 0.2], [-3.0, 3.0]]),
}
STARTS = {"a": np.full(N, -0.8), "b": np.array([0.3, -0.6, 0.9, -0.1, 0.5])}
OPTIONS = [
    dict(maxcor=5),
    dict(maxcor=3, maxls=10, ftol_linesearch=1e-4),
    dict(maxcor=8, max_steplength=2.5, gtol_linesearch=0.5),
]
K = 6  # split iterations 0..K
CHAIN = 4


def close(a, b):
    return a.shape == b.shape and np.allclose(a, b, rtol=1e-7, atol=1e-10)


def run(fun, jac, x0, bounds, maxiter, checkpoint=None, **opt):
    return minimize_lbfgsb(
        x0=x0, fun=fun, jac=jac, bounds=bounds, maxiter=maxiter, ftol=0.0, gtol=1e-13,
        checkpoint=checkpoint, **opt
    )


failures = []
n_cases = n_checks = n_unchecked_links = 0
START_LIST = list(STARTS.items())
for i, ((on, (fun, jac)), (bn, bounds)) in enumerate(
    itertools.product(OBJECTIVES.items(), BOXES.items())
):
    # starts and option sets are cycled so that each is met with every kind of box
    sn, x0 = START_LIST[(i + i // 5) % 2]
    opt = OPTIONS[(i + i // 5) % 3]
    if bounds is not None:
        x0 = np.clip(x0, bounds[:, 0], bounds[:, 1])
    tag = f"{on}/{bn}/{sn}/{opt}"
    n_cases += 1
    m = opt["maxcor"]
    ref = {k: run(fun, jac, x0, bounds, k, **opt) for k in range(0, K + CHAIN + 1)}
    # iterations really performed (the run may converge before maxiter)
    last = max(k for k in ref if ref[k].nit == k)
    all_accepted = {k: ref[k].hess_inv.sk.shape[0] == min(k, m) for k in range(last + 1)}
    for k in range(0, min(K, last) + 1):
        ck = ref[k]
        # (1) restart without iteration: same pairs
        r0 = run(fun, jac, ck.x, bounds, k, checkpoint=ck, **opt)
        n_checks += 1
        if not (close(r0.hess_inv.sk, ck.hess_inv.sk) and close(r0.hess_inv.yk, ck.hess_inv.yk)):
            failures.append(f"{tag} split {k}: no-iteration restart changed the pairs")
        if r0.nit != k or not np.array_equal(r0.x, ck.x):
            failures.append(f"{tag} split {k}: no-iteration restart moved")
        # (2) chain of restarts, one iteration per link; link 1 is the 'next iterate'
        cur = ck
        for link in range(1, CHAIN + 1):
            if k + link > last:
                break
            if link > 1 and not all(all_accepted[j] for j in range(k + link)):
                n_unchecked_links += 1
                break
            cur = run(fun, jac, cur.x, bounds, k + link, checkpoint=cur, **opt)
            n_checks += 1
            if not close(cur.x, ref[k + link].x):
                failures.append(
                    f"{tag} split {k} link {link}: iterate {k + link} differs from the "
                    f"uninterrupted run by {float(np.max(np.abs(cur.x - ref[k + link].x))):.2e}"
                )
                break
        # (3) maxcor reduced at restart: most recent pairs kept, run resumes with them
        npairs = ck.hess_inv.sk.shape[0]
        for m2 in {1 if k % 2 else max(1, npairs - 1)}:
            if m2 >= npairs or k + 1 > last:
                continue
            opt2 = dict(opt, maxcor=m2)
            r0 = run(fun, jac, ck.x, bounds, k, checkpoint=ck, **opt2)
            n_checks += 1
            if not (close(r0.hess_inv.sk, ck.hess_inv.sk[-m2:]) and close(r0.hess_inv.yk, ck.hess_inv.yk[-m2:])):
                failures.append(f"{tag} split {k} maxcor {m}->{m2}: not the most recent pairs")
            cut = copy.deepcopy(ck)
            cut.hess_inv = LbfgsInvHessProduct(ck.hess_inv.sk[-m2:].copy(), ck.hess_inv.yk[-m2:].copy())
            want = run(fun, jac, cut.x, bounds, k + 1, checkpoint=cut, **opt2)
            got = run(fun, jac, ck.x, bounds, k + 1, checkpoint=ck, **opt2)
            n_checks += 1
            if not close(got.x, want.x):
                failures.append(f"{tag} split {k} maxcor {m}->{m2}: next iterate differs")

print(
    f"(ii) {n_cases} problems, {n_checks} restart checks, {n_unchecked_links} chain tails not "
    f"compared (skipped curvature update in the reference run), {len(failures)} violations"
)
if failures:
    print("C06 VIOLATED")
    for msg in failures[:30]:
        print("  -", msg)
    sys.exit(1)
print("C06 held everywhere")
sys.exit(0)
