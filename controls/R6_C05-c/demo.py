"""C05 stress script for control patch (c).

(i)  prints how a restart from a checkpoint stripped of `fun` and/or `jac` behaves
     (unmodified code: rejected with an exception; patch c: accepted, missing values
     evaluated at x0 and counted);
(ii) checks C05 on many varied runs: fun == f(x)*s and (callable gradient)
     jac == g(x)*s bit for bit for the result and for every callback state, and
     nfev / njev == number of calls made to the user's callables, cumulated over chains
     of restarts. Exits 0 iff the property held everywhere.
"""
import itertools
import sys
import warnings

import numpy as np
from lbfgsb import minimize_lbfgsb
from scipy.optimize import OptimizeResult

warnings.simplefilter("ignore")


# ----------------------------------------------------------------- objectives
def quad_f(x):
    w = np.arange(1, x.size + 1)
    return float(np.sum(w * (x - 0.5) ** 2))


def quad_g(x):
    w = np.arange(1, x.size + 1)
    return 2 * w * (x - 0.5)


def rosen_f(x):
    return float(np.sum(100 * (x[1:] - x[:-1] ** 2) ** 2 + (1 - x[:-1]) ** 2))


def rosen_g(x):
    r = np.zeros_like(x)
    r[:-1] += -400 * x[:-1] * (x[1:] - x[:-1] ** 2) - 2 * (1 - x[:-1])
    r[1:] += 200 * (x[1:] - x[:-1] ** 2)
    return r


def quartic_f(x):
    return float(np.sum(x**4 - 3 * x**2 + x))


def quartic_g(x):
    return 4 * x**3 - 6 * x + 1


def osc_f(x):
    return float(np.sum(x**2 + 3 * np.sin(5 * x)))


def osc_g(x):
    return 2 * x + 15 * np.cos(5 * x)


def expo_f(x):
    return float(np.sum(x + np.exp(-3 * x)))


def expo_g(x):
    return 1.0 - 3 * np.exp(-3 * x)


OBJECTIVES = {
    "quad": (quad_f, quad_g),
    "rosen": (rosen_f, rosen_g),
    "quartic": (quartic_f, quartic_g),
    "osc": (osc_f, osc_g),
    "expo": (expo_f, expo_g),
}
SCALERS = {
    "none": None,
    "half": lambda x, g, lb, ub: 0.5,
    "inv_ginf": lambda x, g, lb, ub: 1.0 / max(float(np.max(np.abs(g))), 1e-30),
    "three": lambda x, g, lb, ub: 3.0,
}


def identity_update(x, f0, f0_old, grad, X, G):
    return f0, f0_old, grad, G


def make_bounds(kind, n):
    if kind == "free":
        return None
    if kind == "box":
        return np.array([(-2.0, 2.0)] * n)
    if kind == "tight":
        return np.array([(-0.4, 0.9)] * n)
    if kind == "half":
        return np.array([(-1.5, np.inf) if i % 2 else (-np.inf, 1.2) for i in range(n)])
    raise ValueError(kind)


problems = []
n_states = 0
n_runs = 0
n_restarts = 0
n_stripped = 0


class Chain:
    """One problem, possibly solved through a chain of restarts; counts every call."""

    def __init__(self, tag, fun, jac, jac_mode):
        self.tag, self.fun, self.jac, self.jac_mode = tag, fun, jac, jac_mode
        self.nf = 0
        self.ng = 0

    def F(self, x):
        self.nf += 1
        return self.fun(x)

    def G(self, x):
        self.ng += 1
        return self.jac(x)

    def check(self, where, st):
        global n_states
        n_states += 1
        tag = f"[{self.tag}] {where}"
        x = np.array(st.x, dtype=float, copy=True)
        s = st.get("scaling_factor", 1.0)
        if st.nfev != self.nf:
            problems.append(f"{tag}: nfev={st.nfev} but {self.nf} calls to fun made")
        if self.jac_mode == "callable":
            if st.njev != self.ng:
                problems.append(f"{tag}: njev={st.njev} but {self.ng} calls to jac made")
            grad_computed = self.ng > 0
        else:
            grad_computed = st.njev > 0
        if not grad_computed:
            return  # the property says nothing before a first gradient
        want_f = self.fun(x) * s
        if not (st.fun == want_f or (np.isnan(st.fun) and np.isnan(want_f))):
            problems.append(f"{tag}: fun={st.fun!r} but f(x)*s={want_f!r} (s={s!r})")
        if self.jac_mode == "callable":
            want_g = self.jac(x) * s
            if not np.array_equal(np.asarray(st.jac), want_g, equal_nan=True):
                problems.append(f"{tag}: jac={st.jac!r} but g(x)*s={want_g!r}")

    def run(self, where, x0, checkpoint=None, stop_at_nit=None, **opts):
        global n_runs
        n_runs += 1

        def cb(xk, st):
            self.check(f"{where} callback nit={st.nit}", st)
            if not np.array_equal(xk, st.x):
                problems.append(f"[{self.tag}] {where}: callback xk != state.x")
            return stop_at_nit is not None and st.nit >= stop_at_nit

        kw = dict(x0=x0, fun=self.F, callback=cb, checkpoint=checkpoint)
        kw["jac"] = self.G if self.jac_mode == "callable" else self.jac_mode
        kw.update(opts)
        res = minimize_lbfgsb(**kw)
        self.check(f"{where} result ({res.message})", res)
        return res


# -------------------------------------------- (i) behaviour that patch c changes
def stripped(ckp, drop):
    out = OptimizeResult(ckp)
    for k in drop:
        if k == "jac_none":
            out["jac"] = None
        else:
            del out[k]
    return out


print("(i) restart from a checkpoint stripped of fun / jac:")
SUPPORTS_STRIPPED = True
ch = Chain("probe rosen", rosen_f, rosen_g, "callable")
x0 = np.array([-1.0, -1.0, 0.5])
first = ch.run("probe run0", x0, maxiter=4, bounds=make_bounds("box", 3))
for drop in (("jac",), ("fun",), ("fun", "jac"), ("jac_none",)):
    # every probe forks from the same checkpoint: calls made so far = its counters
    ch.nf, ch.ng = first.nfev, first.njev
    try:
        r = ch.run(
            f"probe restart without {drop}", first.x,
            checkpoint=stripped(first, drop), maxiter=8, bounds=make_bounds("box", 3),
        )
        print(
            f"    without {drop}: ACCEPTED, nit {first.nit}->{r.nit}, "
            f"nfev {first.nfev}->{r.nfev}, njev {first.njev}->{r.njev}, fun={r.fun!r}"
        )
    except Exception as e:  # unmodified code
        SUPPORTS_STRIPPED = False
        print(f"    without {drop}: REJECTED with {type(e).__name__}: {e}")
print(
    "    => this tree "
    + ("evaluates the missing fields (patch c behaviour)" if SUPPORTS_STRIPPED
       else "rejects such checkpoints (unmodified behaviour)")
)

# ------------------------------------------------------- (ii) the stress proper
rng = np.random.default_rng(20260927)
jac_modes = ["callable", "callable", None, "2-point", "3-point", "cs"]
combos = list(itertools.product(OBJECTIVES, ["free", "box", "tight", "half"], SCALERS))
for idx, (oname, bkind, sname) in enumerate(combos):
    fun, jac = OBJECTIVES[oname]
    n = int(rng.integers(2, 7))
    jac_mode = jac_modes[idx % len(jac_modes)]
    if jac_mode == "cs" and oname not in ("quad", "rosen", "quartic"):
        jac_mode = "callable"
    bounds = make_bounds(bkind, n)
    x0 = rng.uniform(-1.4, 1.4, n)
    if bounds is not None:
        x0 = np.clip(x0, bounds[:, 0], bounds[:, 1])
        if idx % 3 == 0:  # start with a variable exactly on a bound
            j = int(rng.integers(0, n))
            x0[j] = bounds[j, 0] if np.isfinite(bounds[j, 0]) else bounds[j, 1]
    opts = dict(
        bounds=bounds,
        maxcor=int(rng.integers(1, 8)),
        maxls=int(rng.choice([2, 3, 5, 20])),
        ftol=float(rng.choice([1e-3, 1e-8, 1e-14])),
        gtol=float(rng.choice([1e-3, 1e-9])),
        gradient_scaler=SCALERS[sname],
    )
    if idx % 5 == 0:
        opts["update_fun_def"] = identity_update
    if idx % 7 == 0:
        opts["ftarget"] = float(fun(np.asarray(x0)) - 0.3)
    tag = f"{oname} n={n} bounds={bkind} scaler={sname} jac={jac_mode} #{idx}"
    ch = Chain(tag, fun, jac, jac_mode)
    try:
        # single run, sometimes stopped by the callback or by a tiny budget
        kind = idx % 4
        if kind == 0:
            res = ch.run("run0", x0, maxiter=int(rng.integers(1, 6)), **opts)
        elif kind == 1:
            res = ch.run("run0", x0, maxiter=40, maxfun=int(rng.integers(3, 12)), **opts)
        elif kind == 2:
            res = ch.run("run0", x0, maxiter=40, stop_at_nit=int(rng.integers(1, 4)), **opts)
        else:
            res = ch.run("run0", x0, maxiter=3, **opts)
        # chain of restarts, with changing options and (if supported) stripped fields
        ropts = dict(opts)
        ropts.pop("gradient_scaler")  # ignored on restart anyway; keep the same factor
        for k in range(1, 4):
            n_restarts += 1
            ckp = res
            if SUPPORTS_STRIPPED and (idx + k) % 3 == 0:
                ckp = stripped(res, [("jac",), ("fun",), ("fun", "jac"), ("jac_none",)][(idx + k) % 4])
                n_stripped += 1
            ropts["maxcor"] = int(rng.integers(1, 8))
            res = ch.run(
                f"restart{k}", res.x, checkpoint=ckp,
                maxiter=res.nit + int(rng.integers(0, 5)),
                maxfun=res.nfev + int(rng.integers(1, 30)),
                **ropts,
            )
    except Exception as e:
        problems.append(f"[{tag}] raised {type(e).__name__}: {e}")

print(
    f"(ii) checked {n_states} states over {n_runs} runs "
    f"({n_restarts} restarts, {n_stripped} from stripped checkpoints)"
)
if problems:
    print("C05 VIOLATED:")
    for p in problems[:15]:
        print("  " + p)
    print(f"  ({len(problems)} problems in total)")
    sys.exit(1)
print("C05 held everywhere")
sys.exit(0)
