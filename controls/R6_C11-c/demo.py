"""
Stress script for the CONTROL change (c) against property C11.

C11: for a feasible start, a feasible descent direction and any objective, the
line search evaluates only points inside the box, uses at most the allowed
number of evaluations, and either returns None or a step in
(0, max feasible step] whose objective value is strictly lower than at the start.

(i)  shows that behaviour differs from the unmodified code on a fixed input
     (reference values of the unmodified tree are hard-coded below);
(ii) checks C11 on many varied inputs, directly on `line_search` and inside
     `minimize_lbfgsb` (every line search of full runs, including a restart
     from a checkpoint and an on-the-fly update of the objective).

Exit status 0 when the property held everywhere (expected with patch c AND on the
unmodified tree), 1 otherwise.
"""
import sys

import numpy as np
import lbfgsb.main as lmain
from lbfgsb import minimize_lbfgsb
from lbfgsb.linesearch import line_search
from lbfgsb.scalar_function import ScalarFunction

failures = []
n_checked = 0
n_none = 0


def true_max_step(x, d, lb, ub):
    t = np.inf
    for i in range(x.size):
        if d[i] > 0:
            t = min(t, (ub[i] - x[i]) / d[i])
        elif d[i] < 0:
            t = min(t, (lb[i] - x[i]) / d[i])
    return t


# --------------------------------------------------------------------------
# objectives (value, gradient)
# --------------------------------------------------------------------------
def f_osc(x):
    return float(np.sum(x**2) + 3.0 * np.sum(np.sin(5.0 * x)))


def g_osc(x):
    return 2.0 * x + 15.0 * np.cos(5.0 * x)


def f_fast(x):  # fast oscillations, tiny basin structure
    return float(np.sum(np.cos(40.0 * x)) + 0.1 * np.sum(x))


def g_fast(x):
    return -40.0 * np.sin(40.0 * x) + 0.1


def f_rosen(x):
    return float(np.sum(100.0 * (x[1:] - x[:-1] ** 2) ** 2 + (1 - x[:-1]) ** 2)) + (
        (x[0] - 1) ** 2 if x.size == 1 else 0.0
    )


def g_rosen(x):
    if x.size == 1:
        return 2.0 * (x - 1)
    g = np.zeros_like(x)
    g[:-1] += -400.0 * x[:-1] * (x[1:] - x[:-1] ** 2) - 2.0 * (1 - x[:-1])
    g[1:] += 200.0 * (x[1:] - x[:-1] ** 2)
    return g


def f_scaled(x):  # convex, badly scaled
    w = 10.0 ** np.linspace(-3, 3, x.size)
    return float(0.5 * np.sum(w * (x - 0.3) ** 2))


def g_scaled(x):
    w = 10.0 ** np.linspace(-3, 3, x.size)
    return w * (x - 0.3)


def f_offset(x):  # decrease below one ulp of f
    return 1e10 + 1e-7 * float(np.sum((x - 1.0) ** 2))


def g_offset(x):
    return 2e-7 * (x - 1.0)


def f_plateau(x):  # exactly flat inside the unit cube
    return float(np.sum(np.maximum(np.abs(x) - 1.0, 0.0) ** 2))


def g_plateau(x):
    return 2.0 * np.maximum(np.abs(x) - 1.0, 0.0) * np.sign(x)


def f_cubic(x):  # comes back to f(0) = 0 at the stationary point s = 1
    s = float(x[0])
    return -s * (1.0 - s) ** 2 + 0.0


def g_cubic(x):
    s = float(x[0])
    g = np.zeros_like(x)
    g[0] = -((1.0 - s) ** 2) + 2.0 * s * (1.0 - s)
    return g


def f_concave(x):  # unbounded below along d: runs into stpmax
    return float(-np.sum(x**2) - np.sum(x))


def g_concave(x):
    return -2.0 * x - 1.0


OBJECTIVES = {
    "oscillating": (f_osc, g_osc),
    "fast-oscillating": (f_fast, g_fast),
    "rosenbrock": (f_rosen, g_rosen),
    "badly-scaled": (f_scaled, g_scaled),
    "offset": (f_offset, g_offset),
    "plateau": (f_plateau, g_plateau),
    "cubic-return": (f_cubic, g_cubic),
    "concave": (f_concave, g_concave),
}


def check_direct(name, x0, lb, ub, t, above_iter, cap, tols):
    """One call of line_search, all clauses of C11 checked from outside."""
    global n_checked, n_none
    fun, grad = OBJECTIVES[name]
    record = []

    def rfun(x):
        record.append(np.array(x, copy=True))
        return fun(x)

    f0 = fun(x0)
    g0 = grad(x0)
    d = np.clip(x0 - t * g0, lb, ub) - x0
    if not g0.dot(d) < 0:
        return None
    sf = ScalarFunction(rfun, x0, (), grad, None, (lb, ub))
    is_boxed = bool(np.all(np.isfinite(lb)) and np.all(np.isfinite(ub)))
    with np.errstate(all="ignore"):
        stp = line_search(
            x0, f0, g0, d, lb, ub, above_iter, 1e8, is_boxed, sf,
            max_iter=cap, iprint=-1, **tols,
        )  # fmt: skip
    n_checked += 1
    tag = f"[direct {name} n={x0.size} iter={above_iter} cap={cap} {tols}]"
    pts = np.array(record)
    if pts.size and ((pts < lb) | (pts > ub)).any():
        failures.append(f"{tag} evaluation outside the box")
    if len(record) > cap:
        failures.append(f"{tag} {len(record)} evaluations > cap {cap}")
    if stp is None:
        n_none += 1
        return None
    tmax = min(1e8, true_max_step(x0, d, lb, ub))
    if not (0.0 < stp <= tmax * (1 + 1e-12)):
        failures.append(f"{tag} step {stp} outside (0, {tmax}]")
    fnew = fun(np.clip(x0 + stp * d, lb, ub))
    if not fnew < f0:
        failures.append(f"{tag} step {stp}: f = {fnew!r} not < f0 = {f0!r}")
    return stp


# --------------------------------------------------------------------------
# (i) behaviour differs from the unmodified code
# --------------------------------------------------------------------------
REF_UNMODIFIED_STEP = 1.0
lb_i = np.array([-2.0, -3.0])
ub_i = np.array([2.5, 3.0])
x_i = np.array([-1.9, -2.6])
stp_i = check_direct("oscillating", x_i, lb_i, ub_i, 0.1, 1, 10, {})
g_i = g_osc(x_i)
d_i = np.clip(x_i - 0.1 * g_i, lb_i, ub_i) - x_i
print("(i) fixed input: oscillating objective, x0 = [-1.9, -2.6], iter 1, cap 10")
print(f"    unmodified code returns step {REF_UNMODIFIED_STEP!r} "
      f"(f = {f_osc(np.clip(x_i + REF_UNMODIFIED_STEP * d_i, lb_i, ub_i)):.6f}, "
      "lowest trial, curvature condition violated)")  # fmt: skip
print(f"    this tree returns step      {float(stp_i)!r} "
      f"(f = {f_osc(np.clip(x_i + stp_i * d_i, lb_i, ub_i)):.6f}), "
      f"f0 = {f_osc(x_i):.6f}")  # fmt: skip
print("    ->", "DIFFERENT from" if stp_i != REF_UNMODIFIED_STEP else "same as",
      "the unmodified code")  # fmt: skip

# --------------------------------------------------------------------------
# (ii-a) many direct calls
# --------------------------------------------------------------------------
rng = np.random.default_rng(2011)
TOLS = [
    {},
    {"ftol": 1e-4, "gtol": 0.9, "xtol": 0.1},
    {"ftol": 0.0, "gtol": 0.9, "xtol": 0.1},
    {"ftol": 1e-3, "gtol": 0.1, "xtol": 1e-5},
    {"ftol": 0.3, "gtol": 0.5, "xtol": 0.5},
    {"ftol": 1e-3, "gtol": 0.0, "xtol": 0.0},
    {"ftol": 0.0, "gtol": 0.0, "xtol": 0.0},
]
names = list(OBJECTIVES)
for k in range(4200):
    name = names[k % len(names)]
    n = int(rng.integers(1, 6))
    lb = -1.0 - 3.0 * rng.random(n)
    ub = 1.0 + 3.0 * rng.random(n)
    kind = rng.integers(0, 5)
    if kind == 1:  # half infinite box
        lb[rng.integers(0, n)] = -np.inf
    elif kind == 2:  # unbounded
        lb[:] = -np.inf
        ub[:] = np.inf
    elif kind == 3 and n > 1:  # one fixed variable
        j = rng.integers(0, n)
        ub[j] = lb[j]
    lo = np.where(np.isfinite(lb), lb, -4.0)
    hi = np.where(np.isfinite(ub), ub, 4.0)
    x0 = lo + rng.random(n) * (hi - lo)
    if kind == 4:  # start on some bounds
        m = rng.random(n) < 0.5
        x0[m] = np.where(rng.random(n) < 0.5, lo, hi)[m]
    if name in ("offset",):
        t = 10.0 ** rng.uniform(5, 7)
    elif name in ("cubic-return", "plateau"):
        t = float(rng.choice([1.0, 0.5, 0.25, 2.0]))
        if name == "cubic-return" and rng.random() < 0.5:
            x0[0] = 0.0
    else:
        t = 10.0 ** rng.uniform(-3, 0.5)
    check_direct(
        name, x0, lb, ub, t, int(rng.integers(0, 6)), int(rng.integers(1, 21)),
        TOLS[int(rng.integers(0, len(TOLS)))],
    )  # fmt: skip

# --------------------------------------------------------------------------
# (ii-b) every line search inside full solver runs (wrapped), with a restart
#        from a checkpoint and an on-the-fly update of the objective
# --------------------------------------------------------------------------
_orig_ls = lmain.line_search
n_solver_ls = 0


def checked_line_search(x0, f0, g0, d, lb, ub, above_iter, max_user, is_boxed, sf,
                        ftol, gtol, xtol, max_iter, iprint, logger):  # fmt: skip
    global n_solver_ls
    n_solver_ls += 1
    seen = []
    raw = current["fun"]
    current["record"] = seen
    stp = _orig_ls(x0, f0, g0, d, lb, ub, above_iter, max_user, is_boxed, sf,
                   ftol, gtol, xtol, max_iter, iprint, logger)  # fmt: skip
    current["record"] = None
    tag = f"[solver {current['name']} nit={above_iter} cap={max_iter}]"
    pts = np.array(seen)
    if pts.size and ((pts < lb) | (pts > ub)).any():
        failures.append(f"{tag} evaluation outside the box")
    if len(seen) > max_iter:
        failures.append(f"{tag} {len(seen)} evaluations > cap {max_iter}")
    if stp is not None:
        tmax = min(max_user, true_max_step(x0, d, lb, ub))
        if not (0.0 < stp <= tmax * (1 + 1e-12)):
            failures.append(f"{tag} step {stp} outside (0, {tmax}]")
        if not raw(np.clip(x0 + stp * d, lb, ub)) < raw(x0):
            failures.append(f"{tag} step {stp} is not strictly downhill")
    return stp


lmain.line_search = checked_line_search
current = {"fun": None, "name": "", "record": None}


def recorded(fun):
    def wrapped(x):
        if current["record"] is not None:
            current["record"].append(np.array(x, copy=True))
        return fun(x)

    return wrapped


summary = []
for name, n, maxls in (
    ("oscillating", 4, 20), ("fast-oscillating", 3, 5), ("rosenbrock", 5, 20),
    ("badly-scaled", 6, 3), ("offset", 3, 20), ("concave", 3, 2), ("plateau", 4, 20),
):  # fmt: skip
    fun, grad = OBJECTIVES[name]
    for trial in range(3):
        lb = -1.5 - rng.random(n)
        ub = 1.5 + rng.random(n)
        if trial == 2:
            ub[0] = np.inf
        x0 = np.clip(rng.uniform(-2, 2, n), lb, ub)
        current.update(fun=fun, name=name)
        bounds = np.array([lb, ub]).T
        with np.errstate(all="ignore"):
            r1 = minimize_lbfgsb(x0=x0, fun=recorded(fun), jac=grad, bounds=bounds,
                                 maxiter=6, maxls=maxls, iprint=-1)  # fmt: skip
            # restart from the checkpoint
            r2 = minimize_lbfgsb(x0=r1.x, fun=recorded(fun), jac=grad, bounds=bounds,
                                 maxiter=14, maxls=maxls, checkpoint=r1,
                                 iprint=-1)  # fmt: skip
        if trial == 0:
            summary.append(f"{name}: nit={r2.nit} nfev={r2.nfev} f={r2.fun:.12g}")

# on-the-fly update of the objective: weight of a penalty lowered at each iteration
state = {"w": 20.0}


def f_upd(x):
    return f_osc(x) + state["w"] * float(np.sum((x - 0.5) ** 2))


def g_upd(x):
    return g_osc(x) + 2.0 * state["w"] * (x - 0.5)


def update_fun_def(x, f0, f0_old, grad, X, G):
    w_old = state["w"]
    state["w"] = max(w_old * 0.8, 0.5)
    dw = state["w"] - w_old
    f_new = f0 + dw * float(np.sum((x - 0.5) ** 2))
    f_old_new = f_new if f0_old == f0 else f0_old  # old value kept: f only decreases
    grad_new = grad + 2.0 * dw * (x - 0.5)
    G_new = type(G)(g + 2.0 * dw * (xx - 0.5) for g, xx in zip(G, X))
    return f_new, f_old_new, grad_new, G_new


lb = np.array([-2.0, -2.0, -3.0])
ub = np.array([2.0, 3.0, 2.0])
current.update(fun=f_upd, name="on-the-fly")
with np.errstate(all="ignore"):
    r3 = minimize_lbfgsb(x0=np.array([-1.7, 2.2, -2.5]), fun=recorded(f_upd), jac=g_upd,
                         bounds=np.array([lb, ub]).T, maxiter=25,
                         update_fun_def=update_fun_def, iprint=-1)  # fmt: skip
summary.append(f"on-the-fly: nit={r3.nit} nfev={r3.nfev} f={r3.fun:.12g} ({r3.message})")
lmain.line_search = _orig_ls

print("(ii) full runs (first start of each family, after restart):")
for s in summary:
    print("    ", s)
print(f"     {n_checked} direct line searches ({n_none} returned None), "
      f"{n_solver_ls} line searches inside solver runs")  # fmt: skip

if failures:
    print("C11 VIOLATED:")
    for msg in failures[:10]:
        print("  -", msg)
    print(f"  ({len(failures)} failing checks in total)")
    sys.exit(1)
print("C11 held on every checked input")
sys.exit(0)
