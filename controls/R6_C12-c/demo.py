"""Stress script for control patch c (C12).

(i)  shows that the behaviour of the port differs from the unmodified code on one
     input (a linear objective, on which the line search extrapolates until it meets
     the upper limit of the step): the values of the unmodified tree are recorded
     below and compared with what the imported package does;
(ii) checks property C12 on many varied inputs:
       - unconstrained QP+quartic, QP+softplus (several n, conditionings, weights)
         and Rosenbrock (n <= 8), random starts, maxcor 1..8: every point at which
         the objective is evaluated in the first 12 iterations is compared with the
         one of scipy.optimize.minimize(method="L-BFGS-B") until the reference enters
         the round-off regime; runs in which one of the three documented deviations
         of the port is triggered are skipped (and counted);
       - convex box-constrained problems (two-sided, one-sided, partly unbounded
         boxes, starts inside or on the boundary), also through a restart from a
         checkpoint: same final objective value as the reference.
Exit 0 when the property held everywhere (it must, with or without patch c), 1
otherwise.
"""
import sys
import warnings

warnings.filterwarnings("ignore")
import numpy as np
from scipy.optimize import minimize

from lbfgsb import minimize_lbfgsb


class Rec:
    """Objective wrapper recording each distinct evaluation point."""

    def __init__(self, f, g):
        self.f, self.g, self.pts = f, g, []

    def _rec(self, x):
        x = np.array(x, dtype=float)
        if not self.pts or not np.array_equal(self.pts[-1], x):
            self.pts.append(x)

    def fun(self, x):
        self._rec(x)
        return float(self.f(x))

    def jac(self, x):
        self._rec(x)
        return np.asarray(self.g(x), dtype=float)

    def fg(self, x):
        self._rec(x)
        return float(self.f(x)), np.asarray(self.g(x), dtype=float)


def make_qp_quartic(n, seed, cond=30.0, q=0.05):
    rng = np.random.default_rng(seed)
    Q, _ = np.linalg.qr(rng.standard_normal((n, n)))
    ev = np.logspace(0, np.log10(cond), n)
    A = Q @ np.diag(ev) @ Q.T
    A = 0.5 * (A + A.T)
    b = rng.standard_normal(n) * 3

    def f(x):
        return 0.5 * x @ A @ x - b @ x + q * np.sum(x**4)

    def g(x):
        return A @ x - b + 4 * q * x**3

    return f, g


def make_qp_softplus(n, seed, cond=20.0, w=1.0):
    rng = np.random.default_rng(seed)
    Q, _ = np.linalg.qr(rng.standard_normal((n, n)))
    ev = np.logspace(0, np.log10(cond), n)
    A = Q @ np.diag(ev) @ Q.T
    A = 0.5 * (A + A.T)
    b = rng.standard_normal(n) * 3
    C = rng.standard_normal((n, n))

    def f(x):
        return 0.5 * x @ A @ x - b @ x + w * np.sum(np.logaddexp(0.0, C @ x))

    def g(x):
        z = C @ x
        return A @ x - b + w * C.T @ (0.5 * (1 + np.tanh(0.5 * z)))

    return f, g


def rosen_f(x):
    return float(np.sum(100.0 * (x[1:] - x[:-1] ** 2) ** 2 + (1 - x[:-1]) ** 2))


def rosen_g(x):
    g = np.zeros_like(x)
    g[:-1] = -400 * x[:-1] * (x[1:] - x[:-1] ** 2) - 2 * (1 - x[:-1])
    g[1:] += 200 * (x[1:] - x[:-1] ** 2)
    return g


def run_port(f, g, x0, m, nit=12, bounds=None, **kw):
    r = Rec(f, g)
    opts = dict(ftol=0.0, gtol=0.0, maxiter=nit, maxcor=m)
    opts.update(kw)
    res = minimize_lbfgsb(x0=np.array(x0, float), fun=r.fun, jac=r.jac,
                          bounds=bounds, **opts)
    return r.pts, res


def run_ref(f, g, x0, m, nit=12, bounds=None):
    r = Rec(f, g)
    res = minimize(r.fg, np.array(x0, float), jac=True, method="L-BFGS-B",
                   bounds=bounds,
                   options=dict(maxcor=m, ftol=0.0, gtol=0.0, maxiter=nit,
                                maxls=20))
    return r.pts, res


def compare(pp, pr, rtol=1e-6, floor=1e-9):
    """Return (index, msg) of first disagreement, or None."""
    k = min(len(pp), len(pr))
    for i in range(k):
        scale = max(1.0, np.max(np.abs(pr[i])))
        err = np.max(np.abs(pp[i] - pr[i])) / scale
        if err > rtol:
            return i, f"evaluation #{i}: port {pp[i]} vs reference {pr[i]} (rel err {err:.2e})"
    if len(pp) != len(pr):
        return k, f"number of evaluations differs: port {len(pp)} vs reference {len(pr)}"
    return None


# values produced by the UNMODIFIED tree for the linear objective of part (i)
UNMODIFIED = dict(nfev=19, xnorm=1300000013.0)


def part_i():
    c = np.array([3.0, -4.0, 12.0])
    res = minimize_lbfgsb(x0=np.zeros(3), fun=lambda x: float(c @ x),
                          jac=lambda x: c.copy(), maxiter=2, ftol=0.0, gtol=0.0)
    now = dict(nfev=int(res.nfev), xnorm=float(np.linalg.norm(res.x)))
    if now == UNMODIFIED:
        print(f"(i) linear objective: {now} -- same as the unmodified code")
    else:
        print(f"(i) linear objective: behaviour DIFFERS from the unmodified code: "
              f"now {now}, unmodified {UNMODIFIED}")


def deviation_free(g, x0, pp):
    x0 = np.array(x0, float)
    g0 = g(x0)
    if np.linalg.norm(g0) <= 1.0:
        return False  # unit first step for short gradients
    for i in range(len(pp)):  # lowest trial accepted -> a point evaluated twice
        for j in range(i + 2, len(pp)):
            if np.array_equal(pp[i], pp[j]):
                return False
    cap = x0 - g0  # first-iteration cap: a trial at x0 + 1.0 * d, d = -g0
    if any(np.allclose(p, cap, rtol=1e-12, atol=0) for p in pp[:8]):
        return False
    return True


def roundoff_cut(g, pr):
    """Number of leading reference evaluations that are outside the round-off regime."""
    g0 = np.linalg.norm(g(pr[0]))
    for k, p in enumerate(pr):
        if np.linalg.norm(g(p)) < 1e-6 * max(1.0, g0):
            return k
    return len(pr)


def part_unconstrained():
    rng = np.random.default_rng(2024)
    nchk = nskip = bad = 0
    for rep in range(150):
        m = int(rng.integers(1, 9))
        for fam in ("rosen", "quartic", "softplus"):
            if fam == "rosen":
                n = int(rng.integers(2, 9))
                f, g = rosen_f, rosen_g
                x0 = np.round(rng.uniform(-2.5, 2.5, n), 2)
            elif fam == "quartic":
                n = int(rng.choice([2, 3, 5, 8, 13, 30]))
                f, g = make_qp_quartic(n, rep, cond=float(rng.choice([3, 30, 300])),
                                       q=float(rng.choice([0.0, 0.05, 1.0])))
                x0 = np.round(rng.standard_normal(n) * rng.choice([0.5, 2, 6]), 3)
            else:
                n = int(rng.choice([2, 4, 8, 20]))
                f, g = make_qp_softplus(n, rep, cond=float(rng.choice([3, 30, 300])),
                                        w=float(rng.choice([0.3, 1.0, 5.0])))
                x0 = np.round(rng.standard_normal(n) * rng.choice([0.5, 2, 6]), 3)
            pp, rp = run_port(f, g, x0, m)
            pr, rr = run_ref(f, g, x0, m)
            if not deviation_free(g, x0, pp):
                nskip += 1
                continue
            k = roundoff_cut(g, pr)
            if k < len(pr):   # reference reached round-off: compare up to there
                if len(pp) < k:
                    c = (len(pp), f"port stopped after {len(pp)} evaluations, "
                                  f"reference still far from round-off ({k})")
                else:
                    c = compare(pp[:k], pr[:k])
            else:
                c = compare(pp, pr)
            nchk += 1
            if c is not None:
                bad += 1
                print(f"C12 VIOLATED [{fam} n={n} maxcor={m} x0={x0.tolist()}]: {c[1]}")
    print(f"(ii) unconstrained: {nchk} runs compared evaluation by evaluation, "
          f"{nskip} skipped (documented deviation), {bad} violations")
    return bad


def part_box():
    rng = np.random.default_rng(77)
    bad = n_runs = 0
    for rep in range(40):
        n = int(rng.choice([2, 4, 7, 12]))
        m = int(rng.integers(1, 9))
        if rep % 2:
            f, g = make_qp_quartic(n, 500 + rep, cond=30.0, q=0.05)
        else:
            f, g = make_qp_softplus(n, 500 + rep, cond=30.0, w=1.0)
        lo = -np.abs(rng.standard_normal(n)) - 0.1
        hi = np.abs(rng.standard_normal(n)) + 0.1
        shift = rng.standard_normal(n)
        lo, hi = lo + shift, hi + shift
        kind = rep % 4
        if kind == 1:
            hi[::2] = np.inf           # one-sided
        elif kind == 2:
            lo[1::2] = -np.inf
            hi[::3] = np.inf           # partly unbounded
        x0 = np.where(np.isfinite(lo), lo, shift - 1) * 0.5 + \
            np.where(np.isfinite(hi), hi, shift + 1) * 0.5
        if kind == 3:
            x0 = np.where(rng.random(n) < 0.5, lo, x0)   # start on the boundary
        bounds = np.array((lo, hi)).T
        ref = minimize(lambda x: (f(x), g(x)), x0, jac=True, method="L-BFGS-B",
                       bounds=bounds,
                       options=dict(maxcor=m, ftol=1e-14, gtol=1e-9, maxiter=2000))
        kw = dict(fun=f, jac=g, bounds=bounds, maxcor=m, ftol=1e-14, gtol=1e-9)
        res = minimize_lbfgsb(x0=x0, maxiter=2000, **kw)
        # the same through a restart from a checkpoint after 4 iterations
        chk = minimize_lbfgsb(x0=x0, maxiter=4, **kw)
        res2 = minimize_lbfgsb(x0=chk.x, maxiter=2000, checkpoint=chk, **kw)
        for tag, r in (("direct", res), ("checkpoint restart", res2)):
            n_runs += 1
            tol = 1e-7 * (1.0 + abs(ref.fun))
            if not abs(r.fun - ref.fun) <= tol:
                bad += 1
                print(f"C12 VIOLATED [box rep={rep} n={n} maxcor={m} {tag}]: "
                      f"port f={r.fun!r} ('{r.message}') vs reference f={ref.fun!r}")
    print(f"(ii) convex box problems: {n_runs} runs, {bad} violations")
    return bad


def main():
    part_i()
    bad = part_unconstrained() + part_box()
    print("C12 held on every input" if not bad else f"{bad} VIOLATIONS")
    return 1 if bad else 0


if __name__ == "__main__":
    sys.exit(main())
