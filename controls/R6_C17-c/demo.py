"""
C17 stress script for the CONTROL patch (c).

(i)  Shows whether the behaviour of this tree differs from the unmodified code: on a
     few reference inputs the unmodified code evaluates the accepted point of some line
     searches twice (reference counters are hard-coded below); with patch (c) those
     repeated evaluations are gone and nfev / njev are smaller.
(ii) Checks property C17 on many varied inputs: running with a gradient scaler
     returning s visits exactly the same points and returns exactly the same x, fun,
     jac, counters and correction pairs as running without a scaler on s*f; the scaler
     is invoked once with (start point, unscaled gradient, bounds); the target stop is
     tested on the unscaled value.  Cold starts, restarts from a checkpoint, on-the-fly
     updates of the objective (update_fun_def), finite-difference gradients, several
     option sets, constant scalers in [1e-3, 1e3] and the packaged unit scaler.

Exit status 0 when the property held everywhere (with or without patch c), 1 otherwise.
"""

import os
import sys
from collections import deque

# tiny matrices: BLAS threads only slow things down
for _v in ("OMP_NUM_THREADS", "OPENBLAS_NUM_THREADS", "MKL_NUM_THREADS"):
    os.environ.setdefault(_v, "1")

import numpy as np  # noqa: E402

from lbfgsb import benchmarks as bm  # noqa: E402
from lbfgsb import get_gradient_projection_unit_scaling, minimize_lbfgsb  # noqa: E402

failures = []
n_checked = 0


class Rec:
    """Objective s*f / gradient s*grad f recording the visited points."""

    def __init__(self, f, g, s=1.0):
        self.f, self.g, self.s = f, g, s
        self.fx, self.gx = [], []

    def fun(self, x):
        self.fx.append(np.array(x, copy=True))
        return self.s * self.f(x)

    def grad(self, x):
        self.gx.append(np.array(x, copy=True))
        return self.s * self.g(x)


def same_points(p, q):
    return len(p) == len(q) and all(np.array_equal(a, b) for a, b in zip(p, q))


def compare(tag, A, B, ra, rb):
    global n_checked
    n_checked += 1
    bad = []
    if not same_points(ra.fx, rb.fx):
        bad.append(f"points where f is evaluated differ ({len(ra.fx)} vs {len(rb.fx)})")
    if not same_points(ra.gx, rb.gx):
        bad.append(f"points where grad is evaluated differ ({len(ra.gx)} vs {len(rb.gx)})")
    for k in ("x", "fun", "jac"):
        if not np.array_equal(np.asarray(A[k]), np.asarray(B[k])):
            bad.append(f"{k}: {A[k]!r} vs {B[k]!r}")
    for k in ("nfev", "njev", "nit", "status", "message", "success"):
        if A[k] != B[k]:
            bad.append(f"{k}: {A[k]!r} vs {B[k]!r}")
    for k in ("sk", "yk"):
        if not np.array_equal(getattr(A.hess_inv, k), getattr(B.hess_inv, k)):
            bad.append(f"correction pairs {k} differ")
    for b in bad:
        failures.append(f"[{tag}] scaler run vs run on s*f: {b}")
    return not bad


def make_scaler(scaler, calls):
    def counting_scaler(x, grad, lb, ub):
        calls.append((x.copy(), grad.copy(), lb.copy(), ub.copy()))
        return scaler(x, grad, lb, ub)

    return counting_scaler


def check_scaler_call(tag, calls, x0, g0, bounds):
    if len(calls) != 1:
        failures.append(f"[{tag}] scaler invoked {len(calls)} times")
        return False
    cx, cg, clb, cub = calls[0]
    lb = np.array([-np.inf if b[0] is None else b[0] for b in bounds], dtype=float)
    ub = np.array([np.inf if b[1] is None else b[1] for b in bounds], dtype=float)
    if not (np.array_equal(cx, x0) and np.array_equal(cg, g0)
            and np.array_equal(clb, lb) and np.array_equal(cub, ub)):
        failures.append(f"[{tag}] scaler not called with (x0, grad f(x0), lb, ub)")
        return False
    return True


def const(s):
    return lambda x, grad, lb, ub: s


# --------------------------------------------------------------------------- cold start
def check_cold(tag, f, g, x0, bounds, scaler, target_factor=None, **kw):
    """Cold start.  target_factor: ftarget = target_factor * f(x0) on the unscaled f
    (only used with power-of-two s so that s*t is the same test exactly)."""
    calls = []
    ra = Rec(f, g)
    kwa = dict(kw)
    t = None
    if target_factor is not None:
        t = target_factor * f(x0)
        kwa["ftarget"] = t
    A = minimize_lbfgsb(x0=x0.copy(), fun=ra.fun, jac=ra.grad, bounds=bounds,
                        gradient_scaler=make_scaler(scaler, calls), **kwa)
    if not check_scaler_call(tag, calls, x0, g(x0), bounds):
        return
    s = float(scaler(*calls[0]))
    rb = Rec(f, g, s)
    kwb = dict(kw)
    if t is not None:
        kwb["ftarget"] = s * t
    B = minimize_lbfgsb(x0=x0.copy(), fun=rb.fun, jac=rb.grad, bounds=bounds, **kwb)
    compare(f"{tag} s={s:.6g}", A, B, ra, rb)
    # results are the scaled values at the returned point
    if not np.array_equal(A.fun, s * f(A.x)) or not np.array_equal(A.jac, s * g(A.x)):
        failures.append(f"[{tag} s={s:.6g}] returned fun/jac are not s*f(x), s*grad f(x)")
    if t is not None:
        # target stop decided on the unscaled value: the run stops with F_<=_TARGET
        # exactly at the first accepted iterate whose unscaled value is <= t
        said = A.message == "CONVERGENCE: F_<=_TARGET"
        if said != (f(A.x) <= t):
            failures.append(
                f"[{tag} s={s:.6g}] message {A.message!r} but unscaled f(x)={f(A.x):.6g},"
                f" target {t:.6g}")


# --------------------------------------------------------------- finite differences
def check_fd(tag, f, x0, bounds, s, jac, **kw):
    """Finite-difference gradient: s must be a power of two (exact scaling)."""
    calls = []
    fa, fb = [], []

    def fun_a(x):
        fa.append(x.copy())
        return f(x)

    def fun_b(x):
        fb.append(x.copy())
        return s * f(x)

    global n_checked
    n_checked += 1
    A = minimize_lbfgsb(x0=x0.copy(), fun=fun_a, jac=jac, bounds=bounds,
                        gradient_scaler=make_scaler(const(s), calls), **kw)
    B = minimize_lbfgsb(x0=x0.copy(), fun=fun_b, jac=jac, bounds=bounds, **kw)
    if len(calls) != 1 or not np.array_equal(calls[0][0], x0):
        failures.append(f"[{tag}] scaler invoked {len(calls)} times / wrong start point")
    bad = []
    if not same_points(fa, fb):
        bad.append(f"visited points differ ({len(fa)} vs {len(fb)})")
    for k in ("x", "fun", "jac"):
        if not np.array_equal(np.asarray(A[k]), np.asarray(B[k])):
            bad.append(f"{k} differs")
    for k in ("nfev", "njev", "nit", "status", "message"):
        if A[k] != B[k]:
            bad.append(f"{k}: {A[k]!r} vs {B[k]!r}")
    for k in ("sk", "yk"):
        if not np.array_equal(getattr(A.hess_inv, k), getattr(B.hess_inv, k)):
            bad.append(f"correction pairs {k} differ")
    for b in bad:
        failures.append(f"[{tag} s={s}] FD scaler run vs run on s*f: {b}")


# ------------------------------------------------------------------------- restart
def check_restart(tag, f, g, x0, bounds, scaler, n_first, target_factor=None, **kw):
    calls = []
    cs = make_scaler(scaler, calls)
    ra = Rec(f, g)
    A1 = minimize_lbfgsb(x0=x0.copy(), fun=ra.fun, jac=ra.grad, bounds=bounds,
                         maxiter=n_first, gradient_scaler=cs, **kw)
    if not check_scaler_call(tag, calls, x0, g(x0), bounds):
        return
    s = float(scaler(*calls[0]))
    rb = Rec(f, g, s)
    B1 = minimize_lbfgsb(x0=x0.copy(), fun=rb.fun, jac=rb.grad, bounds=bounds,
                         maxiter=n_first, **kw)
    compare(f"{tag} s={s:.6g} leg 1", A1, B1, ra, rb)
    kwa, kwb = dict(kw), dict(kw)
    t = None
    if target_factor is not None:
        t = target_factor * f(A1.x)
        kwa["ftarget"], kwb["ftarget"] = t, s * t
    ra2, rb2 = Rec(f, g), Rec(f, g, s)
    A2 = minimize_lbfgsb(x0=A1.x, fun=ra2.fun, jac=ra2.grad, bounds=bounds,
                         maxiter=n_first + 40, gradient_scaler=cs, checkpoint=A1, **kwa)
    B2 = minimize_lbfgsb(x0=B1.x, fun=rb2.fun, jac=rb2.grad, bounds=bounds,
                         maxiter=n_first + 40, checkpoint=B1, **kwb)
    compare(f"{tag} s={s:.6g} leg 2 (restart)", A2, B2, ra2, rb2)
    if len(calls) != 1:
        failures.append(f"[{tag}] scaler invoked {len(calls)} times over the chain")
    if t is not None:
        said = A2.message == "CONVERGENCE: F_<=_TARGET"
        if said != (f(A2.x) <= t):
            failures.append(f"[{tag} s={s:.6g}] restart: message {A2.message!r} but "
                            f"unscaled f(x)={f(A2.x):.6g}, target {t:.6g}")


# ----------------------------------------------------------- on-the-fly objective update
def check_update(tag, fbase, gbase, x0, bounds, s, switch_at=3, **kw):
    """
    Objective f(x) = fbase(x) + w * 0.5*|x|^2 whose weight w is changed once, on the
    fly, by `update_fun_def` (which rewrites f0, f0_old, grad and the gradient history
    accordingly).  The optimizer works on scaled values in both runs (factor s), the
    same update function is used for both.
    """
    w0, w1 = 0.05, 0.4

    def make(scale_in_objective):
        state = {"w": w0, "ncall": 0}
        fx = []

        def fun(x):
            fx.append(x.copy())
            return scale_in_objective * (fbase(x) + state["w"] * 0.5 * x.dot(x))

        def grad(x):
            return scale_in_objective * (gbase(x) + state["w"] * x)

        def update(x, f0, f0_old, gr, X, G):
            state["ncall"] += 1
            if state["ncall"] != switch_at:
                return f0, f0_old, gr, G
            dw = w1 - state["w"]
            state["w"] = w1
            # x is not yet in X when this is called: X = past iterates, G their gradients
            newG = deque(gi + s * dw * xi for xi, gi in zip(X, G))
            # previous value: rewritten with the new weight at the previous iterate
            f0_old_new = f0_old + s * dw * 0.5 * X[-1].dot(X[-1]) if len(X) else f0_old
            return (f0 + s * dw * 0.5 * x.dot(x), f0_old_new, gr + s * dw * x, newG)

        return fun, grad, update, fx

    calls = []
    fun_a, grad_a, upd_a, fxa = make(1.0)
    fun_b, grad_b, upd_b, fxb = make(s)
    global n_checked
    n_checked += 1
    A = minimize_lbfgsb(x0=x0.copy(), fun=fun_a, jac=grad_a, bounds=bounds,
                        update_fun_def=upd_a,
                        gradient_scaler=make_scaler(const(s), calls), **kw)
    B = minimize_lbfgsb(x0=x0.copy(), fun=fun_b, jac=grad_b, bounds=bounds,
                        update_fun_def=upd_b, **kw)
    if len(calls) != 1:
        failures.append(f"[{tag}] scaler invoked {len(calls)} times")
    bad = []
    if not same_points(fxa, fxb):
        bad.append(f"visited points differ ({len(fxa)} vs {len(fxb)})")
    for k in ("x", "fun", "jac"):
        if not np.array_equal(np.asarray(A[k]), np.asarray(B[k])):
            bad.append(f"{k} differs: {A[k]!r} vs {B[k]!r}")
    for k in ("nfev", "njev", "nit", "status", "message"):
        if A[k] != B[k]:
            bad.append(f"{k}: {A[k]!r} vs {B[k]!r}")
    for k in ("sk", "yk"):
        if not np.array_equal(getattr(A.hess_inv, k), getattr(B.hess_inv, k)):
            bad.append(f"correction pairs {k} differ")
    for b in bad:
        failures.append(f"[{tag} s={s}] update_fun_def: scaler run vs run on s*f: {b}")


# ------------------------------------------------------- (i) behaviour vs unmodified code
# (name, f, g, x0, nfev, njev, number of repeated evaluation points) measured with the
# UNMODIFIED code, no scaler, box [-4, 4]^n, maxiter=60, other options default.
REFERENCE = [
    ("rosenbrock", bm.rosenbrock, bm.rosenbrock_grad, np.array([1.032, -1.803, 2.653]),
     49, 49, 1),
    ("rastrigin", bm.rastrigin, bm.rastrigin_grad, np.array([2.492, -2.236]),
     20, 20, 1),
    ("ackley", bm.ackley, bm.ackley_grad, np.array([2.331, 0.789, -0.862]),
     53, 53, 1),
]


def box(n, lo=-4.0, hi=4.0):
    return np.array([(lo, hi)] * n)


def behaviour_vs_reference():
    differs = False
    for name, f, g, x0, nfev0, njev0, ndup0 in REFERENCE:
        r = Rec(f, g)
        res = minimize_lbfgsb(x0=x0.copy(), fun=r.fun, jac=r.grad, bounds=box(x0.size),
                              maxiter=60)
        ndup = len(r.fx) - len({a.tobytes() for a in r.fx})
        here = (res.nfev, res.njev, ndup)
        ref = (nfev0, njev0, ndup0)
        if here != ref:
            differs = True
            print(f"  {name} x0={x0.tolist()}: unmodified code nfev/njev/repeated points ="
                  f" {ref}, this tree = {here}  (x={res.x.tolist()}, nit={res.nit})")
        else:
            print(f"  {name} x0={x0.tolist()}: nfev/njev/repeated points = {here}"
                  " (same as the unmodified code)")
    return differs


def main():
    print("(i) behaviour compared with the unmodified code:")
    differs = behaviour_vs_reference()
    print("  => behaviour DIFFERS from the unmodified code" if differs
          else "  => same behaviour as the unmodified code")

    print("(ii) checking C17 ...")
    rng = np.random.default_rng(20240917)
    objectives = [
        ("rosenbrock", bm.rosenbrock, bm.rosenbrock_grad),
        ("rastrigin", bm.rastrigin, bm.rastrigin_grad),
        ("ackley", bm.ackley, bm.ackley_grad),
        ("griewank", bm.griewank, bm.griewank_grad),
        ("styblinski", bm.styblinski_tang, bm.styblinski_tang_grad),
        ("quartic", bm.quartic, bm.quartic_grad),
        ("beale", bm.beale, bm.beale_grad),
    ]
    # the starts known to give line searches whose best trial is not the last one
    special = [
        (0, np.array([1.032, -1.803, 2.653])),
        (1, np.array([2.492, -2.236])),
        (2, np.array([2.331, 0.789, -0.862])),
        (2, np.array([1.563, -2.341])),
        (3, np.array([-0.432, 2.058, -2.512, 2.251, 2.65])),
        (3, np.array([-0.223, -1.279, -1.625, 1.172, 1.174, -1.827])),
    ]
    starts = [(objectives[i], x0) for i, x0 in special]
    for obj in objectives:
        for _ in range(3):
            n = 2 if obj[0] == "beale" else int(rng.integers(2, 9))
            starts.append((obj, rng.uniform(-3.0, 3.0, n).round(3)))

    option_sets = [
        dict(maxiter=60),
        dict(maxiter=40, maxcor=3, ftol=1e-10, gtol=1e-8),
        dict(maxiter=40, maxls=4),
        dict(maxiter=30, ftol_linesearch=1e-4, gtol_linesearch=0.5, maxcor=5),
        dict(maxiter=60, maxfun=25),
    ]
    scalers = [const(1e-3), const(0.37), const(1.0), const(12.5), const(1e3),
               get_gradient_projection_unit_scaling]

    for k, ((name, f, g), x0) in enumerate(starts):
        n = x0.size
        boxes = [box(n), box(n, -3.0, 3.5),
                 np.array([(-4.0, None)] * n, dtype=object)]
        for j, scaler in enumerate(scalers):
            for m, opts in enumerate(option_sets):
                if (k + j + m) % 3 and k >= len(special):
                    continue  # thin out the random part of the cross product
                if (j + m) % 2 and k < len(special) and m > 0:
                    continue
                bounds = boxes[(k + j + m) % 3]
                check_cold(f"cold {name} x0={x0.tolist()} opts#{m} box#{(k + j + m) % 3}",
                           f, g, x0, bounds, scaler, **opts)
        # target stop (power-of-two factors so that s*t is the same test exactly)
        for s, tf in ((0.0625, 0.5), (8.0, 0.1), (512.0, 1e-3), (0.0625, 1e-3)):
            if True:
                if f(x0) > 0:
                    check_cold(f"target {name} x0={x0.tolist()} t={tf}*f(x0)", f, g, x0,
                               box(n), const(s), target_factor=tf, maxiter=60)
        # restarts from a checkpoint
        for s, nf, tf in ((0.37, 3, None), (8.0, 2, 0.5),
                          (0.0625, 4, 0.5), (8.0, 3, 2.0)):
            if tf is not None and f(x0) <= 0:
                continue
            check_restart(f"restart {name} x0={x0.tolist()} n_first={nf} t={tf}", f, g, x0,
                          box(n), const(s), nf, target_factor=tf, ftol=1e-12, gtol=1e-9)
        check_restart(f"restart {name} x0={x0.tolist()} packaged", f, g, x0, box(n),
                      get_gradient_projection_unit_scaling, 4, ftol=1e-12, gtol=1e-9)
        # finite differences (exact only for power-of-two factors)
        if k % 3 == 0:
            for s, jac in ((0.25, None), (16.0, "2-point"), (0.0625, "3-point")):
                check_fd(f"fd {name} x0={x0.tolist()} jac={jac}", f, x0, box(n), s, jac,
                         maxiter=25)
        # on-the-fly update of the objective
        if k % 2 == 0:
            for s in (0.37, 12.5):
                check_update(f"update {name} x0={x0.tolist()}", f, g, x0, box(n), s,
                             switch_at=3, maxiter=40)

    print(f"  {n_checked} scaler-run / scaled-objective-run pairs compared")
    if failures:
        print(f"C17 BROKEN ({len(failures)} discrepancies):")
        for m in failures[:30]:
            print("  -", m)
        return 1
    print("C17 holds on all inputs")
    return 0


if __name__ == "__main__":
    sys.exit(main())
