"""C16 stress script for the CONTROL patch (c).

Patch c makes ``jac=True`` / ``jac=False`` work as documented in
``minimize_lbfgsb`` (so far both ended in ``ValueError: jac must be callable, None
or among ...``).

Part (i) prints what the tree under test does with ``jac=False`` / ``jac=True``:
    unmodified tree : ValueError for both
    with patch c    : jac=False runs forward differences with the absolute step
                      `eps` (bit-identical to jac=None), jac=True uses the (f, g)
                      tuple returned by `fun`.
Part (ii) checks property C16 on many varied inputs (and must pass on both trees):
  * never raises in the modes None / '2-point' / '3-point' / 'cs'
    (+ False when the tree accepts it), whatever touches or grazes a bound,
  * every objective evaluation (stencil points included) is inside the box,
  * nfev == number of objective evaluations actually made,
  * on smooth convex problems f agrees with the exact-gradient solution,
  * also across a restart from a checkpoint (nfev is cumulative).

Exit status 0 when the property held everywhere, 1 otherwise.
"""

import sys

import numpy as np
from lbfgsb import minimize_lbfgsb
from lbfgsb.benchmarks import (
    beale,
    beale_grad,
    quartic,
    quartic_grad,
    rosenbrock,
    rosenbrock_grad,
    sphere,
    sphere_grad,
    styblinski_tang,
    styblinski_tang_grad,
)

failures = []
n_runs = [0]

# ------------------------------------------------------------------ part (i) ------
print("== part (i): behaviour of jac=False / jac=True on this tree ==")


def f_demo(x):
    return float(np.sum((x - np.array([2.0, -1.0])) ** 2) + np.sum(np.cosh(0.3 * x)))


def g_demo(x):
    return 2.0 * (x - np.array([2.0, -1.0])) + 0.3 * np.sinh(0.3 * x)


demo_kwargs = dict(
    x0=np.array([0.0, 0.5]),
    bounds=np.array([[0.0, 1.5], [-0.25, 3.0]]),
    ftol=1e-14,
    gtol=1e-9,
    maxiter=100,
)
res_none = minimize_lbfgsb(fun=f_demo, jac=None, **demo_kwargs)
accepts_false = True
try:
    res_false = minimize_lbfgsb(fun=f_demo, jac=False, **demo_kwargs)
    same = (
        res_false.fun == res_none.fun
        and np.array_equal(res_false.x, res_none.x)
        and res_false.nfev == res_none.nfev
        and res_false.nit == res_none.nit
    )
    print(
        f"jac=False : accepted, f={res_false.fun!r} nfev={res_false.nfev}"
        f" nit={res_false.nit}; identical to jac=None: {same}"
    )
    if not same:
        failures.append("jac=False is accepted but does not reproduce jac=None")
except ValueError as e:
    accepts_false = False
    print(f"jac=False : ValueError({e})")
try:
    res_true = minimize_lbfgsb(
        fun=lambda x: (f_demo(x), g_demo(x)), jac=True, **demo_kwargs
    )
    res_exact = minimize_lbfgsb(fun=f_demo, jac=g_demo, **demo_kwargs)
    print(
        f"jac=True  : accepted, f={res_true.fun!r} (separate fun/jac callables give"
        f" f={res_exact.fun!r})"
    )
except ValueError as e:
    print(f"jac=True  : ValueError({e})")
print(
    "(unmodified tree: both raise ValueError; patch c: both accepted -- this is the"
    " observable difference)\n"
)

MODES = [None, "2-point", "3-point", "cs"] + ([False] if accepts_false else [])

# ----------------------------------------------------------------- part (ii) ------
print("== part (ii): property C16 on varied inputs; modes:", MODES, "==")


def check(name, f, g, x0, lb, ub, convex=True, tol=1e-6, modes=None, **opts):
    """Run all the FD modes on one problem and record any violation of C16."""
    bounds = np.array([lb, ub], dtype=float).T
    common = dict(bounds=bounds, ftol=1e-14, gtol=1e-9, maxiter=300, maxfun=200000)
    ref = minimize_lbfgsb(x0=x0, fun=f, jac=g, **common)
    for mode in modes if modes is not None else MODES:
        n_runs[0] += 1
        n_calls = [0]
        outside = [0]

        def counted(x, _n=n_calls, _o=outside):
            _n[0] += 1
            xr = np.real(x)
            if (xr < lb).any() or (xr > ub).any():
                _o[0] += 1
            return f(x)

        tag = f"{name} jac={mode!r} {opts if opts else ''}"
        try:
            res = minimize_lbfgsb(x0=x0, fun=counted, jac=mode, **common, **opts)
        except Exception as e:
            failures.append(f"{tag}: raised {type(e).__name__}: {e}")
            continue
        if outside[0]:
            failures.append(f"{tag}: {outside[0]} evaluation(s) outside the box")
        if res.nfev != n_calls[0]:
            failures.append(f"{tag}: nfev={res.nfev} but {n_calls[0]} evaluations")
        if (res.x < lb).any() or (res.x > ub).any():
            failures.append(f"{tag}: solution outside the box")
        if not np.all(np.isfinite(res.jac)) or not np.isfinite(res.fun):
            failures.append(f"{tag}: non finite f or gradient returned")
        if convex:
            err = abs(res.fun - ref.fun) / (1.0 + abs(ref.fun))
            if not err <= tol:
                failures.append(
                    f"{tag}: f={res.fun!r} vs exact-gradient f={ref.fun!r}"
                    f" (rel. diff {err:.2e} > {tol:.0e})"
                )


def make_quad(n, seed, cond=10.0):
    rng = np.random.default_rng(seed)
    Q, _ = np.linalg.qr(rng.normal(size=(n, n)))
    A = Q @ np.diag(np.linspace(1.0, cond, n)) @ Q.T
    c = rng.normal(size=n) * 3
    return (lambda x: 0.5 * (x - c) @ A @ (x - c)), (lambda x: A @ (x - c)), c


def make_smooth(n, seed):
    """Strictly convex, non quadratic: weighted squares + sum sqrt(1 + r^2)."""
    rng = np.random.default_rng(seed)
    c = rng.uniform(0.5, 3.0, n)
    w = rng.uniform(0.5, 2.0, n)

    def f(x):
        r = x - c
        return 0.5 * np.sum(w * r * r) + np.sum(np.sqrt(1.0 + r * r))

    def g(x):
        r = x - c
        return w * r + r / np.sqrt(1.0 + r * r)

    return f, g, c


def make_lse(n, seed):
    """log-sum-exp of affine functions plus a small ridge: smooth and convex."""
    rng = np.random.default_rng(seed)
    M = rng.normal(size=(2 * n, n))
    b = rng.normal(size=2 * n)

    def f(x):
        z = M @ x + b
        zmax = np.max(np.real(z))
        return zmax + np.log(np.sum(np.exp(z - zmax))) + 0.05 * np.sum(x * x)

    def g(x):
        z = M @ x + b
        p = np.exp(z - np.max(z))
        p = p / np.sum(p)
        return M.T @ p + 0.1 * x

    return f, g


# -- A. coupled convex quadratics, random boxes, starts on faces / corners / inside
for seed in range(14):
    n = 2 + seed % 5
    f, g, c = make_quad(n, seed, cond=10.0 if seed % 2 else 100.0)
    rng = np.random.default_rng(1000 + seed)
    lb = c - rng.uniform(-1, 2, n)
    ub = lb + rng.uniform(0.1, 3, n)
    x0 = rng.uniform(lb, ub)
    if seed % 3 == 0:
        x0 = lb.copy()
    if seed % 3 == 1:
        x0 = np.where(rng.random(n) < 0.5, lb, ub)
    check(f"quad{seed}", f, g, x0, lb, ub)

# -- B. non quadratic convex family, several eps / rel_step settings ---------------
for seed, opts in (
    (1, {}),
    (2, {"eps": 1e-7}),
    (3, {"eps": 1e-6, "finite_diff_rel_step": 1e-6}),
    (4, {"finite_diff_rel_step": 1e-7}),
    (5, {"eps": 3e-9, "finite_diff_rel_step": 1e-5}),
    (6, {"maxcor": 3}),
):
    n = 3 + seed % 4
    f, g, c = make_smooth(n, seed)
    lb = np.full(n, 0.25)
    lb[0] = c[0] + 0.5
    ub = np.full(n, 6.0)
    ub[1] = max(c[1] - 0.4, lb[1] + 0.05)
    x0 = np.where(np.arange(n) % 2 == 0, lb, ub)
    check(f"smooth{seed}", f, g, x0, lb, ub, tol=1e-7, **opts)
    # far away start on the upper bounds
    ub2 = np.full(n, 4.0e5)
    check(f"smooth-far{seed}", f, g, ub2.copy(), lb, ub2, tol=1e-7, **opts)

# -- C. log-sum-exp, one-sided and very narrow boxes ------------------------------
for seed in range(4):
    n = 3 + seed
    f, g = make_lse(n, seed)
    lb = np.full(n, -0.5)
    ub = np.full(n, np.inf)
    check(f"lse-onesided{seed}", f, g, lb.copy(), lb, ub)
    lb = np.full(n, -1e-3)
    ub = np.full(n, 1e-3)
    ub[0] = -1e-3 + 1e-9  # narrower than the default steps
    check(f"lse-narrow{seed}", f, g, ub.copy(), lb, ub)

# -- D. hand made boxes whose faces are reached with x + (b - x) != b candidates ---
c3 = np.array([2.0, -2.0, 0.05, 3.0])
w3 = np.array([1.0, 2.0, 3.0, 0.5])
check(
    "separable",
    lambda x: 0.5 * np.sum(w3 * (x - c3) ** 2),
    lambda x: w3 * (x - c3),
    np.array([0.1, -0.1, 0.0, 0.7]),
    np.array([-1.0, -0.3, -1.0, -1.0]),
    np.array([0.3, 1.0, 1.0, 0.9]),
)
check(
    "sphere-corner", sphere, sphere_grad,
    np.array([0.7, 1.1, 0.1]), np.array([0.1, 0.3, -1.0]), np.array([0.7, 1.1, 0.1]),
)
check(
    "quartic-box", quartic, quartic_grad,
    np.array([0.3, -0.7, 0.9, 0.1]), np.full(4, -0.7), np.full(4, 0.9), tol=1e-5,
)

# -- E. benchmark functions (not convex: no comparison of the objective) -----------
check(
    "rosenbrock", rosenbrock, rosenbrock_grad,
    np.array([-1.5, 2.0, 0.5]), np.array([-1.5, 0.5, -1.0]), np.array([0.8, 2.0, 2.0]),
    convex=False,
)
check(
    "beale", beale, beale_grad,
    np.array([4.5, -4.5]), np.array([-4.5, -4.5]), np.array([4.5, 0.4]), convex=False,
    modes=[m for m in MODES if m != "cs"],
)
check(
    "styblinski_tang", styblinski_tang, styblinski_tang_grad,
    np.array([-5.0, 5.0, 0.0]), np.full(3, -5.0), np.full(3, 5.0), convex=False,
)


# -- F. restart from a checkpoint: nfev stays the cumulated number of evaluations --
def restart_case(seed, mode):
    n_runs[0] += 1
    n = 4
    f, g, c = make_smooth(n, seed)
    lb = np.full(n, 0.25)
    lb[0] = c[0] + 0.5
    ub = np.full(n, 50.0)
    bounds = np.array([lb, ub]).T
    n_calls = [0]
    outside = [0]

    def counted(x):
        n_calls[0] += 1
        xr = np.real(x)
        if (xr < lb).any() or (xr > ub).any():
            outside[0] += 1
        return f(x)

    tag = f"restart seed={seed} jac={mode!r}"
    common = dict(fun=counted, jac=mode, bounds=bounds, ftol=1e-14, gtol=1e-9)
    try:
        r1 = minimize_lbfgsb(x0=ub.copy(), maxiter=3, **common)
        r2 = minimize_lbfgsb(x0=r1.x, checkpoint=r1, maxiter=300, **common)
    except Exception as e:
        failures.append(f"{tag}: raised {type(e).__name__}: {e}")
        return
    ref = minimize_lbfgsb(
        x0=ub.copy(), fun=f, jac=g, bounds=bounds, ftol=1e-14, gtol=1e-9, maxiter=300
    )
    if outside[0]:
        failures.append(f"{tag}: {outside[0]} evaluation(s) outside the box")
    if r2.nfev != n_calls[0]:
        failures.append(f"{tag}: nfev={r2.nfev} but {n_calls[0]} evaluations")
    err = abs(r2.fun - ref.fun) / (1.0 + abs(ref.fun))
    if not err <= 1e-7:
        failures.append(f"{tag}: f={r2.fun!r} vs exact {ref.fun!r}")


for seed in (11, 12):
    for mode in MODES:
        restart_case(seed, mode)

print(f"{n_runs[0]} finite-difference runs checked")
if failures:
    print(f"C16 VIOLATED in {len(failures)} run(s):")
    for msg in failures[:15]:
        print("  -", msg)
    sys.exit(1)
print("C16 held on every input")
sys.exit(0)
