"""
C20 stress script for the control patch (c).

Part (i): shows whether the behaviour differs from the unmodified code: the numbers
of objective/gradient evaluations of a few fixed runs are compared with the values
recorded on the unmodified tree (BASELINE below).

Part (ii): checks property C20 on many varied calls: for each call, each kind of
user callable it involves (objective, gradient, callback, update function, scaler,
ftarget/gtol callables), each (or a spread of) call index of that callable in the
fault-free run, and exception types taken in turn from a list, the callable is made
to raise at that index. The property requires that
  (1) the very same exception (type and message) comes out of minimize_lbfgsb,
  (2) the identical fault-free call made afterwards returns exactly what a fresh
      process returns (the references are computed in a child process).

Exit status 0: the property held everywhere. Exit status 1: a violation was found.
"""

import copy
import hashlib
import json
import os
import subprocess
import sys
from collections import deque

# tiny problems: BLAS threads only slow them down
for _v in ("OMP_NUM_THREADS", "OPENBLAS_NUM_THREADS", "MKL_NUM_THREADS"):
    os.environ.setdefault(_v, "1")

import numpy as np  # noqa: E402

from lbfgsb import benchmarks as B  # noqa: E402
from lbfgsb import (  # noqa: E402
    get_gradient_projection_unit_scaling,
    minimize_lbfgsb,
)

MAX_POINTS_PER_CALLABLE = 14


class Injected(Exception):
    """Exception type owned by the test."""


EXC_TYPES = (
    Injected,
    RuntimeError,
    ValueError,
    TypeError,
    FloatingPointError,
    ZeroDivisionError,
    OverflowError,
    StopIteration,
    KeyError,
    AssertionError,
    IndexError,
    np.linalg.LinAlgError,
    KeyboardInterrupt,
)


class Faulty:
    """Generic fault-injection wrapper: raises at its k-th invocation (0-based)."""

    def __init__(self, inner, k=None, exc=None):
        self.inner = inner
        self.k = k
        self.exc = exc
        self.ncalls = 0

    def __call__(self, *args, **kwargs):
        i = self.ncalls
        self.ncalls += 1
        if self.k is not None and i == self.k:
            raise self.exc
        return self.inner(*args, **kwargs)


def digest(res):
    h = hashlib.sha256()
    for key in ("x", "jac"):
        h.update(np.ascontiguousarray(res[key], dtype=float).tobytes())
    h.update(np.ascontiguousarray(res.hess_inv.sk, dtype=float).tobytes())
    h.update(np.ascontiguousarray(res.hess_inv.yk, dtype=float).tobytes())
    h.update(
        repr(
            (
                float(res.fun),
                int(res.nfev),
                int(res.njev),
                int(res.nit),
                int(res.status),
                str(res.message),
                bool(res.success),
                float(res.scaling_factor),
            )
        ).encode()
    )
    return h.hexdigest()


# ----------------------------------------------------------------------------------
# Part (i): recorded on the unmodified tree: (nfev, njev, nit)
# ----------------------------------------------------------------------------------
BASELINE = {
    "ackley_a": (13, 13, 6),
    "ackley_b": (37, 37, 6),
    "griewank": (33, 33, 7),
    "rastrigin": (18, 18, 8),
}
DIFF_INPUTS = {
    "ackley_a": ("ackley", [2.3, -1.7]),
    "ackley_b": ("ackley", [1.1132519068841678, 0.9027556576068978]),
    "griewank": ("griewank", [-0.08498784700926532, 2.336927006094001]),
    "rastrigin": ("rastrigin", [-2.495907938505691, 1.995864885920387]),
}


def part_one():
    print("Part (i): evaluations of fixed runs vs. the unmodified tree")
    ndiff = 0
    for key, (name, x0) in DIFF_INPUTS.items():
        r = minimize_lbfgsb(
            x0=np.array(x0),
            fun=getattr(B, name),
            jac=getattr(B, name + "_grad"),
            bounds=np.array([[-4.0, 4.0]] * 2),
            maxiter=60,
            ftol=1e-12,
            gtol=1e-9,
        )
        got = (int(r.nfev), int(r.njev), int(r.nit))
        same = got == BASELINE[key]
        ndiff += not same
        print(
            f"  {key:10s} (nfev, njev, nit) = {got}   unmodified tree: "
            f"{BASELINE[key]}   -> {'same' if same else 'DIFFERS'}"
        )
    if ndiff:
        print(f"  behaviour differs from the unmodified code on {ndiff} input(s)")
    else:
        print("  identical to the unmodified code (this is the unmodified tree)")


# ----------------------------------------------------------------------------------
# Part (ii): the calls under test
# ----------------------------------------------------------------------------------
def upd_identity(x, f0, f0_old, grad, X, G):
    return f0, f0_old, grad, G


def upd_copy(x, f0, f0_old, grad, X, G):
    return f0, f0_old, grad.copy(), deque(g.copy() for g in G)


def cb_never(xk, state):
    return False


def make_cb_stop_at(n):
    def cb(xk, state):
        return state.nit >= n

    return cb


def box(n, lo, hi):
    return np.array([[lo, hi]] * n, dtype=float)


def half_box(n):
    b = np.array([[-np.inf, np.inf]] * n, dtype=float)
    b[::2, 0] = -1.5
    b[1::2, 1] = 2.5
    return b


def bench(name):
    return getattr(B, name), getattr(B, name + "_grad")


# name -> (kwargs without callables wrapped, optional stage-1 kwargs for a checkpoint)
def specs():
    out = {}
    f, g = bench("rosenbrock")
    out["rosen_free"] = (dict(x0=np.array([-1.2, 1.0]), fun=f, jac=g, maxiter=9), None)
    out["rosen_box_cb"] = (
        dict(
            x0=np.array([-1.2, 0.9, 0.7, -0.3]),
            fun=f,
            jac=g,
            bounds=box(4, -2.0, 0.9),
            maxiter=8,
            maxcor=3,
            callback=cb_never,
        ),
        None,
    )
    out["rosen_fd_none"] = (
        dict(x0=np.array([0.3, -0.4]), fun=f, jac=None, bounds=box(2, -1, 1.5), maxiter=3),
        None,
    )
    out["rosen_fd_3pt"] = (
        dict(x0=np.array([0.3, -0.4, 0.1]), fun=f, jac="3-point", maxiter=3),
        None,
    )
    out["rosen_scaler_crit"] = (
        dict(
            x0=np.array([1.9, -1.9, 0.5]),
            fun=f,
            jac=g,
            bounds=box(3, -2.0, 2.0),
            maxiter=7,
            gradient_scaler=get_gradient_projection_unit_scaling,
            ftarget=lambda: 1e-9,
            gtol=lambda: 1e-9,
            callback=make_cb_stop_at(6),
        ),
        None,
    )
    out["rosen_update"] = (
        dict(
            x0=np.array([-0.5, 1.5]),
            fun=f,
            jac=g,
            bounds=half_box(2),
            maxiter=7,
            update_fun_def=upd_identity,
            callback=cb_never,
        ),
        None,
    )
    f, g = bench("ackley")
    # runs where the best trial of a line search is not the last one
    out["ackley_a"] = (
        dict(x0=np.array([2.3, -1.7]), fun=f, jac=g, bounds=box(2, -4, 4), maxiter=60,
             ftol=1e-12, gtol=1e-9),
        None,
    )
    out["ackley_b_cb"] = (
        dict(x0=np.array([1.1132519068841678, 0.9027556576068978]), fun=f, jac=g,
             bounds=box(2, -4, 4), maxiter=60, ftol=1e-12, gtol=1e-9,
             callback=cb_never, update_fun_def=upd_copy),
        None,
    )
    f, g = bench("griewank")
    out["griewank_abn"] = (
        dict(x0=np.array([-0.08498784700926532, 2.336927006094001]), fun=f, jac=g,
             bounds=box(2, -4, 4), maxiter=60, ftol=1e-12, gtol=1e-9, maxls=6),
        None,
    )
    f, g = bench("rastrigin")
    out["rastrigin_scaler"] = (
        dict(x0=np.array([-2.495907938505691, 1.995864885920387]), fun=f, jac=g,
             bounds=box(2, -4, 4), maxiter=60, ftol=1e-12, gtol=1e-9,
             gradient_scaler=get_gradient_projection_unit_scaling),
        None,
    )
    f, g = bench("beale")
    out["beale_on_bound"] = (
        dict(x0=np.array([4.0, -4.0]), fun=f, jac=g, bounds=box(2, -4, 4), maxiter=8,
             maxcor=2, ftol_linesearch=1e-4, gtol_linesearch=0.5),
        None,
    )
    f, g = bench("styblinski_tang")
    out["stybl_maxfun"] = (
        dict(x0=np.array([1.5, 2.5, -0.5]), fun=f, jac=g, bounds=box(3, -5, 5),
             maxiter=30, maxfun=9, callback=cb_never),
        None,
    )
    f, g = bench("quartic")
    out["quartic_2pt"] = (
        dict(x0=np.array([1.0, -2.0]), fun=f, jac="2-point", maxiter=3,
             ftarget=lambda: 1e-3),
        None,
    )
    f, g = bench("sphere")
    out["sphere_target_at_x0"] = (
        dict(x0=np.array([1.0, -2.0]), fun=f, jac=g, ftarget=lambda: 1e3,
             gtol=lambda: 1e-6),
        None,
    )
    # restarts from a checkpoint
    f, g = bench("rosenbrock")
    stage1 = dict(x0=np.array([-1.0, -1.0]), fun=f, jac=g, bounds=box(2, -2, 2),
                  maxiter=5, maxcor=5, ftol=1e-12, gtol=1e-10)
    out["restart_plain"] = (
        dict(fun=f, jac=g, bounds=box(2, -2, 2), maxiter=11, maxcor=3, ftol=1e-12,
             gtol=lambda: 1e-10, callback=cb_never),
        stage1,
    )
    out["restart_update"] = (
        dict(fun=f, jac=g, bounds=box(2, -2, 2), maxiter=10, maxcor=5, ftol=1e-12,
             gtol=1e-10, update_fun_def=upd_copy, ftarget=lambda: 1e-12),
        stage1,
    )
    f, g = bench("ackley")
    stage1b = dict(x0=np.array([1.1132519068841678, 0.9027556576068978]), fun=f, jac=g,
                   bounds=box(2, -4, 4), maxiter=2, ftol=1e-12, gtol=1e-9,
                   gradient_scaler=get_gradient_projection_unit_scaling)
    out["restart_scaled_ackley"] = (
        dict(fun=f, jac=g, bounds=box(2, -4, 4), maxiter=60, ftol=1e-12, gtol=1e-9,
             gradient_scaler=get_gradient_projection_unit_scaling, callback=cb_never),
        stage1b,
    )
    return out


KINDS = ("fun", "jac", "callback", "update_fun_def", "gradient_scaler", "ftarget", "gtol")


def wrap(kw, fault=None):
    """Wrap each user callable of the call; `fault` = (kind, k, exc) or None."""
    kw = dict(kw)
    for kind in KINDS:
        if callable(kw.get(kind)):
            if fault is not None and fault[0] == kind:
                kw[kind] = Faulty(kw[kind], fault[1], fault[2])
            else:
                kw[kind] = Faulty(kw[kind])
    return kw


def make_checkpoint(stage1):
    return minimize_lbfgsb(**wrap(stage1))


def run(kw, checkpoint, fault=None):
    kw = wrap(kw, fault)
    if checkpoint is not None:
        # the very same checkpoint object for every call
        kw["checkpoint"] = checkpoint
        kw["x0"] = checkpoint.x
    return minimize_lbfgsb(**kw), kw


def reference_main():
    out = {}
    for name, (kw, stage1) in specs().items():
        ckp = make_checkpoint(stage1) if stage1 is not None else None
        res, _ = run(kw, ckp)
        out[name] = digest(res)
    print(json.dumps(out))


def spread(n, nmax):
    if n <= nmax:
        return list(range(n))
    return sorted(set(np.linspace(0, n - 1, nmax).round().astype(int).tolist()))


def part_two():
    print("Part (ii): fault injection")
    ref = json.loads(
        subprocess.run(
            [sys.executable, __file__, "--reference"],
            check=True,
            capture_output=True,
            text=True,
        ).stdout
    )
    failures = []
    npoints = 0
    iexc = 0
    for name, (kw0, stage1) in specs().items():
        ckp = make_checkpoint(stage1) if stage1 is not None else None
        ckp_copy = copy.deepcopy(ckp)
        res, kw = run(kw0, ckp)
        if digest(res) != ref[name]:
            failures.append(f"[{name}] fault-free run differs from the fresh process")
        ncalls = {k: kw[k].ncalls for k in KINDS if isinstance(kw.get(k), Faulty)}
        here = 0
        for kind, n in ncalls.items():
            for k in [i for i in spread(n, MAX_POINTS_PER_CALLABLE) for _ in (0, 1)]:
                # two exception types per call index, taken in turn from the list
                exc_type = EXC_TYPES[iexc % len(EXC_TYPES)]
                iexc += 1
                if (
                    exc_type is StopIteration
                    and kind == "fun"
                    and not callable(kw0.get("jac"))
                ):
                    # Known deviation of the UNMODIFIED tree, unrelated to patch c:
                    # with a finite-difference gradient, scipy (>= 1.15)
                    # approx_derivative evaluates the objective through `map`, and a
                    # StopIteration raised by the objective just ends that iteration
                    # silently. Not injected here so that the script measures
                    # the patch, not scipy.
                    exc_type = EXC_TYPES[iexc % len(EXC_TYPES)]
                    iexc += 1
                npoints += 1
                here += 1
                exc = exc_type(f"injected into {kind} at call {k}")
                tag = f"[{name}] {kind} call #{k} raising {exc_type.__name__}"
                try:
                    res, _ = run(kw0, ckp, fault=(kind, k, exc))
                except BaseException as e:  # noqa
                    if e is not exc and (
                        type(e) is not type(exc) or e.args != exc.args
                    ):
                        failures.append(f"{tag}: came out as {type(e).__name__}({e})")
                else:
                    failures.append(
                        f"{tag}: exception was swallowed, a result was returned "
                        f"(message={res.message!r}, nit={res.nit})"
                    )
                # the identical fault-free call afterwards
                res2, _ = run(kw0, ckp)
                if digest(res2) != ref[name]:
                    failures.append(
                        f"{tag}: the fault-free call made afterwards differs "
                        "from the one of a fresh process"
                    )
        if ckp is not None:
            for key in ("x", "jac"):
                if not np.array_equal(ckp[key], ckp_copy[key]):
                    failures.append(f"[{name}] checkpoint.{key} was modified")
            if not np.array_equal(ckp.hess_inv.sk, ckp_copy.hess_inv.sk) or (
                not np.array_equal(ckp.hess_inv.yk, ckp_copy.hess_inv.yk)
            ):
                failures.append(f"[{name}] checkpoint.hess_inv was modified")
        print(f"  {name:24s} calls per callable {ncalls}  -> {here} points")
    print(f"{npoints} fault-injection points explored")
    return failures


def main():
    part_one()
    failures = part_two()
    if failures:
        print(f"C20 VIOLATED ({len(failures)} findings), first ones:")
        for f in failures[:15]:
            print("  -", f)
        sys.exit(1)
    print("C20 held everywhere")
    sys.exit(0)


if __name__ == "__main__":
    if "--reference" in sys.argv:
        reference_main()
    else:
        main()
