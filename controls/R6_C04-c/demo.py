"""Stress script for the CONTROL change (c) -- property C04.

(i)  shows inputs on which the behaviour differs from the unmodified code: the
     reference messages of the unmodified code are recorded below (REFERENCE) and
     compared with what this tree reports.
(ii) checks C04 on many varied runs (objectives, boxes, starts, maxiter from 0,
     maxfun from 1, maxls, ftol, gtol, ftarget float / callable / None, stopping
     callbacks, on-the-fly updates, restarts from a checkpoint including maxiter
     below the checkpoint's nit).

Exit status 0 when C04 held on every run (expected with AND without patch c),
1 otherwise.
"""
import itertools
import os
import sys
import warnings

# tiny problems: threaded BLAS only slows them down
for _v in ("OMP_NUM_THREADS", "OPENBLAS_NUM_THREADS", "MKL_NUM_THREADS"):
    os.environ.setdefault(_v, "1")
from collections import deque

import numpy as np

from lbfgsb import minimize_lbfgsb

MSG_PG = "CONVERGENCE: NORM_OF_PROJECTED_GRADIENT_<=_PGTOL"
MSG_FT = "CONVERGENCE: REL_REDUCTION_OF_F_<=_FTOL"
MSG_TG = "CONVERGENCE: F_<=_TARGET"
MSG_IT = "STOP: TOTAL NO. of ITERATIONS REACHED LIMIT"
MSG_FE = "STOP: TOTAL NO. of f AND g EVALUATIONS EXCEEDS LIMIT"
MSG_CB = "STOP: USER CALLBACK"
MSG_AB = "ABNORMAL_TERMINATION_IN_LNSRCH"
DOCUMENTED = (MSG_PG, MSG_FT, MSG_TG, MSG_IT, MSG_FE, MSG_CB, MSG_AB)


# ------------------------------------------------------------------ objectives
def quad(x):
    return float(np.sum((x - 0.3) ** 2 * np.arange(1, x.size + 1)))


def gquad(x):
    return 2 * (x - 0.3) * np.arange(1, x.size + 1)


def rosen(x):
    return float(np.sum(100 * (x[1:] - x[:-1] ** 2) ** 2 + (1 - x[:-1]) ** 2))


def grosen(x):
    g = np.zeros_like(x)
    g[:-1] += -400 * x[:-1] * (x[1:] - x[:-1] ** 2) - 2 * (1 - x[:-1])
    g[1:] += 200 * (x[1:] - x[:-1] ** 2)
    return g


def expo(x):  # provokes abnormal terminations of the line search from far away
    return float(np.sum(x + np.exp(-10 * x)))


def gexpo(x):
    return 1.0 - 10 * np.exp(-10 * x)


def quartic(x):
    return float(np.sum((x - 1.0) ** 4) + 0.5 * np.sum(x[:-1] * x[1:]))


def gquartic(x):
    g = 4 * (x - 1.0) ** 3
    g[:-1] += 0.5 * x[1:]
    g[1:] += 0.5 * x[:-1]
    return g


OBJECTIVES = {
    "quad": (quad, gquad),
    "rosen": (rosen, grosen),
    "expo": (expo, gexpo),
    "quartic": (quartic, gquartic),
}


def pg_norm(x, g, lb, ub):
    return float(np.max(np.abs(np.clip(x - g, lb, ub) - x)))


# ---------------------------------------------------------------------- checker
class Counter:
    """Callable stop criterion (gtol / ftarget) counting its invocations."""

    def __init__(self, value):
        self.value = value
        self.n = 0

    def __call__(self):
        self.n += 1
        return self.value


def run_and_check(label, *, obj, x0, bounds=None, checkpoint=None, maxiter=50,
                  maxfun=15000, maxls=20, ftol=1e-5, gtol=1e-5, ftarget=None,
                  callback=None, update_fun_def=None, maxcor=10):
    """One run of minimize_lbfgsb + all the checks of C04.

    Returns (result, list of violations).
    """
    f, g = OBJECTIVES[obj]
    n = x0.size
    lb = np.full(n, -np.inf) if bounds is None else np.array(bounds, float)[:, 0]
    ub = np.full(n, np.inf) if bounds is None else np.array(bounds, float)[:, 1]
    if checkpoint is None:
        x0 = np.clip(x0, lb, ub)  # the start must lie in the box
    n0 = 1 if checkpoint is None else checkpoint.nfev
    nit0 = 0 if checkpoint is None else checkpoint.nit
    ncalls = [0 if checkpoint is None else checkpoint.nfev]
    cb_returns = []

    def fun(x):
        ncalls[0] += 1
        return f(x)

    cb = None
    if callback is not None:

        def cb(xk, state):
            r = callback(xk, state)
            cb_returns.append(r)
            return r

    gtol_val = gtol.value if isinstance(gtol, Counter) else gtol
    ftarget_val = ftarget.value if isinstance(ftarget, Counter) else ftarget

    res = minimize_lbfgsb(
        x0=x0, fun=fun, jac=g, bounds=bounds, checkpoint=checkpoint,
        maxiter=maxiter, maxfun=maxfun, maxls=maxls, ftol=ftol, gtol=gtol,
        ftarget=ftarget, callback=cb, update_fun_def=update_fun_def, maxcor=maxcor,
    )

    bad = []
    msg = res.message
    if msg not in DOCUMENTED:
        bad.append(f"undocumented message {msg!r}")
    if msg == MSG_PG and not pg_norm(res.x, res.jac, lb, ub) <= gtol_val:
        bad.append(
            f"PG message but pg={pg_norm(res.x, res.jac, lb, ub):.3e} > {gtol_val}"
        )
    if msg == MSG_TG and not (
        ftarget_val is not None and res.fun / res.scaling_factor <= ftarget_val
    ):
        bad.append(f"target message but fun={res.fun} > ftarget={ftarget_val}")
    if msg == MSG_IT and not res.nit >= maxiter:
        bad.append(f"iteration-limit message but nit={res.nit} < maxiter={maxiter}")
    if msg == MSG_FE and not res.nfev >= maxfun:
        bad.append(f"evaluation-limit message but nfev={res.nfev} < maxfun={maxfun}")
    if msg == MSG_CB and not (len(cb_returns) > 0 and cb_returns[-1] is True):
        bad.append("user-callback message but the callback did not return True")
    if res.success != (msg != MSG_AB):
        bad.append(f"success={res.success} with message {msg!r}")
    if res.nit > max(maxiter, nit0):
        bad.append(f"nit={res.nit} > max(maxiter={maxiter}, nit0={nit0})")
    if res.nfev > max(maxfun, n0) + 1:
        bad.append(f"nfev={res.nfev} > max(maxfun={maxfun}, n0={n0}) + 1")
    if res.nfev != ncalls[0]:
        bad.append(f"nfev={res.nfev} but fun was evaluated {ncalls[0]} times")
    for name, crit in (("gtol", gtol), ("ftarget", ftarget)):
        if isinstance(crit, Counter) and crit.n != 1:
            bad.append(f"callable {name} invoked {crit.n} times")
    return res, [f"[{label}] {b}" for b in bad]


# ----------------------------------------------------- (i) behaviour difference
# Messages reported by the UNMODIFIED code on the inputs of `difference_cases`.
REFERENCE = {
    "callback at last iteration": MSG_IT,
    "ftol stop with budget spent": MSG_FE,
    "target stop with budget spent": MSG_FE,
}


def difference_cases():
    out = {}
    viol = []
    # 1. the callback asks to stop in the very iteration that exhausts maxiter
    r, v = run_and_check(
        "diff1", obj="rosen", x0=np.array([-1.0, -1.0]),
        bounds=[(-2, 2), (-2, 2)], maxiter=3, ftol=1e-12, gtol=1e-10,
        callback=lambda xk, s: s.nit >= 3,
    )
    out["callback at last iteration"] = r
    viol += v
    # 2. the ftol test stops the run in an iteration that also spends maxfun
    r, v = run_and_check(
        "diff2", obj="rosen", x0=np.array([-1.2, 1.0]), maxiter=100, maxfun=3,
        ftol=0.9, gtol=1e-10,
    )
    out["ftol stop with budget spent"] = r
    viol += v
    # 3. the same with the target value
    r, v = run_and_check(
        "diff3", obj="rosen", x0=np.array([-1.2, 1.0]), maxiter=100, maxfun=3,
        ftol=1e-14, gtol=1e-10, ftarget=20.0,
    )
    out["target stop with budget spent"] = r
    viol += v
    return out, viol


# ------------------------------------------------------------------ (ii) stress
def make_shift_update(c):
    """update_fun_def adding the linear term c.x to the objective (consistent
    rewrite of the values and of the stored gradients) from the 2nd call on."""
    state = {"calls": 0, "on": False}

    def upd(x, f0, f0_old, grad, X, G):
        state["calls"] += 1
        if state["calls"] >= 2 and not state["on"]:
            state["on"] = True
            G = deque(gi + c for gi in G)
            if len(X) > 0:
                f0_old = f0_old + float(c @ X[-1])
        if state["on"]:
            f0 = f0 + float(c @ x)
            grad = grad + c
        return f0, f0_old, grad, G

    return upd


def stress():
    viol = []
    nruns = 0
    msgs = {}

    def go(label, **kw):
        nonlocal nruns
        r, v = run_and_check(label, **kw)
        nruns += 1
        msgs[r.message] = msgs.get(r.message, 0) + 1
        viol.extend(v)
        return r

    starts = {
        "quad": [np.array([3.0, -2.0, 1.0]), np.zeros(4)],
        "rosen": [np.array([-1.2, 1.0]), np.array([2.0, -1.4, 2.0])],
        "expo": [np.array([-50.0]), np.array([2.5]), np.array([-1.0, 0.5])],
        "quartic": [np.array([3.0, -3.0, 0.0, 2.0])],
    }
    boxes = {
        1: [None, [(-60.0, 3.0)]],
        2: [None, [(-2.0, 2.0), (-1.5, 0.8)], [(-np.inf, 0.5), (0.0, np.inf)]],
        3: [None, [(-3.0, 3.0)] * 3, [(0.5, 3.0), (-2.0, 2.0), (-np.inf, 1.0)]],
        4: [None, [(-3.0, 3.0)] * 4, [(0.0, 0.0), (-4, 4), (-np.inf, 0.5), (1, 5)]],
    }

    # A. budgets: maxiter from 0, maxfun from 1, maxls
    for obj, xs in starts.items():
        for x0 in xs:
            for bounds in boxes[x0.size]:
                if bounds is not None:
                    b = np.array(bounds, float)
                    x0b = np.clip(x0, b[:, 0], b[:, 1])
                else:
                    x0b = x0
                for maxiter, maxfun, maxls in (
                    (0, 10, 20), (1, 1, 20), (2, 2, 20), (5, 3, 20), (100, 4, 3),
                    (100, 7, 20), (100, 12, 2), (3, 15000, 20), (7, 9, 1),
                    (100, 300, 20),
                ):
                    go(f"A {obj} x0={x0b} box={bounds} {maxiter}/{maxfun}/{maxls}",
                       obj=obj, x0=x0b, bounds=bounds, maxiter=maxiter,
                       maxfun=maxfun, maxls=maxls, ftol=1e-9, gtol=1e-7)

    # B. tolerances and targets (float, callable, None), callable gtol
    for obj, x0, bounds in (
        ("quad", np.array([3.0, -2.0, 1.0]), None),
        ("rosen", np.array([-1.2, 1.0]), [(-2.0, 2.0), (-1.5, 0.8)]),
        ("quartic", np.array([3.0, -3.0, 0.0, 2.0]), [(-3.0, 3.0)] * 4),
    ):
        f0 = OBJECTIVES[obj][0](x0)
        for ftol, gtol, ftarget in itertools.product(
            (0.0, 1e-12, 1e-3, 0.5),
            (0.0, 1e-8, 1e-2, 10.0, "callable"),
            (None, f0 + 1.0, 0.5 * f0, -1.0, "callable"),
        ):
            _gtol = Counter(1e-4) if gtol == "callable" else gtol
            _ft = Counter(0.1 * f0) if ftarget == "callable" else ftarget
            for maxiter, maxfun in ((30, 60), (4, 6)):
                go(f"B {obj} ftol={ftol} gtol={gtol} ftarget={ftarget} "
                   f"{maxiter}/{maxfun}",
                   obj=obj, x0=x0, bounds=bounds, ftol=ftol, gtol=_gtol,
                   ftarget=_ft, maxiter=maxiter, maxfun=maxfun)
                # a Counter must not be reused: one instance per run
                _gtol = Counter(1e-4) if gtol == "callable" else gtol
                _ft = Counter(0.1 * f0) if ftarget == "callable" else ftarget

    # C. stopping callbacks (at iteration k, including the last allowed one, and
    #    callbacks returning truthy/falsy non-bool values are NOT used: bool only)
    for obj, x0, bounds in (
        ("rosen", np.array([-1.0, -1.0]), [(-2.0, 2.0), (-2.0, 2.0)]),
        ("quartic", np.array([3.0, -3.0, 0.0, 2.0]), None),
    ):
        for k in (1, 2, 3, 5, 1000):
            for maxiter, maxfun in ((3, 100), (5, 100), (50, 6), (50, 9), (2, 4)):
                go(f"C {obj} stop@{k} {maxiter}/{maxfun}", obj=obj, x0=x0,
                   bounds=bounds, maxiter=maxiter, maxfun=maxfun, ftol=1e-13,
                   gtol=1e-9, callback=lambda xk, s, k=k: bool(s.nit >= k))
        for m in (3, 6, 8):
            go(f"C {obj} stop@nfev>{m}", obj=obj, x0=x0, bounds=bounds,
               maxiter=20, maxfun=m + 2, ftol=1e-13, gtol=1e-9,
               callback=lambda xk, s, m=m: bool(s.nfev > m))

    # D. restarts from a checkpoint (incl. maxiter below the checkpoint's nit,
    #    maxfun below the checkpoint's nfev, changed maxcor, targets, callbacks)
    for obj, x0, bounds in (
        ("rosen", np.array([-1.2, 1.0]), [(-2.0, 2.0), (-1.5, 2.0)]),
        ("quartic", np.array([3.0, -3.0, 0.0, 2.0]), None),
        ("quad", np.zeros(4), [(0.0, 0.0), (-4, 4), (-np.inf, 0.5), (1, 5)]),
    ):
        x0c = x0 if bounds is None else np.clip(
            x0, np.array(bounds, float)[:, 0], np.array(bounds, float)[:, 1])
        for m1, f1 in ((4, 100), (50, 7), (0, 5), (1, 1)):
            ck = go(f"D {obj} leg1 {m1}/{f1}", obj=obj, x0=x0c, bounds=bounds,
                    maxiter=m1, maxfun=f1, ftol=1e-13, gtol=1e-9)
            for m2, f2, kw in (
                (ck.nit - 1, 100, {}),
                (0, 100, {}),
                (ck.nit, ck.nfev, {}),
                (ck.nit + 1, ck.nfev + 1, {}),
                (ck.nit + 3, ck.nfev - 2, {}),
                (ck.nit + 6, ck.nfev + 4, {"maxcor": 2}),
                (ck.nit + 6, ck.nfev + 9, {"ftarget": ck.fun + 1.0}),
                (ck.nit + 6, ck.nfev + 9, {"ftarget": Counter(0.5 * ck.fun)}),
                (ck.nit + 2, ck.nfev + 50,
                 {"callback": lambda xk, s, c=ck: bool(s.nit >= c.nit + 2)}),
                (ck.nit + 20, ck.nfev + 50, {"gtol": Counter(1e-3), "ftol": 1e-4}),
            ):
                base = dict(ftol=1e-13, gtol=1e-9)
                base.update(kw)
                r2 = go(f"D {obj} leg2 of {m1}/{f1}: {m2}/{f2} {sorted(kw)}",
                        obj=obj, x0=ck.x, bounds=bounds, checkpoint=ck,
                        maxiter=max(m2, 0), maxfun=max(f2, 1), **base)
            # a third leg from the last second leg
            go(f"D {obj} leg3", obj=obj, x0=r2.x, bounds=bounds, checkpoint=r2,
               maxiter=r2.nit + 2, maxfun=r2.nfev + 3, ftol=1e-13, gtol=1e-9)

    # E. on-the-fly update of the objective definition
    for obj, x0, bounds in (
        ("quad", np.array([3.0, -2.0, 1.0]), None),
        ("quartic", np.array([3.0, -3.0, 0.0, 2.0]), [(-3.0, 3.0)] * 4),
    ):
        for scale in (0.0, 0.3, -1.0):
            for maxiter, maxfun, ftarget in (
                (30, 100, None), (3, 100, None), (30, 5, None), (30, 100, 0.5),
            ):
                c = scale * np.linspace(1.0, 2.0, x0.size)
                go(f"E {obj} c={scale} {maxiter}/{maxfun} ft={ftarget}", obj=obj,
                   x0=x0, bounds=bounds, maxiter=maxiter, maxfun=maxfun,
                   ftol=1e-12, gtol=1e-7, ftarget=ftarget,
                   update_fun_def=make_shift_update(c))

    return nruns, msgs, viol


def main():
    # overflow far away from the solution (objective "expo") is part of the game
    warnings.simplefilter("ignore", RuntimeWarning)
    np.seterr(all="ignore")
    out, viol = difference_cases()
    print("(i) behaviour compared with the unmodified code")
    ndiff = 0
    for name, res in out.items():
        same = res.message == REFERENCE[name]
        ndiff += not same
        print(f"  {name}: nit={res.nit} nfev={res.nfev}")
        print(f"      unmodified code reports: {REFERENCE[name]!r}")
        print(f"      this tree reports      : {res.message!r}"
              f"  -> {'same' if same else 'DIFFERS'}")
    print(f"  {ndiff} of {len(out)} inputs behave differently from the reference")

    nruns, msgs, v = stress()
    viol += v
    print(f"(ii) C04 checked on {nruns + len(out)} runs; messages seen:")
    for m, k in sorted(msgs.items(), key=lambda t: -t[1]):
        print(f"  {k:5d}  {m}")
    if viol:
        print(f"C04 VIOLATED ({len(viol)}):")
        for x in viol[:40]:
            print("  ", x)
        return 1
    print("C04 held on every run.")
    return 0


if __name__ == "__main__":
    sys.exit(main())
