"""C02 stress script for control patch c.

(i)  prints a behaviour fingerprint on an input with a fixed variable and a
     finite-difference gradient, and compares it with the fingerprint recorded on
     the unmodified tree (nit=0, message 'START', nan in jac);
(ii) checks property C02 on many varied inputs: every point handed to the objective
     or to the gradient (stencil points included), every callback iterate and the
     returned solution satisfy lb <= x <= ub exactly, and components with lb == ub
     never move.  Exit 0 when the property held everywhere, 1 otherwise.
"""
import sys
import warnings

import numpy as np

from lbfgsb import benchmarks as bm
from lbfgsb import minimize_lbfgsb

warnings.simplefilter("ignore")
inf = np.inf


class Watch:
    def __init__(self, lb, ub, tag):
        self.lb, self.ub, self.tag = lb, ub, tag
        self.viol = []
        self.n_checked = 0

    def check(self, x, where):
        self.n_checked += 1
        x = np.asarray(x)
        xr = np.real(x)
        bad = ~((self.lb <= xr) & (xr <= self.ub))  # nan counts as a violation
        if bad.any():
            i = int(np.flatnonzero(bad)[0])
            self.viol.append(
                f"[{self.tag}] {where}: x[{i}]={float(xr[i])!r} outside "
                f"[{float(self.lb[i])!r}, {float(self.ub[i])!r}]"
            )


def wrap(fun, grad, w):
    def f(x):
        w.check(x, "objective evaluation")
        v = fun(x)
        return float(np.real(v)) if not np.iscomplexobj(x) else v

    def g(x):
        w.check(x, "gradient evaluation")
        return grad(x)

    return f, g


def quad_factory(n, rng):
    A = rng.normal(size=(n, n))
    Q = A @ A.T + 0.1 * np.eye(n)
    c = rng.normal(size=n) * 3
    return (lambda x: 0.5 * x @ Q @ x - c @ x), (lambda x: Q @ x - c)


def nonconvex(x):
    return np.sum(np.cos(3.0 * x) + 0.05 * (x - 1.0) ** 2) + 0.1 * np.sum(
        x[:-1] * x[1:]
    )


def nonconvex_grad(x):
    g = -3.0 * np.sin(3.0 * x) + 0.1 * (x - 1.0)
    g[:-1] += 0.1 * x[1:]
    g[1:] += 0.1 * x[:-1]
    return g


def make_box(kind, n, rng):
    c = rng.uniform(-2, 2, size=n)
    w = rng.uniform(0.2, 3, size=n)
    lb, ub = c - w, c + w
    if kind == "boxed":
        pass
    elif kind == "fixed":
        k = rng.integers(0, n)
        ub[k] = lb[k]
        if n > 2:
            k2 = (k + 2) % n
            lb[k2] = ub[k2]
    elif kind == "half":
        lb[::2] = -inf
        ub[1::3] = inf
    elif kind == "free":
        lb[:] = -inf
        ub[:] = inf
    elif kind == "tight":
        ub = lb + rng.uniform(1e-3, 1e-1, size=n)
    elif kind == "mixed":
        lb[0] = -inf
        ub[-1] = inf
        k = n // 2
        ub[k] = lb[k] = c[k]
    return lb, ub


def make_start(kind, lb, ub, rng):
    lo = np.where(np.isfinite(lb), lb, np.where(np.isfinite(ub), ub - 4, -2.0))
    hi = np.where(np.isfinite(ub), ub, np.where(np.isfinite(lb), lb + 4, 2.0))
    if kind == "interior":
        return lo + rng.uniform(0.05, 0.95, size=lo.size) * (hi - lo)
    if kind == "lower":
        return np.where(np.isfinite(lb), lb, lo + 0.5 * (hi - lo))
    if kind == "upper":
        return np.where(np.isfinite(ub), ub, lo + 0.5 * (hi - lo))
    # corner mix
    pick = rng.integers(0, 2, size=lo.size).astype(bool)
    return np.where(pick, lo, hi)


def fingerprint():
    lb = np.array([0.0, 1.0, -1.0])
    ub = np.array([1.0, 1.0, 3.0])
    res = minimize_lbfgsb(
        x0=np.array([0.5, 1.0, 0.0]),
        fun=lambda x: float(np.sum((x - 2.0) ** 2)),
        jac="2-point",
        bounds=np.stack([lb, ub], axis=1),
    )
    return res.nit, res.message, bool(np.isnan(res.jac).any()), res.x.tolist()


def main():
    # ---- (i) behaviour differs from the unmodified tree
    ref = (0, "START", True, [0.5, 1.0, 0.0])
    fp = fingerprint()
    print("reference (unmodified tree) : nit=%d message=%r nan_in_jac=%s x=%s" % ref)
    print("this tree                   : nit=%d message=%r nan_in_jac=%s x=%s" % fp)
    if fp == ref:
        print("-> identical to the reference: this is the unmodified behaviour")
    else:
        print("-> behaviour DIFFERS from the unmodified tree on this input")

    # ---- (ii) property check
    rng = np.random.default_rng(20260927)
    objectives = {
        "nonconvex": (nonconvex, nonconvex_grad),
        "rosenbrock": (bm.rosenbrock, bm.rosenbrock_grad),
        "rastrigin": (bm.rastrigin, bm.rastrigin_grad),
        "styblinski_tang": (bm.styblinski_tang, bm.styblinski_tang_grad),
        "sphere": (bm.sphere, bm.sphere_grad),
        "quartic": (bm.quartic, bm.quartic_grad),
        "ackley": (bm.ackley, bm.ackley_grad),
        "griewank": (bm.griewank, bm.griewank_grad),
    }
    jacs = ["callable", None, "2-point", "3-point", "cs"]
    boxes = ["boxed", "fixed", "half", "free", "tight", "mixed"]
    starts = ["interior", "lower", "upper", "corner"]
    opts = [
        {},
        {"maxcor": 1, "maxls": 2},
        {"maxcor": 3, "maxls": 5, "maxiter": 4},
        {"maxcor": 20, "maxfun": 12},
        {"maxiter": 1},
        {"ftol": 1e-12, "gtol": 1e-10, "maxiter": 25},
    ]
    failures = []
    n_runs = n_pts = n_restart = n_upd = 0
    names = list(objectives) + ["quad"]
    for rep in range(180):
        name = names[rep % len(names)]
        n = int(rng.integers(2, 7))
        if name == "quad":
            fun, grad = quad_factory(n, rng)
        else:
            fun, grad = objectives[name]
        jac = jacs[(rep // 2) % len(jacs)]
        if jac == "cs" and name in ("ackley", "griewank", "quad", "rastrigin"):
            jac = "3-point"  # keep 'cs' for objectives that are complex-analytic
        bk = boxes[(rep // 3) % len(boxes)]
        sk = starts[(rep // 5) % len(starts)]
        kw = dict(opts[(rep // 7) % len(opts)])
        lb, ub = make_box(bk, n, rng)
        x0 = np.clip(make_start(sk, lb, ub, rng), lb, ub)
        tag = f"#{rep} {name} n={n} jac={jac!r} box={bk} start={sk} {kw}"
        w = Watch(lb, ub, tag)
        f, g = wrap(fun, grad, w)
        kw["jac"] = g if jac == "callable" else jac
        bounds = np.stack([lb, ub], axis=1)

        def cb(xk, state):
            w.check(xk, "callback iterate")
            w.check(state.x, "callback state.x")
            return False

        if rep % 4 == 1:
            # on-the-fly update of the objective definition (identity update)
            kw["update_fun_def"] = lambda x, f0, f0_old, gr, X, G: (
                w.check(x, "update_fun_def x") or f0,
                f0_old,
                gr,
                G,
            )
            n_upd += 1
        try:
            res = minimize_lbfgsb(x0=x0, fun=f, bounds=bounds, callback=cb, **kw)
            w.check(res.x, "returned solution")
            n_runs += 1
            if rep % 3 == 0:
                # restart from the checkpoint with other options
                kw2 = dict(kw)
                kw2.update(maxcor=4, maxiter=res.nit + 3, maxfun=10**4, ftol=1e-14)
                res2 = minimize_lbfgsb(
                    x0=res.x, fun=f, bounds=bounds, callback=cb, checkpoint=res, **kw2
                )
                w.check(res2.x, "returned solution after restart")
                n_restart += 1
        except Exception as e:  # an exception is not a C02 violation: report only
            print(f"note: {tag}: {type(e).__name__}: {e}")
        n_pts += w.n_checked
        failures += w.viol

    print(
        f"{n_runs} runs ({n_restart} checkpoint restarts, {n_upd} with update_fun_def),"
        f" {n_pts} points checked"
    )
    if failures:
        print(f"C02 VIOLATED: {len(failures)} out-of-box points, first ones:")
        for m in failures[:8]:
            print("  ", m)
        return 1
    print("C02 holds: every evaluated/reported/returned point is inside the box")
    return 0


if __name__ == "__main__":
    sys.exit(main())
