"""
C10 stress script for the CONTROL change (c).

(i)  shows that the behaviour of the code under test differs from the unmodified
     code on concrete inputs (what is printed is compared with the values recorded
     from the unmodified tree), and
(ii) checks property C10 on many varied inputs:
       * direct candidate sequences through `update_lbfgs_matrices`
         (n in 1..12, maxcor in 1..10, up to 40 candidates, accepted and rejected
         pairs from convex and non-convex gradients),
       * every update intercepted during real `minimize_lbfgsb` runs (several
         objectives, boxes, starts, maxcor, stop criteria, finite differences),
       * restarts from a checkpoint with the same / a smaller / a larger maxcor,
       * runs with an on-the-fly update of the objective (`update_fun_def`).

C10: the limited-memory matrix equals the dense BFGS matrix of the stored pairs
(applied in order to theta*I, theta = y.y/s.y of the newest pair), is SPD and
satisfies the secant equation for the newest pair; at most maxcor pairs are stored,
each with s.y > eps*y.y; a rejected pair leaves memory and matrix untouched; the
oldest pair is the one discarded when the memory is full.

exit 0: the property held everywhere (expected both with patch c and on the
unmodified tree),  exit 1: a violation was found (reasons printed).
"""

import sys
from collections import deque

import numpy as np

import lbfgsb.main as lmain
from lbfgsb import minimize_lbfgsb
from lbfgsb.bfgsmats import LBFGSB_MATRICES, update_lbfgs_matrices

EPS = 2.2e-16
failures = []
stats = {"updates": 0, "rejected": 0, "rejected_full": 0, "evictions": 0, "runs": 0}


def fail(msg):
    failures.append(msg)
    if len(failures) <= 25:
        print("VIOLATION:", msg)


# --------------------------------------------------------------------------- tools
def dense_from_mats(mats, n):
    """B = theta I - W M W' with M^-1 = invMfactors[0] @ invMfactors[1]."""
    if not mats.use_factor:
        return mats.theta * np.eye(n)
    Minv = mats.invMfactors[0] @ mats.invMfactors[1]
    return mats.theta * np.eye(n) - mats.W @ np.linalg.solve(Minv, mats.W.T)


def dense_bfgs(S, Y):
    n = S.shape[1]
    theta = Y[-1].dot(Y[-1]) / S[-1].dot(Y[-1])
    B = theta * np.eye(n)
    for s, y in zip(S, Y):
        Bs = B @ s
        B = B - np.outer(Bs, Bs) / s.dot(Bs) + np.outer(y, y) / y.dot(s)
    return B


def snapshot(mats):
    return (
        mats.S.copy(), mats.Y.copy(), mats.D.copy(), mats.L.copy(), mats.W.copy(),
        mats.invMfactors[0].copy(), mats.invMfactors[1].copy(), float(mats.theta),
    )  # fmt: skip


def same_snapshot(a, b):
    return all(
        (np.shape(u) == np.shape(v)) and np.array_equal(u, v) for u, v in zip(a, b)
    )


def check_update(tag, Xb, Gb, snap_b, xk, gk, X, G, mats, maxcor, n, rtol=1e-6):
    """Check one call of update_lbfgs_matrices (Xb, Gb, snap_b: state before)."""
    stats["updates"] += 1
    Xa, Ga = list(X), list(G)
    same = len(Xa) == len(Xb) and all(u is v for u, v in zip(Xa, Xb))
    same = same and len(Ga) == len(Gb) and all(u is v for u, v in zip(Ga, Gb))
    if same:
        stats["rejected"] += 1
        if len(Xb) == maxcor + 1:
            stats["rejected_full"] += 1
        if not same_snapshot(snap_b, snapshot(mats)):
            fail(f"{tag} rejected pair but the matrix was modified")
    else:
        exp_X = Xb + [xk]
        exp_G = Gb + [gk]
        if len(exp_X) > maxcor + 1:  # memory was full: oldest pair discarded
            exp_X, exp_G = exp_X[1:], exp_G[1:]
            stats["evictions"] += 1
        ok = len(Xa) == len(exp_X) and all(
            np.array_equal(u, v) for u, v in zip(Xa, exp_X)
        )
        ok = ok and len(Ga) == len(exp_G) and all(
            np.array_equal(u, v) for u, v in zip(Ga, exp_G)
        )
        if not ok:
            fail(
                f"{tag} memory after the update is neither 'unchanged' nor "
                f"'candidate appended, oldest discarded if full' "
                f"({len(Xb) - 1} -> {len(Xa) - 1} stored pairs)"
            )
    npairs = len(Xa) - 1
    if npairs > maxcor:
        fail(f"{tag} {npairs} pairs stored > maxcor={maxcor}")
    if npairs < 1:
        if mats.use_factor or mats.theta != 1.0:
            fail(f"{tag} empty memory but the matrix is not the identity")
        return
    S = np.diff(np.array(Xa), axis=0)
    Y = np.diff(np.array(Ga), axis=0)
    for i, (s, y) in enumerate(zip(S, Y)):
        if not s.dot(y) > EPS * y.dot(y):
            fail(f"{tag} stored pair #{i} violates s.y > eps*y.y")
            return
    B = dense_from_mats(mats, n)
    B_ref = dense_bfgs(S, Y)
    nb = np.abs(B_ref).max()
    if not np.allclose(B, B.T, atol=1e-9 * nb):
        fail(f"{tag} solver matrix not symmetric")
    if np.linalg.eigvalsh(0.5 * (B + B.T)).min() <= 0:
        fail(f"{tag} solver matrix not positive definite")
    if not np.allclose(B, B_ref, rtol=rtol, atol=rtol * nb):
        fail(
            f"{tag} solver matrix is not the dense BFGS matrix of the {npairs} stored "
            f"pairs: max abs diff {np.abs(B - B_ref).max():.3e} (|B| ~ {nb:.3e}); "
            f"the matrix was built from {mats.S.shape[1]} pair(s)"
        )
    th = Y[-1].dot(Y[-1]) / S[-1].dot(Y[-1])
    if abs(mats.theta - th) > 1e-12 * th:
        fail(f"{tag} theta is not y.y/s.y of the newest stored pair")
    r = B @ S[-1] - Y[-1]
    if np.abs(r).max() > 10 * rtol * max(np.abs(Y[-1]).max(), 1e-300):
        fail(f"{tag} secant equation violated for the newest stored pair")


class Spy:
    """Intercept (read-only) every update performed by the solver."""

    def __init__(self, tag, n, rtol=1e-5):
        self.tag, self.n, self.rtol = tag, n, rtol
        self.calls = 0
        self.first_memory = None  # (S, Y) after the first call
        self.last_x = None

    def __enter__(self):
        self.orig = lmain.update_lbfgs_matrices

        def spy(xk, gk, X, G, mc, mats, *a, **k):
            Xb, Gb, snap = list(X), list(G), snapshot(mats)
            out = self.orig(xk, gk, X, G, mc, mats, *a, **k)
            self.calls += 1
            self.last_x = np.array(xk, copy=True)
            check_update(
                f"{self.tag} update {self.calls}]", Xb, Gb, snap, xk, gk, X, G, out,
                mc, self.n, rtol=self.rtol,
            )  # fmt: skip
            if self.first_memory is None:
                self.first_memory = (
                    np.diff(np.array(X), axis=0).copy(),
                    np.diff(np.array(G), axis=0).copy(),
                )
            return out

        lmain.update_lbfgs_matrices = spy
        return self

    def __exit__(self, *exc):
        lmain.update_lbfgs_matrices = self.orig
        return False


def check_result(tag, res, maxcor):
    sk, yk = res.hess_inv.sk, res.hess_inv.yk
    if sk.shape[0] > maxcor:
        fail(f"{tag} result holds {sk.shape[0]} pairs > maxcor={maxcor}")
    for i, (s, y) in enumerate(zip(sk, yk)):
        if not s.dot(y) > EPS * y.dot(y):
            fail(f"{tag} result pair #{i} violates the curvature condition")


# ------------------------------------------------------------------ objectives
def quad_factory(n, cond, seed):
    rng = np.random.default_rng(seed)
    Q = np.linalg.qr(rng.normal(size=(n, n)))[0]
    A = Q @ np.diag(np.geomspace(1.0, cond, n)) @ Q.T
    A = 0.5 * (A + A.T)
    b = rng.normal(size=n)
    return (lambda x: float(0.5 * x @ A @ x - b @ x)), (lambda x: A @ x - b)


def rosen(x):
    if x.size == 1:
        return float((1 - x[0]) ** 2)
    return float(np.sum(100.0 * (x[1:] - x[:-1] ** 2) ** 2 + (1 - x[:-1]) ** 2))


def rosen_g(x):
    if x.size == 1:
        return np.array([-2 * (1 - x[0])])
    g = np.zeros_like(x)
    g[:-1] += -400.0 * x[:-1] * (x[1:] - x[:-1] ** 2) - 2 * (1 - x[:-1])
    g[1:] += 200.0 * (x[1:] - x[:-1] ** 2)
    return g


def f_nc(x):
    return float(np.sum(np.sin(3 * x) + 0.1 * x**2) + 0.5 * np.sum(x[:-1] * x[1:]))


def g_nc(x):
    g = 3 * np.cos(3 * x) + 0.2 * x
    g[:-1] += 0.5 * x[1:]
    g[1:] += 0.5 * x[:-1]
    return g


def quartic(x):
    c = np.arange(1, x.size + 1, dtype=float)
    return float(np.sum(c * (x - 0.3) ** 4) + 0.5 * np.sum(c * x**2))


def quartic_g(x):
    c = np.arange(1, x.size + 1, dtype=float)
    return 4 * c * (x - 0.3) ** 3 + c * x


# ------------------------------------------------------------------ (ii) direct
def run_sequence(tag, n, maxcor, kinds, seed):
    """'a': convex step (accepted), 'r': negative curvature, 'z': null step,
    'n': gradient of a non-convex function (accepted or rejected, whatever)."""
    rng = np.random.default_rng(seed)
    Q = np.linalg.qr(rng.normal(size=(n, n)))[0]
    A = Q @ np.diag(np.linspace(1.0, 8.0, n)) @ Q.T
    x = rng.normal(size=n)
    X, G = deque([x]), deque([A @ x])
    mats = LBFGSB_MATRICES(n)
    for k, kind in enumerate(kinds):
        step = rng.normal(size=n)
        step /= np.linalg.norm(step)
        xk = X[-1] + step
        if kind == "a":
            gk = G[-1] + A @ step
        elif kind == "r":
            gk = G[-1] - (0.5 + k % 3) * (A @ step)
        elif kind == "z":
            xk = X[-1].copy()
            gk = G[-1].copy()
        else:
            gk = G[-1] + (g_nc(xk) - g_nc(X[-1])) if n > 1 else G[-1] + np.cos(xk)
        Xb, Gb, snap = list(X), list(G), snapshot(mats)
        mats = update_lbfgs_matrices(xk, gk, X, G, maxcor, mats, False, eps=EPS)
        check_update(
            f"[direct {tag} n={n} maxcor={maxcor} step {k} '{kind}']",
            Xb, Gb, snap, xk, gk, X, G, mats, maxcor, n,
        )  # fmt: skip


def stress_direct():
    run_sequence("fill-reject-accept", 4, 3, "aaaa" + "r" + "a" + "rr" + "aa", 0)
    run_sequence("maxcor=1", 3, 1, "arazraa", 1)
    run_sequence("n=1", 1, 2, "aaaraza", 2)
    run_sequence("reject-first", 5, 6, "rzaraara", 3)
    rng = np.random.default_rng(2024)
    for case in range(150):
        n = int(rng.integers(1, 13))
        maxcor = int(rng.integers(1, 11))
        length = int(rng.integers(3, 41))
        kinds = "".join(rng.choice(list("aaanrz"), size=length))
        run_sequence(f"mix#{case}", n, maxcor, kinds, 1000 + case)


# --------------------------------------------------------------- (ii) real runs
def stress_runs():
    cases = []
    for n, maxcor, seed in [(1, 1, 0), (2, 3, 1), (4, 2, 2), (7, 10, 3), (12, 5, 4)]:
        f, g = quad_factory(n, 1e3, seed)
        cases.append((f"quad n={n}", f, g, n, maxcor, seed, None))
        cases.append((f"quad-box n={n}", f, g, n, maxcor, seed, 0.3))
    for n, maxcor, seed in [(2, 5, 0), (3, 1, 1), (6, 4, 2), (10, 10, 3), (12, 7, 5)]:
        cases.append((f"rosen n={n}", rosen, rosen_g, n, maxcor, seed, 2.0))
        cases.append((f"rosen-free n={n}", rosen, rosen_g, n, maxcor, seed, None))
    for n, maxcor, seed in [(2, 1, 3), (3, 3, 3), (5, 2, 3), (8, 3, 1), (8, 5, 0),
                            (5, 10, 2), (12, 4, 7)]:  # fmt: skip
        cases.append((f"nonconvex n={n}", f_nc, g_nc, n, maxcor, seed, 2.0))
    for n, maxcor, seed in [(1, 2, 0), (5, 3, 1), (9, 6, 2)]:
        cases.append((f"quartic n={n}", quartic, quartic_g, n, maxcor, seed, 4.0))

    stops = [
        dict(ftol=1e-14, gtol=1e-10, maxiter=60),
        dict(ftol=1e-3, gtol=1e-10, maxiter=60),  # stops on ftol
        dict(ftol=1e-14, gtol=1e-2, maxiter=60),  # stops on gtol
        dict(ftol=1e-14, gtol=1e-10, maxiter=7),  # stops on maxiter
    ]
    for ic, (name, f, g, n, maxcor, seed, half) in enumerate(cases):
        rng = np.random.default_rng(seed + 17)
        x0 = rng.uniform(-1.5, 1.5, n)
        box = None if half is None else np.array([[-half, half]] * n)
        if half is not None:
            x0 = np.clip(x0, -half, half)
        opts = dict(stops[ic % len(stops)])
        tag = f"[run {name} maxcor={maxcor} {opts}"
        kw = dict(x0=x0, fun=f, jac=g, bounds=box, maxcor=maxcor, **opts)
        if ic % 7 == 3:
            kw["jac"] = "2-point"
        if ic % 5 == 2:  # stop on a target value
            kw["ftarget"] = f(x0) - 0.5 * abs(f(x0)) - 0.1
        with Spy(tag, n):
            res = minimize_lbfgsb(**kw)
        stats["runs"] += 1
        check_result(tag, res, maxcor)

        # ---- restart(s) from this checkpoint
        sk1, yk1 = res.hess_inv.sk.copy(), res.hess_inv.yk.copy()
        for maxcor2 in sorted({maxcor, max(1, maxcor // 2), min(10, maxcor + 3)}):
            tag2 = f"[restart of {name} maxcor {maxcor}->{maxcor2}"
            kw2 = dict(kw)
            kw2.update(
                x0=res.x, checkpoint=res, maxcor=maxcor2, maxiter=res.nit + 6,
                ftol=1e-15, gtol=1e-12, maxfun=res.nfev + 400,
            )  # fmt: skip
            kw2.pop("ftarget", None)
            with Spy(tag2, n) as spy:
                res2 = minimize_lbfgsb(**kw2)
            stats["runs"] += 1
            check_result(tag2, res2, maxcor2)
            if sk1.shape[0] >= 1 and spy.first_memory is not None:
                S0, Y0 = spy.first_memory
                S_exp, Y_exp = sk1[-maxcor2:], yk1[-maxcor2:]
                if S0.shape != S_exp.shape or not (
                    np.allclose(S0, S_exp, rtol=1e-6, atol=1e-9 * np.abs(sk1).max())
                    and np.allclose(Y0, Y_exp, rtol=1e-6, atol=1e-9 * np.abs(yk1).max())
                ):
                    fail(
                        f"{tag2}] memory rebuilt from the checkpoint is not made of "
                        f"its newest {min(maxcor2, sk1.shape[0])} pairs"
                    )


# ------------------------------------------------------- (ii) on-the-fly updates
def stress_update_fun_def():
    for n, maxcor, seed, switch_at in [(4, 3, 0, 2), (6, 5, 1, 4), (9, 2, 2, 3),
                                       (3, 8, 3, 1), (12, 10, 4, 5)]:  # fmt: skip
        for mode in ("nothing", "reweight"):
            fd, gd = quad_factory(n, 50.0, seed)
            state = {"lam": 0.0, "it": 0}

            def fun(x):
                return fd(x) + 0.25 * np.sum(x**4) + 0.5 * state["lam"] * x.dot(x)

            def jac(x):
                return gd(x) + x**3 + state["lam"] * x

            def upd(x, f0, f0_old, grad, X, G):
                if len(X) == 0:  # early call, before the first iteration
                    return f0, f0_old, grad, G
                state["it"] += 1
                if mode == "nothing" or state["it"] != switch_at:
                    return f0, f0_old, grad, G
                dlam = 2.0
                state["lam"] += dlam
                newG = deque(g + dlam * xx for xx, g in zip(X, G))
                x_old = X[-1]
                return (
                    f0 + 0.5 * dlam * x.dot(x),
                    f0_old + 0.5 * dlam * x_old.dot(x_old),
                    grad + dlam * x,
                    newG,
                )

            rng = np.random.default_rng(seed + 5)
            x0 = rng.uniform(-2, 2, n)
            tag = f"[update_fun_def {mode} n={n} maxcor={maxcor}"
            with Spy(tag, n):
                res = minimize_lbfgsb(
                    x0=x0, fun=fun, jac=jac, update_fun_def=upd, maxcor=maxcor,
                    bounds=np.array([[-3.0, 3.0]] * n), ftol=1e-12, gtol=1e-9,
                    maxiter=40,
                )  # fmt: skip
            stats["runs"] += 1
            check_result(tag, res, maxcor)


# ------------------------------------------------------- (i) behaviour difference
# values recorded by running this very script on the UNMODIFIED tree
UNMODIFIED = {
    "quad": dict(message="CONVERGENCE: REL_REDUCTION_OF_F_<=_FTOL", nit=11,
                 updates=11, pairs=11, newest_pair_ends_at_x=False),
    "target": dict(message="CONVERGENCE: F_<=_TARGET", nit=2, updates=2, pairs=2,
                   newest_pair_ends_at_x=False),
}  # fmt: skip


def show_difference():
    print("(i) behaviour compared with the unmodified code")
    differs = False
    f, g = quad_factory(5, 100.0, 11)
    x0 = np.full(5, 2.0)
    runs = {
        "quad": dict(x0=x0, fun=f, jac=g, ftol=1e-2, gtol=1e-12, maxcor=20),
        "target": dict(x0=np.array([-1.2, 1.0, -0.5]), fun=rosen, jac=rosen_g,
                       ftol=1e-14, gtol=1e-12, ftarget=3.5, maxcor=6),
    }  # fmt: skip
    for name, kw in runs.items():
        with Spy(f"[diff {name}", kw["x0"].size) as spy:
            res = minimize_lbfgsb(**kw)
        sk = res.hess_inv.sk
        ends = bool(
            sk.shape[0] > 0
            and spy.last_x is not None
            and np.array_equal(spy.last_x, res.x)
        )
        got = dict(message=res.message, nit=res.nit, updates=spy.calls,
                   pairs=sk.shape[0], newest_pair_ends_at_x=ends)  # fmt: skip
        ref = UNMODIFIED[name]
        d = {k: (ref[k], got[k]) for k in ref if ref[k] != got[k]}
        print(f"  run '{name}': this tree      {got}")
        print(f"  run '{name}': unmodified code {ref}")
        if d:
            differs = True
            print(f"  -> differs (unmodified, this tree): {d}")
        else:
            print("  -> identical to the unmodified code")
    print(f"  behaviour differs from the unmodified code: {differs}")


def main():
    show_difference()
    print("(ii) property checks")
    stress_direct()
    stress_runs()
    stress_update_fun_def()
    print(f"  checked: {stats}")
    if stats["rejected_full"] == 0 or stats["evictions"] == 0:
        fail("stress preconditions lost (no rejected-while-full / no eviction seen)")
    if failures:
        print(f"\nC10 VIOLATED: {len(failures)} failed check(s)")
        return 1
    print("C10 held on every checked update / run")
    return 0


if __name__ == "__main__":
    sys.exit(main())
