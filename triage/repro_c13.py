import numpy as np, copy
from collections import deque
from lbfgsb import minimize_lbfgsb, rosenbrock, rosenbrock_grad
b=np.array([[-2,2],[-2,2.]])
kw=dict(fun=rosenbrock,jac=rosenbrock_grad,bounds=b,ftol=0,gtol=1e-12,maxcor=5)
r5=minimize_lbfgsb(x0=np.array([-1.,-1.]),maxiter=5,**kw)
calls=[]
def upd(x,f0,f0_old,grad,X,G):
    calls.append(len(G))
    if len(calls)==1 and len(G)>2:
        G=deque(G); G[1]=G[2]+10*(np.array(X[2])-np.array(X[1]))  # break curvature for pairs around index 1
    return f0,f0_old,grad,G
try:
    r=minimize_lbfgsb(x0=r5.x,maxiter=5,checkpoint=copy.deepcopy(r5),update_fun_def=upd,**kw)
    sy=np.einsum('ij,ij->i',r.hess_inv.sk,r.hess_inv.yk)
    print("pairs s.y:",sy, "msg:",r.message, "calls",calls)
except Exception as e:
    print("EXC",type(e).__name__,e)
