import numpy as np, copy
from lbfgsb import minimize_lbfgsb, rosenbrock, rosenbrock_grad, ackley, ackley_grad
from scipy.optimize import approx_fprime
b=np.array([[-2,2],[-2,2.]])
kw=dict(fun=rosenbrock,jac=rosenbrock_grad,bounds=b,ftol=0,gtol=1e-12,maxcor=5)
r5=minimize_lbfgsb(x0=np.array([-1.,-1.]),maxiter=5,**kw)
print("r5",r5.message,r5.nit)
# C04 START
r=minimize_lbfgsb(x0=r5.x,maxiter=3,checkpoint=copy.deepcopy(r5),**kw); print("C04a:",repr(r.message),r.success,r.nit)
# C04 return checkpoint stale
r=minimize_lbfgsb(x0=r5.x,maxiter=50,ftarget=1e10,checkpoint=copy.deepcopy(r5),**kw); print("C04b:",repr(r.message),r.nit)
# C14 jac scaled in place
ck=copy.deepcopy(r5); j0=ck.jac.copy()
r=minimize_lbfgsb(x0=ck.x,maxiter=6,checkpoint=ck,gradient_scaler=lambda x,g,l,u:0.5,**kw); print("C14 jac mutated:",not np.array_equal(j0,ck.jac))
# C07 alias + nit
states=[]
def cb(x,s): states.append((x.copy(),s)); return False
r=minimize_lbfgsb(x0=np.array([-1.,-1.]),maxiter=4,callback=cb,**kw)
print("C07 nit seq:",[s.nit for _,s in states],"alias:",[bool(np.array_equal(x,s.x)) for x,s in states])
# C06 reconstruction
full=minimize_lbfgsb(x0=np.array([-1.,-1.]),maxiter=5,**kw)
r0=minimize_lbfgsb(x0=full.x,maxiter=5,checkpoint=copy.deepcopy(full),**kw)
print("C06 same sk after 0-iter restart:",np.allclose(full.hess_inv.sk,r0.hess_inv.sk), r0.message)
print(full.hess_inv.sk); print(r0.hess_inv.sk)
# C20 TypeError
def ft(): raise TypeError("user boom")
try:
    minimize_lbfgsb(x0=np.array([-1.,-1.]),maxiter=4,ftarget=ft,**kw)
except Exception as e: print("C20:",type(e).__name__,e)
def gt(): raise TypeError("user boom g")
kw2=dict(kw); kw2['gtol']=gt
try:
    minimize_lbfgsb(x0=np.array([-1.,-1.]),maxiter=4,**kw2)
except Exception as e: print("C20g:",type(e).__name__,e)
# C19
x=np.array([0.3,-1.2,2.1]); print("C19:",ackley_grad(x),approx_fprime(x,ackley,1e-7))
