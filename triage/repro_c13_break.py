"""C13 / FILT (in-loop site): update_fun_def rewrites the stored gradients and the run stops on
the ftol (or target) test right after -> the returned hess_inv carries unfiltered pairs."""
import numpy as np
from lbfgsb import minimize_lbfgsb
from lbfgsb.benchmarks import rosenbrock, rosenbrock_grad

calls = {"n": 0}
def upd(x, f0, f0_old, grad, X, G):
    calls["n"] += 1
    if calls["n"] == 4:
        # new objective = -f on the history: all stored gradients change sign except the newest
        G2 = type(G)([-g for g in list(G)[:-1]] + [list(G)[-1]]) if len(G) > 1 else G
        return f0, f0, grad, G2          # f0_old == f0  -> ftol stop fires right away
    return f0, f0_old, grad, G

res = minimize_lbfgsb(x0=np.array([-1.2, 1.0, 0.5]), fun=rosenbrock, jac=rosenbrock_grad,
                      update_fun_def=upd, maxiter=30, ftol=1e-12, gtol=1e-12)
sy = np.einsum("ij,ij->i", res.hess_inv.sk, res.hess_inv.yk)
print(res.message, "| pairs:", len(sy), "| s.y:", sy)
print("VIOLATION" if (sy <= 0).any() else "ok")
