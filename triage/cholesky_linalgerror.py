"""C04 / C10: a run that raises numpy.linalg.LinAlgError instead of returning a documented termination reason.
f(x) = sum(x + exp(-10 x)) (strictly convex), one variable, box [-4, 4], small line-search cap.
exit 1 if the run raises."""
import sys, warnings
import numpy as np
from lbfgsb import minimize_lbfgsb
f = lambda x: float(np.sum(x + np.exp(-10.0 * x)))
g = lambda x: 1.0 - 10.0 * np.exp(-10.0 * x)
bad = []
for maxfun in range(5, 20):
    try:
        with warnings.catch_warnings():
            warnings.simplefilter("ignore")
            r = minimize_lbfgsb(x0=np.array([-0.57268896]), fun=f, jac=g, bounds=[(-4.0, 4.0)], maxfun=maxfun, maxls=3,
                                ftol=0.0, gtol=1e-12, maxiter=100)
    except Exception as e:
        bad.append((maxfun, type(e).__name__, str(e)[:60]))
for b in bad:
    print("maxfun=%d raised %s: %s" % b)
sys.exit(1 if bad else 0)
