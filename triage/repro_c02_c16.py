import numpy as np
from lbfgsb import minimize_lbfgsb
rng=np.random.default_rng(3); bad=0; tot=0; first=None
for k in range(400):
    n=int(rng.integers(2,7)); A=rng.normal(size=(n,n)); Q=A@A.T+0.1*np.eye(n); b=rng.normal(size=n)*3
    lb=rng.uniform(-1,0,n); ub=lb+rng.uniform(0.1,1.5,n); x0=rng.uniform(lb,ub)
    out=[]
    def f(x):
        if (x<lb).any() or (x>ub).any(): out.append(x.copy())
        return 0.5*x@Q@x-b@x
    def g(x):
        if (x<lb).any() or (x>ub).any(): out.append(x.copy())
        return Q@x-b
    r=minimize_lbfgsb(x0=x0,fun=f,jac=g,bounds=np.array([lb,ub]).T,ftol=0,gtol=1e-10,maxiter=100)
    tot+=1
    if out or (r.x<lb).any() or (r.x>ub).any():
        bad+=1
        if first is None: first=(k,n,out[0]-np.clip(out[0],lb,ub) if out else r.x-np.clip(r.x,lb,ub))
print(bad,"/",tot,first)
# FD mode
err=0
for k in range(100):
    n=int(rng.integers(2,6)); A=rng.normal(size=(n,n)); Q=A@A.T+0.1*np.eye(n); b=rng.normal(size=n)*3
    lb=rng.uniform(-1,0,n); ub=lb+rng.uniform(0.1,1.5,n); x0=rng.uniform(lb,ub)
    try: minimize_lbfgsb(x0=x0,fun=lambda x:0.5*x@Q@x-b@x,jac='2-point',bounds=np.array([lb,ub]).T,ftol=0,gtol=1e-8,maxiter=100)
    except ValueError as e: err+=1; msg=str(e)
print("FD ValueErrors:",err, msg if err else "")
