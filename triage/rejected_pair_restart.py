"""Finding 16 (C06 / C07): after an iteration whose curvature pair was rejected, a restart from the
callback state / maxiter result does not continue like the uninterrupted run.
Run:  PYTHONPATH=/repo /venv/bin/python /verif/triage/rejected_pair_restart.py"""
import copy, sys
import numpy as np
from lbfgsb import minimize_lbfgsb

def f(x):   # double well, non-convex between the wells
    return float(np.sum(x**4 - 3.0 * x**2 + x))
def g(x):
    return 4.0 * x**3 - 6.0 * x + 1.0

worst = 0.0
found = 0
for seed in range(40):
    rng = np.random.default_rng(seed)
    n = 4
    x0 = rng.uniform(-0.6, 0.6, n)
    lb, ub = -2.0 * np.ones(n), 0.9 * np.ones(n)
    kw = dict(jac=g, bounds=np.array([lb, ub]).T, maxcor=5, ftol=0.0, gtol=0.0)
    states = []
    ref = minimize_lbfgsb(x0=x0, fun=f, maxiter=12, callback=lambda xk, s: states.append(copy.deepcopy(s)) or False, **kw)
    for k in range(1, len(states) - 2):
        a, b = states[k - 1].hess_inv.sk, states[k].hess_inv.sk
        rejected = a.shape == b.shape and np.array_equal(a, b)     # nothing stored at iteration k+1
        if not rejected:
            continue
        found += 1
        ck = states[k]
        r = minimize_lbfgsb(x0=ck.x, fun=f, checkpoint=ck, maxiter=ck.nit + 2, **kw)
        d1 = 0.0
        r1 = minimize_lbfgsb(x0=ck.x, fun=f, checkpoint=ck, maxiter=ck.nit + 1, **kw)
        d1 = float(np.max(np.abs(r1.x - states[k + 1].x)))
        d2 = float(np.max(np.abs(r.x - states[k + 2].x)))
        same_pairs = r1.hess_inv.sk.shape == states[k + 1].hess_inv.sk.shape and np.allclose(r1.hess_inv.sk, states[k + 1].hess_inv.sk)
        print(f"seed {seed}: pair rejected at iteration {ck.nit}; restart there: next iterate differs by {d1:.1e}, "
              f"the one after by {d2:.1e}; pairs after one iteration equal: {same_pairs}")
        worst = max(worst, d2)
print("rejections found:", found, "worst second-iterate difference:", worst)
sys.exit(1 if worst > 1e-8 else 0)
