import numpy as np, warnings
warnings.simplefilter("ignore")
from lbfgsb import minimize_lbfgsb
lb=np.array([0.,0.,0.]); ub=np.array([4.,4.,4.])
for bad_value in (np.inf, np.nan):
  for bad_call in range(1,8):
    pts=[]; n=[0]
    def f(x):
        pts.append(('f',x.copy())); n[0]+=1
        if n[0]==bad_call: return bad_value
        return float(np.sum((x-3.0)**4))
    def g(x):
        pts.append(('g',x.copy()))
        return 4*(x-3.0)**3
    try:
        r=minimize_lbfgsb(x0=np.array([0.5,1.0,0.2]),fun=f,jac=g,bounds=np.stack([lb,ub],1),maxiter=20)
        bad=[(k,p) for k,p in pts if not (np.all(lb<=p) and np.all(p<=ub))]
        print(bad_value,bad_call, r.x, r.message, len(pts), 'bad', len(bad), bad[:1])
    except Exception as e:
        print(bad_value,bad_call,'EXC',repr(e))
