"""Finding 18 (C08, also C01/C09 through the Cauchy point): with two breakpoints tied, get_cauchy_point put a variable it
had already fixed back at x.  Grid inputs (x in {1/4,1/2,3/4}^n, g in {+-1/2,..,+-4}^n, box [0,1]^n, 0..2 memory pairs) make
ties frequent.  Before the repair: 246 of 30000 results off the projected path, 17 with a model value above m(x); after: 0.
Smallest: x=(.75,.75), g=(1,1), any one-pair memory: got (0.75, 0), the path point is (0, 0).
Run:  PYTHONPATH=/repo /venv/bin/python /verif/triage/tied_breakpoints.py   (exit 1 if a result is off the path)"""
import numpy as np
from collections import deque
from lbfgsb.bfgsmats import LBFGSB_MATRICES, update_lbfgs_matrices
from lbfgsb.cauchy import get_cauchy_point

def dense_model(mats, n):
    """Dense limited-memory BFGS matrix defined by (theta, S, Y): BFGS recursion."""
    if not mats.use_factor:
        return mats.theta * np.eye(n)
    B = mats.theta * np.eye(n)
    for j in range(mats.S.shape[1]):
        s = mats.S[:, j]
        y = mats.Y[:, j]
        Bs = B @ s
        B = B - np.outer(Bs, Bs) / s.dot(Bs) + np.outer(y, y) / y.dot(s)
    return B


def breakpoints(x, g, lb, ub):
    t = np.full(x.size, np.inf)
    for i in range(x.size):
        if g[i] < 0:
            t[i] = (x[i] - ub[i]) / g[i]
        elif g[i] > 0:
            t[i] = (x[i] - lb[i]) / g[i]
    return t


def path(x, g, lb, ub, t, tt):
    """P(x - tt g) with reached variables put exactly on their bounds."""
    out = x.copy()
    for i in range(x.size):
        if g[i] == 0:
            continue
        if tt >= t[i]:
            out[i] = lb[i] if g[i] > 0 else ub[i]
        else:
            out[i] = x[i] - tt * g[i]
    return out


def reference_gcp(x, g, lb, ub, B):
    """First local minimiser of m(z)=g.z+0.5 z'Bz along the projected path (BLN95)."""
    t = breakpoints(x, g, lb, ub)
    knots = np.unique(np.concatenate([[0.0], t[np.isfinite(t) & (t > 0)]]))
    t_star = None
    for j, tj in enumerate(knots):
        d = np.where(t > tj, -g, 0.0)
        if not np.any(d):
            t_star = tj
            break
        z = path(x, g, lb, ub, t, tj) - x
        f1 = g.dot(d) + d.dot(B @ z)
        f2 = d.dot(B @ d)
        if f1 >= 0:
            t_star = tj
            break
        dt = -f1 / f2
        t_next = knots[j + 1] if j + 1 < len(knots) else np.inf
        if dt < t_next - tj:
            t_star = tj + dt
            break
    assert t_star is not None
    return t_star, t, path(x, g, lb, ub, t, t_star)



rng=np.random.default_rng(1)
offpath=0; diffref=0; worse=0
for trial in range(30000):
    n=int(rng.integers(2,5)); m=int(rng.integers(0,3))
    A=rng.normal(size=(n,n)); H=A@A.T+0.3*np.eye(n)
    X=deque(); G=deque(); mats=LBFGSB_MATRICES(n)
    p0=rng.normal(size=n); X.append(p0); G.append(H@p0)
    for k in range(m):
        p=rng.normal(size=n)
        mats=update_lbfgs_matrices(p.copy(),H@p,X,G,5,mats,True,2.2e-16)
    lb=np.zeros(n); ub=np.ones(n)
    x=rng.integers(1,4,n)/4.0
    g=rng.choice([-4,-2,-1,-0.5,0.5,1,2,4],n).astype(float)
    B=dense_model(mats,n)
    xc,c=get_cauchy_point(x.copy(),g.copy(),lb,ub,mats,1,-1,None)
    t=breakpoints(x,g,lb,ub)
    # on the path? find tt
    cands=[(x[i]-xc[i])/g[i] for i in range(n) if xc[i] not in (lb[i],ub[i])]
    tt=cands[0] if cands else max(t[np.isfinite(t)])
    if not np.allclose(path(x,g,lb,ub,t,tt),xc,atol=1e-12):
        offpath+=1
        if offpath<4: print("OFF PATH",x,g,t,xc)
    ts,_,xr=reference_gcp(x,g,lb,ub,B)
    if not np.allclose(xc,xr,atol=1e-9):
        diffref+=1
        z=xc-x; zr=xr-x
        if g@z+.5*z@B@z > 1e-12: worse+=1
print("off path",offpath,"differs from simultaneous-tie reference",diffref,"model value above m(x)",worse)

import sys
sys.exit(1 if offpath else 0)
