"""C18 / C07: after a restart the caller's checkpoint.jac array *is* the oldest stored gradient (held by reference).
A user who refreshes the kept checkpoint in place from the callback (ckpt.jac[:] = state.jac -- the natural way to
"keep the latest state" without allocating) rewrites the solver's memory: the pairs of later states / of the result are
no longer differences of gradients the user returned at the retained iterates.
exit 1 if the defect is present."""
import sys
import numpy as np
from lbfgsb import minimize_lbfgsb
from lbfgsb.benchmarks import rosenbrock, rosenbrock_grad

def run(refresh):
    x0 = np.array([-1.2, 1.0, -0.5, 0.8])
    log = {}
    def g(x):
        v = rosenbrock_grad(x); log[x.tobytes()] = v.copy(); return v
    r1 = minimize_lbfgsb(x0=x0, fun=rosenbrock, jac=g, maxcor=5, maxiter=3, ftol=0, gtol=0)
    ck = r1
    def cb(xk, state):
        if refresh:
            ck.jac[:] = state.jac      # the user's own object, refreshed in place
        return False
    r2 = minimize_lbfgsb(x0=r1.x, fun=rosenbrock, jac=g, maxcor=5, maxiter=6, ftol=0, gtol=0, checkpoint=ck, callback=cb)
    # every y_k of the result must be (up to the restart's rounding, finding 20) a difference of returned gradients
    G = list(log.values())
    worst = 0.0
    for y in r2.hess_inv.yk:
        worst = max(worst, min(np.abs(y - (a - b)).max() for a in G for b in G))
    return worst

w0, w1 = run(False), run(True)
print(f"largest distance of a stored y_k to a difference of returned gradients: untouched checkpoint {w0:.2e}, "
      f"checkpoint refreshed in place {w1:.2e}")
sys.exit(1 if w1 > 1e-8 else 0)
