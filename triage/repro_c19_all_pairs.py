import numpy as np, lbfgsb
from scipy.optimize import approx_fprime
rng=np.random.default_rng(1)
for name in ["ackley","beale","griewank","quartic","rastrigin","rosenbrock","sphere","styblinski_tang"]:
    f=getattr(lbfgsb,name); g=getattr(lbfgsb,name+"_grad"); worst=0
    for n in (1,2,3,5,8):
        if n==1 and name in("beale","rosenbrock"): continue
        x=rng.uniform(-3,3,n)+0.123
        num=np.array([(f(x+h)-f(x-h))/2e-6 for h in np.eye(n)*1e-6])
        worst=max(worst,np.max(np.abs(num-g(x))/(1+np.abs(num))))
    print(name,worst)
