import numpy as np, warnings, traceback
from lbfgsb import minimize_lbfgsb
f2=lambda x: np.sum((x-1.0)**2)
g2=lambda x: 2*(x-1.0)
# one variable fixed (lb == ub), others free
bounds=[(0.0,0.0),(-2.0,2.0),(0.0,0.5)]
x0=np.array([0.0,-2.0,0.0])
for jac in (g2,None,'2-point','3-point','cs'):
    with warnings.catch_warnings(record=True) as w:
        warnings.simplefilter('always')
        try:
            r=minimize_lbfgsb(x0=x0,fun=f2,jac=jac,bounds=bounds,ftol=1e-14,gtol=1e-9)
            print(jac if not callable(jac) else 'exact', r.x, r.fun, r.jac, r.message, [str(x.message) for x in w][:2])
        except Exception as e:
            print(jac, 'RAISED', repr(e)); traceback.print_exc(limit=3)
