"""Finding 19 (C08 auxiliary-vector clause, C09 through it): when every variable with a non-zero gradient component reaches a bound
in the Cauchy search and only zero-gradient variables remain free, the returned c was not W'(x_cp - x): the path curvature was
floored at 1e-30 * f2_org instead of the reference's epsmch * f2_org, so -f1/f2 (both round-off) became huge and multiplied
the round-off residue of p into c.  Before the repair: 1220 of 20000 such inputs with a relative error above 1e-8 (worst 11);
after: worst 5e-14.   Run:  PYTHONPATH=/repo /venv/bin/python /verif/triage/zero_gradient_aux_vector.py  (exit 1 if any)"""
import numpy as np
from collections import deque
from lbfgsb.bfgsmats import LBFGSB_MATRICES, update_lbfgs_matrices
from lbfgsb.cauchy import get_cauchy_point
rng=np.random.default_rng(3)
worst=0; cnt=0; big=[]
for trial in range(20000):
    n=int(rng.integers(2,6)); m=int(rng.integers(1,4))
    A=rng.normal(size=(n,n)); H=A@A.T+0.3*np.eye(n)
    X=deque(); G=deque(); mats=LBFGSB_MATRICES(n)
    p0=rng.normal(size=n); X.append(p0); G.append(H@p0)
    for k in range(m):
        p=rng.normal(size=n); mats=update_lbfgs_matrices(p.copy(),H@p,X,G,5,mats,True,2.2e-16)
    lb=np.zeros(n); ub=np.ones(n)
    x=rng.uniform(0.1,0.9,n)
    g=rng.normal(size=n)*rng.choice([1,10,100])
    nz=int(rng.integers(1,n)); idx=rng.choice(n,nz,replace=False); g[idx]=0.0
    if not np.any(g): continue
    xc,c=get_cauchy_point(x.copy(),g.copy(),lb,ub,mats,1,-1,None)
    free=(xc!=lb)&(xc!=ub)
    if not free.any(): continue
    ref=mats.W.T@(xc-x)
    err=np.max(np.abs(c-ref))/max(1.0,np.max(np.abs(ref)))
    cnt+=1
    if err>1e-8:
        big.append((err,x,g,xc,c,ref))
    worst=max(worst,err)
print("cases",cnt,"worst rel err of c",worst,"n bad",len(big))
for b in big[:3]: print(b)

import sys
sys.exit(1 if big else 0)
