import numpy as np, copy
from lbfgsb import minimize_lbfgsb
from lbfgsb.cauchy import get_cauchy_point
from lbfgsb.bfgsmats import LBFGSB_MATRICES
# C08: variable 2 at upper bound with gradient pushing outward (t=0), others interior
x=np.array([0.5,0.2,1.0]); g=np.array([1.0,3.0,-2.0]); lb=np.zeros(3); ub=np.ones(3)
xc,c=get_cauchy_point(x,g,lb,ub,LBFGSB_MATRICES(3),0,-1)
t=np.array([0.5,0.2/3,0.0]); print("C08 argsort(t)[t>0] =",np.argsort(t)[t>0]," expected [1 0]; xcp=",xc," expected [0,0,1]")
# C03: oscillating objective, tiny maxls
evals=[]
def f(x): v=float(np.sum(x**2)+50*np.sin(8*x).sum()); evals.append(v); return v
def gf(x): return 2*x+400*np.cos(8*x)
worst=0
rng=np.random.default_rng(0)
for k in range(300):
    x0=rng.uniform(-3,3,3); fs=[]
    def cb(x,s): fs.append(s.fun); return False
    r=minimize_lbfgsb(x0=x0,fun=f,jac=gf,maxls=int(rng.integers(1,4)),maxiter=30,ftol=0,gtol=1e-9,callback=cb)
    seq=[f(x0)]+fs+[r.fun]
    inc=max(np.diff(seq)) if len(seq)>1 else 0
    worst=max(worst,inc)
print("C03 worst increase between consecutive accepted iterates:",worst)
