"""Reproducers (UNMODIFIED tree) for inputs on which C13 already fails."""
import sys
from collections import deque

import numpy as np

from lbfgsb import minimize_lbfgsb

sys.path.insert(0, "/verif/seeded/R7_C13-a")
from demo import Problem  # noqa: E402

# ---- observation 1: rewrite that breaks the curvature of the NEWEST pair --------
p = Problem(12, 0)
bounds = np.array((p.lb, p.ub)).T
ncall = [0]
xs = []
rng = np.random.RandomState(0)


def update(x, f0, f0_old, grad, X, G):
    k = ncall[0]
    ncall[0] += 1
    if k != 5:
        return f0, f0_old, grad, G
    p.w = 30.0
    newG = deque(p.jac(xi) for xi in X)
    newG[-1] = newG[-1] + 1e4 * rng.randn(p.n)  # gradient stored for X[-1] = x_4
    return p.fun(x), p.fun(X[-1]), p.jac(x), newG


states = []
minimize_lbfgsb(x0=p.x0, fun=p.fun, jac=p.jac, bounds=bounds, update_fun_def=update,
                maxcor=4, ftol=-1.0, gtol=0.0, maxiter=6,
                callback=lambda xk, s: states.append((xk.copy(), s.hess_inv.sk.copy())))
x4, x5 = states[3][0], states[4][0]
sk5 = states[4][1]
print("obs 1: last pair of state 5 is x5-x4:", np.allclose(sk5[-1], x5 - x4),
      "| is x4-x3:", np.allclose(sk5[-1], x4 - states[2][0]))

# ---- observation 2: stop on ftol -> result lacks the newest point --------------
for upd in (None, lambda x, f0, f0_old, grad, X, G: (f0, f0_old, grad, G)):
    p = Problem(12, 0)
    xs = []
    r = minimize_lbfgsb(x0=p.x0, fun=p.fun, jac=p.jac, bounds=bounds,
                        update_fun_def=upd, maxcor=4, ftol=1e-3, gtol=0.0,
                        maxiter=50, callback=lambda xk, s: xs.append(xk.copy()))
    print("obs 2:", r.message, "nit", r.nit, "callbacks", len(xs),
          "| result.x == last callback x:", np.array_equal(r.x, xs[-1]),
          "| last pair == x_nit - x_(nit-1):",
          np.allclose(r.hess_inv.sk[-1], r.x - xs[-1]),
          "| last pair == x_(nit-1) - x_(nit-2) (history ends one point before result.x):",
          np.allclose(r.hess_inv.sk[-1], xs[-1] - xs[-2]))
