import numpy as np, copy
from lbfgsb import minimize_lbfgsb
from lbfgsb.benchmarks import rosenbrock, rosenbrock_grad
bad=0;tot=0;worst=0
for seed in range(30):
    rng=np.random.default_rng(seed)
    x0=rng.uniform(-2,2,4)
    kw=dict(fun=rosenbrock,jac=rosenbrock_grad,maxcor=5)
    r=minimize_lbfgsb(x0=x0,maxiter=7,**kw)
    r0=minimize_lbfgsb(x0=r.x,checkpoint=r,maxiter=7,**kw)   # performs no iteration
    tot+=1
    if r0.hess_inv.sk.shape!=r.hess_inv.sk.shape or not (np.array_equal(r0.hess_inv.sk,r.hess_inv.sk) and np.array_equal(r0.hess_inv.yk,r.hess_inv.yk)):
        bad+=1; worst=max(worst,np.max(np.abs(r0.hess_inv.sk-r.hess_inv.sk)),np.max(np.abs(r0.hess_inv.yk-r.hess_inv.yk)))
    # one more iteration: inherited pairs in the new result
    r1=minimize_lbfgsb(x0=r.x,checkpoint=r,maxiter=8,**kw)
    ru=minimize_lbfgsb(x0=x0,maxiter=8,**kw)
    if seed<3: print("no-iteration restart equal:",np.array_equal(r0.hess_inv.sk,r.hess_inv.sk),np.array_equal(r0.hess_inv.yk,r.hess_inv.yk), "| after 1 it: sk equal to uninterrupted:", np.array_equal(r1.hess_inv.sk,ru.hess_inv.sk), np.max(np.abs(r1.hess_inv.sk-ru.hess_inv.sk)) if r1.hess_inv.sk.shape==ru.hess_inv.sk.shape else 'shape')
print("no-iteration restarts with pairs not bit-identical:",bad,"of",tot,"worst abs diff",worst)
