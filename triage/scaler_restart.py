import numpy as np
from lbfgsb import minimize_lbfgsb
from lbfgsb.utils import get_gradient_projection_unit_scaling as gs
A = np.diag([1., 10., 100., 3.]); b = np.array([1., -2., 3., 0.5])
f = lambda x: 0.5*x@A@x - b@x
g = lambda x: A@x - b
x0 = np.array([2., 2., 2., 2.]); bounds = np.array([[-5, 5.]]*4)
full = minimize_lbfgsb(x0=x0, fun=f, jac=g, bounds=bounds, maxiter=6, gradient_scaler=gs, ftol=0, gtol=0)
part = minimize_lbfgsb(x0=x0, fun=f, jac=g, bounds=bounds, maxiter=3, gradient_scaler=gs, ftol=0, gtol=0)
rest = minimize_lbfgsb(x0=part.x, fun=f, jac=g, bounds=bounds, maxiter=6, gradient_scaler=gs, ftol=0, gtol=0, checkpoint=part)
print("part fun", part.fun, "raw f", f(part.x), "ratio", part.fun / f(part.x))
print("full fun", full.fun, "raw f", f(full.x), "ratio", full.fun / f(full.x))
print("rest fun", rest.fun, "raw f", f(rest.x), "ratio", rest.fun / f(rest.x))
print("x diff full vs restart", np.abs(full.x - rest.x).max(), "nit", full.nit, rest.nit)
