"""Finding 15 (C06/C07, rule STEPINIT): restart vs uninterrupted run, next iterate, for three problems reported by a sub-agent.
Run: PYTHONPATH=<tree> /venv/bin/python triage/stepcap_restart.py -- prints max|x_restart - x_uninterrupted| per split k (O(1) entries = the defect; all <= 1e-14 after fix c03c79a)."""
import numpy as np, copy
from lbfgsb import minimize_lbfgsb
from lbfgsb.benchmarks import rastrigin, rastrigin_grad, griewank, griewank_grad
def run(fun, jac, x0, bounds, maxcor, k):
    part=minimize_lbfgsb(x0=x0, fun=fun, jac=jac, bounds=bounds, maxcor=maxcor, maxiter=k, ftol=0, gtol=0)
    full=minimize_lbfgsb(x0=x0, fun=fun, jac=jac, bounds=bounds, maxcor=maxcor, maxiter=k+1, ftol=0, gtol=0)
    rest=minimize_lbfgsb(x0=part.x, fun=fun, jac=jac, bounds=bounds, maxcor=maxcor, maxiter=k+1, checkpoint=part, ftol=0, gtol=0)
    return np.max(np.abs(full.x-rest.x))
for name,(fun,jac,x0,box,mc) in {'rast5':(rastrigin,rastrigin_grad,[5.1,-3.72,-1.65,-2.04,-0.41],5.12,3),'grie3':(griewank,griewank_grad,[1.27,-7.02,-7.66],10.0,3),'rast2':(rastrigin,rastrigin_grad,[-0.54,-4.53],5.12,5)}.items():
    x0=np.array(x0); b=np.array([[-box,box]]*len(x0))
    print(name,[float('%.1e'%run(fun,jac,x0,b,mc,k)) for k in range(1,8)])
