import sympy as sp, time
for n in (2,3,5):
    x=sp.symbols(f'x0:{n}',real=True)
    S=sum(xi**2 for xi in x); r=sp.sqrt(S/n); C=sum(sp.cos(2*sp.pi*xi) for xi in x)/n
    f=20+sp.E-20*sp.exp(-sp.Rational(1,5)*r)-sp.exp(C)
    good=[4*xi*r*sp.exp(-sp.Rational(1,5)*r)/S + 2*sp.pi/n*sp.sin(2*sp.pi*xi)*sp.exp(C) for xi in x]
    bad=[4*xi*r*sp.exp(-sp.Rational(1,5)*r)/S - 2*sp.pi/n*sp.sin(2*sp.pi*xi) for xi in x]
    t=time.time()
    res_g=[sp.diff(f,xi)-g for xi,g in zip(x,good)]
    res_b=[sp.diff(f,xi)-g for xi,g in zip(x,bad)]
    pt={xi:sp.Rational(3+7*i,11)*(-1)**i for i,xi in enumerate(x)}
    print(n,[sp.N(e.subs(pt),30) for e in res_g][:2],[sp.N(e.subs(pt),30) for e in res_b][:2], "simplify0:", sp.simplify(res_g[0])==0, round(time.time()-t,2))
