import numpy as np
from lbfgsb import minimize_lbfgsb
from lbfgsb.benchmarks import quartic
for jac in (None,'2-point','3-point','cs'):
  for k in range(0,6):
    n=[0]
    def f(x):
        n[0]+=1
        if n[0]==k+1: raise StopIteration("boom")
        return quartic(x)
    try:
        r=minimize_lbfgsb(x0=np.array([1.,-2.]),fun=f,jac=jac,maxiter=3)
        print(jac,k,"SWALLOWED:",r.message,r.nit, r.jac)
    except StopIteration as e: pass
    except RuntimeError as e: print(jac,k,"converted:",type(e).__name__,e)
