"""sa.core -- loader, name resolution, obligations.

Everything here reads the *source* of the package under analysis with `ast`.
Nothing under the analysed root is imported or executed.
"""
from __future__ import annotations

import ast
import os
from dataclasses import dataclass, field
from typing import Dict, Iterable, Iterator, List, Optional, Tuple


class AnalysisError(Exception):
    """The analysis cannot give a verdict (vanished anchor, unsupported
    construct, too few rule instances). Exit code 2, never a violation."""


PKG = "lbfgsb"

# statement kinds the CFG builder models (DESIGN section 2); anything else is
# ANALYSIS-ERROR so that an unmodelled construct never passes silently
SUPPORTED_STMTS = (
    ast.Assign, ast.AugAssign, ast.AnnAssign, ast.Expr, ast.If, ast.Return,
    ast.Raise, ast.Break, ast.Continue, ast.Try, ast.While, ast.For, ast.With,
    ast.Assert, ast.Pass, ast.FunctionDef, ast.ClassDef, ast.Import,
    ast.ImportFrom, ast.Delete, ast.Global, ast.Nonlocal,
)
FORBIDDEN_CALLS = {"exec", "eval", "setattr", "globals", "locals", "__import__", "delattr"}


@dataclass
class Module:
    name: str          # 'main'
    path: str          # absolute
    rel: str           # 'lbfgsb/main.py'
    tree: ast.Module
    src: str
    imports: Dict[str, str] = field(default_factory=dict)  # local name -> dotted origin


@dataclass
class Func:
    qual: str                  # 'main.minimize_lbfgsb', 'scalar_function.ScalarFunction.fun'
    name: str
    node: ast.FunctionDef
    module: Module
    parent: Optional["Func"]   # enclosing function for closures
    cls: Optional[str]         # enclosing class name

    @property
    def params(self) -> List[str]:
        a = self.node.args
        return [x.arg for x in a.posonlyargs + a.args + a.kwonlyargs]

    def defaults(self) -> Dict[str, ast.expr]:
        a = self.node.args
        out: Dict[str, ast.expr] = {}
        pos = a.posonlyargs + a.args
        for p, d in zip(pos[len(pos) - len(a.defaults):], a.defaults):
            out[p.arg] = d
        for p, d in zip(a.kwonlyargs, a.kw_defaults):
            if d is not None:
                out[p.arg] = d
        return out


_REF_CACHE: Dict[str, Optional[ast.Module]] = {}


def _normalised_reference(modname: str) -> Optional[ast.Module]:
    """the reference copy of a module (sa/reference) after the same normalisation as the tree under analysis"""
    if modname in _REF_CACHE:
        return copy_module(_REF_CACHE[modname])
    from . import alpha
    from .desugar import normalise
    from .inline import inline_module
    from .tables import KNOWN_FUNCS
    p = os.path.join(alpha.REF_DIR, modname + ".py")
    if not os.path.isfile(p):
        _REF_CACHE[modname] = None
        return None
    t = ast.parse(open(p, encoding="utf-8").read())
    normalise(t, modname)
    st: Dict[str, int] = {}
    inline_module(t, modname, KNOWN_FUNCS, st)
    if st:
        normalise(t, modname)
    _REF_CACHE[modname] = t
    return copy_module(t)


def copy_module(t):
    import copy as _c
    return _c.deepcopy(t) if t is not None else None


class Repo:
    def __init__(self, root: str, overlay: Optional[Dict[str, str]] = None):
        """overlay: {module file name: replacement source} -- used by the
        self-test to analyse a variant of the tree without writing it to disk"""
        self.overlay = overlay or {}
        self.root = os.path.abspath(root)
        self.pkgdir = os.path.join(self.root, PKG)
        if not os.path.isdir(self.pkgdir):
            raise AnalysisError(f"package directory {self.pkgdir} not found")
        self.modules: Dict[str, Module] = {}
        self.funcs: Dict[str, Func] = {}
        self.classes: Dict[str, ast.ClassDef] = {}
        self.inventory: Dict[str, int] = {}
        self.desugared: Dict[str, int] = {}
        self._load()

    # ------------------------------------------------------------------ load
    def _load(self) -> None:
        parsed: Dict[str, tuple] = {}
        # overlay entries that are not on disk are modules a variant adds (a split of a module)
        for fn in sorted(set(os.listdir(self.pkgdir)) | set(self.overlay)):
            if not fn.endswith(".py"):
                continue
            path = os.path.join(self.pkgdir, fn)
            src = self.overlay.get(fn)
            if src is None:
                src = open(path, encoding="utf-8").read()
            try:
                tree = ast.parse(src, filename=path)
            except SyntaxError as e:  # the tree does not compile
                raise AnalysisError(f"syntax error in {path}: {e}")
            parsed[fn] = (path, src, tree)
        # functions moved between modules of the package are put back where the rules (and the inliner) look for them
        from .rehome import rehome
        from .tables import KNOWN_FUNCS as _KF
        from . import alpha as _alpha
        differs = any(not (os.path.isfile(os.path.join(_alpha.REF_DIR, fn)) and open(os.path.join(_alpha.REF_DIR, fn), encoding="utf-8").read() == src)
                      for fn, (_, src, _) in parsed.items())
        trees_ = {fn[:-3]: t for fn, (_, _, t) in parsed.items()}
        if differs:
            for k_, v_ in rehome(trees_, _KF).items():
                self.desugared[k_] = self.desugared.get(k_, 0) + v_
        # renamed functions / parameters are named back (reference tree as dictionary); omitted constant defaults made explicit
        from .sigalign import sigalign
        for k_, v_ in sigalign(trees_, _KF, differs).items():
            self.desugared[k_] = self.desugared.get(k_, 0) + v_
        for fn, (path, src, tree) in parsed.items():
            from .desugar import normalise
            from .inline import inline_module
            from .tables import KNOWN_FUNCS
            from . import alpha
            refp = os.path.join(alpha.REF_DIR, fn)
            same_as_ref = os.path.isfile(refp) and open(refp, encoding="utf-8").read() == src
            nren = 0 if same_as_ref else alpha.align(tree, fn[:-3])   # locals renamed back to the reference names (raw shapes)
            for k_, v_ in normalise(tree, fn[:-3]).items():
                self.desugared[k_] = self.desugared.get(k_, 0) + v_
            before = dict(self.desugared)
            inline_module(tree, fn[:-3], KNOWN_FUNCS, self.desugared)
            if self.desugared != before:
                for k_, v_ in normalise(tree, fn[:-3]).items():
                    self.desugared[k_] = self.desugared.get(k_, 0) + v_
            if not same_as_ref:
                nren += alpha.align(tree, fn[:-3], _normalised_reference(fn[:-3]))   # ... and once more on the normalised shapes
            self.desugared["T0 locals renamed to reference names"] = self.desugared.get("T0 locals renamed to reference names", 0) + nren
            m = Module(fn[:-3], path, f"{PKG}/{fn}", tree, src)
            self.modules[m.name] = m
            self._imports(m)
            self._collect(m, tree.body, None, None, m.name)
        # subpackages would not be analysed: fail closed if one appears
        for fn in os.listdir(self.pkgdir):
            p = os.path.join(self.pkgdir, fn)
            if os.path.isdir(p) and fn != "__pycache__" and any(
                x.endswith(".py") for x in os.listdir(p)
            ):
                raise AnalysisError(f"unanalysed sub-package {p}")
        for m in self.modules.values():
            for n in ast.walk(m.tree):
                if isinstance(n, ast.stmt):
                    k = type(n).__name__
                    self.inventory[k] = self.inventory.get(k, 0) + 1
                    if not isinstance(n, SUPPORTED_STMTS):
                        raise AnalysisError(
                            f"unsupported construct {k} at {m.rel}:{n.lineno}")
                if isinstance(n, (ast.Yield, ast.YieldFrom, ast.Await, ast.NamedExpr)):
                    raise AnalysisError(
                        f"unsupported construct {type(n).__name__} at {m.rel}:{n.lineno}")
                if isinstance(n, ast.Call) and isinstance(n.func, ast.Name) \
                        and n.func.id in FORBIDDEN_CALLS:
                    raise AnalysisError(
                        f"dynamic feature {n.func.id}() at {m.rel}:{n.lineno}")

    def _imports(self, m: Module) -> None:
        for n in ast.walk(m.tree):
            if isinstance(n, ast.Import):
                for a in n.names:
                    m.imports[a.asname or a.name.split(".")[0]] = a.name if a.asname else a.name.split(".")[0]
            elif isinstance(n, ast.ImportFrom):
                for a in n.names:
                    m.imports[a.asname or a.name] = f"{n.module}.{a.name}"

    def _collect(self, m: Module, body, parent: Optional[Func], cls: Optional[str], prefix: str) -> None:
        for n in body:
            if isinstance(n, ast.FunctionDef):
                q = f"{prefix}.{n.name}"
                f = Func(q, n.name, n, m, parent, cls)
                if q in self.funcs:
                    # two definitions under different branches (e.g. update_grad):
                    # keep both, numbered
                    k = 2
                    while f"{q}#{k}" in self.funcs:
                        k += 1
                    q = f"{q}#{k}"
                    f.qual = q
                self.funcs[q] = f
                self._collect_nested(m, n, f, cls, q)
            elif isinstance(n, ast.ClassDef):
                self.classes[f"{prefix}.{n.name}"] = n
                self._collect(m, n.body, parent, n.name, f"{prefix}.{n.name}")

    def _collect_nested(self, m, fn_node, parent: Func, cls, prefix) -> None:
        # nested defs anywhere inside the body (including under if/else)
        for n in walk_no_nested(fn_node):
            if n is fn_node:
                continue
            if isinstance(n, ast.FunctionDef):
                q = f"{prefix}.{n.name}"
                f = Func(q, n.name, n, m, parent, cls)
                if q in self.funcs:
                    k = 2
                    while f"{q}#{k}" in self.funcs:
                        k += 1
                    q = f"{q}#{k}"
                    f.qual = q
                self.funcs[q] = f
                self._collect_nested(m, n, f, cls, q)

    # --------------------------------------------------------------- anchors
    def func(self, qual: str) -> Func:
        if qual not in self.funcs:
            raise AnalysisError(f"anchor function {qual} not found")
        return self.funcs[qual]

    def module(self, name: str) -> Module:
        if name not in self.modules:
            raise AnalysisError(f"anchor module {name} not found")
        return self.modules[name]

    def funcs_in(self, modname: str) -> List[Func]:
        return [f for f in self.funcs.values() if f.module.name == modname]

    def resolve_callee(self, f: Func, call: ast.Call) -> Optional[str]:
        """Resolve a call inside f to a qualified function of the package
        ('main.is_f0_target_reached') or to an external dotted name
        ('np.clip'); methods on known receivers are resolved through the
        receiver table."""
        d = dotted(call.func)
        if d is None:
            return None
        head = d.split(".")[0]
        # closure / sibling nested function
        g: Optional[Func] = f
        while g is not None:
            q = f"{g.qual.split('#')[0]}.{d}"
            if q in self.funcs:
                return q
            g = g.parent
        q = f"{f.module.name}.{d}"
        if q in self.funcs:
            return q
        if q in self.classes:
            return q + ".__init__" if q + ".__init__" in self.funcs else q
        imp = f.module.imports.get(head)
        if imp and imp.startswith(PKG + "."):
            rest = imp[len(PKG) + 1:] + d[len(head):]
            if rest in self.funcs:
                return rest
            if rest in self.classes:
                return rest + ".__init__" if rest + ".__init__" in self.funcs else rest
        # receiver table: the repository's own annotations / constructor names
        recv = RECEIVERS.get(head)
        if recv and "." in d:
            q = f"{recv}.{d.split('.', 1)[1]}"
            if q in self.funcs:
                return q
        if head == "self" and f.cls and "." in d:
            q = f"{f.module.name}.{f.cls}.{d.split('.', 1)[1]}"
            if q in self.funcs:
                return q
        return d  # external, as written (np.clip, sp.linalg.cholesky, len ...)


# receivers whose class is fixed by the repository's own annotations
# (`sf: ScalarFunction`, `mats: LBFGSB_MATRICES`); one line per name
RECEIVERS = {
    "sf": "scalar_function.ScalarFunction",
    "mats": "bfgsmats.LBFGSB_MATRICES",
}


# ------------------------------------------------------------------ ast utils
def walk_no_nested(node: ast.AST) -> Iterator[ast.AST]:
    """ast.walk that does not descend into nested function / class bodies
    (the nested def node itself is yielded)."""
    stack = [node]
    first = True
    while stack:
        n = stack.pop()
        yield n
        if not first and isinstance(n, (ast.FunctionDef, ast.ClassDef, ast.Lambda)):
            continue
        first = False
        stack.extend(reversed(list(ast.iter_child_nodes(n))))


def dotted(e: ast.AST) -> Optional[str]:
    """'a.b.c' for Name/Attribute chains, else None."""
    parts = []
    while isinstance(e, ast.Attribute):
        parts.append(e.attr)
        e = e.value
    if isinstance(e, ast.Name):
        parts.append(e.id)
        return ".".join(reversed(parts))
    return None


def src(e: Optional[ast.AST]) -> str:
    """normalised source of a node (independent of layout and comments)"""
    if e is None:
        return "<none>"
    try:
        return ast.unparse(e)
    except Exception:  # pragma: no cover
        return ast.dump(e)


def short(e: Optional[ast.AST], n: int = 110) -> str:
    s = " ".join(src(e).split())
    return s if len(s) <= n else s[: n - 3] + "..."


def calls_in(node: ast.AST, nested: bool = False) -> List[ast.Call]:
    it = ast.walk(node) if nested else walk_no_nested(node)
    return [n for n in it if isinstance(n, ast.Call)]


def names_in(e: ast.AST) -> List[str]:
    return [n.id for n in ast.walk(e) if isinstance(n, ast.Name)]


def bind_args(call: ast.Call, fdef: ast.FunctionDef, skip_self: bool = False) -> Dict[str, ast.expr]:
    """Bind the arguments of `call` to the parameter names of fdef.
    Defaults are not filled in; *args/**kwargs at the call are AnalysisError."""
    a = fdef.args
    pos = [x.arg for x in a.posonlyargs + a.args]
    if skip_self and pos and pos[0] in ("self", "cls"):
        pos = pos[1:]
    out: Dict[str, ast.expr] = {}
    for i, arg in enumerate(call.args):
        if isinstance(arg, ast.Starred):
            raise AnalysisError(f"starred argument at line {call.lineno}")
        if i >= len(pos):
            if a.vararg:
                out[f"*{a.vararg.arg}[{i - len(pos)}]"] = arg
                continue
            raise AnalysisError(f"too many positional arguments at line {call.lineno}")
        out[pos[i]] = arg
    for kw in call.keywords:
        if kw.arg is None:
            raise AnalysisError(f"**kwargs at line {call.lineno}")
        out[kw.arg] = kw.value
    return out


def kw(call: ast.Call, name: str) -> Optional[ast.expr]:
    for k in call.keywords:
        if k.arg == name:
            return k.value
    return None


def strip_wrappers(e: ast.expr, wrappers: Iterable[str]) -> ast.expr:
    """peel calls like np.atleast_2d(e), float(e), copy.copy(e)"""
    w = set(wrappers)
    while isinstance(e, ast.Call) and dotted(e.func) in w and len(e.args) >= 1:
        e = e.args[0]
    return e


def uncopy(e: Optional[ast.expr]) -> Optional[ast.expr]:
    """x for np.copy(x), np.array(x), x.copy(), x.astype(float)"""
    while e is not None:
        if isinstance(e, ast.Call) and dotted(e.func) in ("np.copy", "np.array", "copy.copy", "copy.deepcopy") and e.args:
            e = e.args[0]
        elif isinstance(e, ast.Call) and isinstance(e.func, ast.Attribute) and e.func.attr in ("copy", "astype"):
            e = e.func.value
        else:
            break
    return e


# --------------------------------------------------------------- obligations
@dataclass
class Ob:
    rule: str
    inst: str            # rule instance (what is being decided)
    file: str
    line: int
    func: str
    construct: str       # normalised source of the construct
    ok: bool
    fact: str            # supporting fact / refutation
    nontrivial: bool = True

    def key(self) -> Tuple[str, str, str]:
        return (self.rule, self.func, " ".join(self.construct.split()))

    def as_dict(self) -> dict:
        return {
            "rule": self.rule, "instance": self.inst,
            "where": f"{self.file}:{self.line}", "function": self.func,
            "construct": self.construct, "verdict": "discharged" if self.ok else "VIOLATED",
            "fact": self.fact,
        }


def ob(rule: str, inst: str, f: Func, node: Optional[ast.AST], ok: bool, fact: str,
       nontrivial: bool = True, construct: Optional[str] = None) -> Ob:
    line = getattr(node, "lineno", f.node.lineno) if node is not None else f.node.lineno
    return Ob(rule, inst, f.module.rel, line, f.qual,
              construct if construct is not None else short(node), ok, fact, nontrivial)


def need(cond: bool, msg: str) -> None:
    if not cond:
        raise AnalysisError(msg)


# ------------------------------------------------------------ boolean equivalence of small conditions
def _atom(e: ast.expr):
    """(atom key, polarity) with `not in` / `is not` / `!=` folded into the polarity"""
    if isinstance(e, ast.Compare) and len(e.ops) == 1:
        op = e.ops[0]
        l, r = src(e.left), src(e.comparators[0])
        neg = {ast.NotIn: ast.In, ast.IsNot: ast.Is, ast.NotEq: ast.Eq}
        if type(op) in neg:
            if type(op) in (ast.IsNot, ast.NotEq):
                l, r = sorted([l, r])
            return (f"{l} {neg[type(op)].__name__} {r}", False)
        if isinstance(op, (ast.Eq, ast.Is)) :
            a, b = sorted([l, r])
            return (f"{a} {type(op).__name__} {b}", True)
        # orderings:  a < b  ==  b > a ;  a >= b == not (a < b)   (NaN-free reading)
        if isinstance(op, ast.Gt):
            return (f"{r} Lt {l}", True)
        if isinstance(op, ast.GtE):
            return (f"{l} Lt {r}", False)
        if isinstance(op, ast.LtE):
            return (f"{r} Lt {l}", False)
        return (f"{l} {type(op).__name__} {r}", True)
    return (src(e), True)


def _boolfn(e: ast.expr, atoms: List[str]):
    if isinstance(e, ast.BoolOp):
        fs = [_boolfn(v, atoms) for v in e.values]
        if isinstance(e.op, ast.And):
            return lambda env: all(f(env) for f in fs)
        return lambda env: any(f(env) for f in fs)
    if isinstance(e, ast.UnaryOp) and isinstance(e.op, ast.Not):
        f = _boolfn(e.operand, atoms)
        return lambda env: not f(env)
    k, pol = _atom(e)
    if k not in atoms:
        atoms.append(k)
    return (lambda env: env[k]) if pol else (lambda env: not env[k])


def bool_equiv(a: ast.expr, b) -> bool:
    """are two small conditions logically equivalent (truth table over their atoms)? b may be source text"""
    if isinstance(b, str):
        b = ast.parse(b, mode="eval").body
    atoms: List[str] = []
    fa, fb = _boolfn(a, atoms), _boolfn(b, atoms)
    if len(atoms) > 8:
        return src(a) == src(b)
    for m in range(2 ** len(atoms)):
        env = {k: bool(m >> i & 1) for i, k in enumerate(atoms)}
        if fa(env) != fb(env):
            return False
    return True


# --------------------------------------------------------------- canonical spelling of small expressions
class _Canon(ast.NodeTransformer):
    """orientation-free spelling: operands of commutative operators sorted, `a > b` -> `b < a`, `a >= b` -> `b <= a`,
    x.dot(y) -> x @ y, np.transpose(X) -> X.T, np.dot(a, b) -> a @ b, unary plus dropped, float literals that are
    integers written as integers"""

    def visit_BinOp(self, n: ast.BinOp):
        self.generic_visit(n)
        if isinstance(n.op, (ast.Add, ast.Mult, ast.BitAnd, ast.BitOr)):
            a, b = sorted([n.left, n.right], key=lambda x: ast.dump(x))
            n.left, n.right = a, b
        return n

    def visit_BoolOp(self, n: ast.BoolOp):
        self.generic_visit(n)
        n.values = sorted(n.values, key=lambda x: ast.dump(x))
        return n

    def visit_Compare(self, n: ast.Compare):
        self.generic_visit(n)
        if len(n.ops) == 1:
            op = n.ops[0]
            if isinstance(op, ast.Gt):
                return ast.Compare(left=n.comparators[0], ops=[ast.Lt()], comparators=[n.left])
            if isinstance(op, ast.GtE):
                return ast.Compare(left=n.comparators[0], ops=[ast.LtE()], comparators=[n.left])
            if isinstance(op, (ast.Eq, ast.NotEq, ast.Is, ast.IsNot)):
                a, b = sorted([n.left, n.comparators[0]], key=lambda x: ast.dump(x))
                return ast.Compare(left=a, ops=[op], comparators=[b])
        return n

    def visit_Call(self, c: ast.Call):
        self.generic_visit(c)
        d = dotted(c.func) or ""
        if isinstance(c.func, ast.Attribute) and c.func.attr == "dot" and len(c.args) == 1 and not c.keywords and not d.startswith(("np.", "numpy.")):
            return ast.BinOp(left=c.func.value, op=ast.MatMult(), right=c.args[0])
        if d in ("np.dot", "np.matmul") and len(c.args) == 2 and not c.keywords:
            return ast.BinOp(left=c.args[0], op=ast.MatMult(), right=c.args[1])
        if d == "np.transpose" and len(c.args) == 1 and not c.keywords:
            return ast.Attribute(value=c.args[0], attr="T", ctx=ast.Load())
        return c

    def visit_UnaryOp(self, n: ast.UnaryOp):
        self.generic_visit(n)
        if isinstance(n.op, ast.UAdd):
            return n.operand
        return n

    def visit_Constant(self, n: ast.Constant):
        if isinstance(n.value, float) and n.value.is_integer() and abs(n.value) < 1e15:
            return ast.Constant(value=int(n.value))
        return n


def canon(e) -> str:
    """canonical text of an expression (an ast node or source text)"""
    import copy as _copy
    node = ast.parse(e, mode="eval").body if isinstance(e, str) else _copy.deepcopy(e)
    node = _Canon().visit(node)
    return ast.unparse(ast.fix_missing_locations(node)).replace(" ", "")


def canon_in(e, *forms: str) -> bool:
    c = canon(e)
    return any(c == canon(f) for f in forms)
