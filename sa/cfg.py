"""sa.cfg -- statement-level control-flow graph for one function.

Nodes: one per simple statement, one *test* node per atomic condition of an
`if` / `while` (short-circuit `and` / `or` / `not` are split), one `for` node
(evaluates the iterable / binds the target), one `with` node, one node per
`except` handler, plus ENTRY, EXIT (returns and fall-off) and RAISE (uncaught
raise).  Every node created inside a `try` body has an 'exc' edge to each
handler of that try.
"""
from __future__ import annotations

import ast
from typing import Callable, Dict, List, Optional, Sequence, Set, Tuple

import networkx as nx

from .core import AnalysisError, short


class Node:
    __slots__ = ("id", "kind", "ast", "owner", "loops", "tries")

    def __init__(self, id: int, kind: str, a: Optional[ast.AST], owner: Optional[ast.stmt]):
        self.id = id
        self.kind = kind      # entry exit raise stmt test for with handler loophead
        self.ast = a          # statement, or test expression, or handler
        self.owner = owner    # compound statement a test/for node belongs to
        self.loops: Tuple[ast.stmt, ...] = ()   # enclosing loops (outer→inner)
        self.tries: Tuple[ast.Try, ...] = ()    # enclosing try bodies

    @property
    def line(self) -> int:
        return getattr(self.ast, "lineno", 0) if self.ast is not None else 0

    def __repr__(self) -> str:
        return f"<{self.id}:{self.kind}:{self.line}:{short(self.ast, 40) if self.ast is not None else ''}>"


Edge = Tuple[Node, Optional[object]]   # (target, label): True / False / 'exc' / None


class CFG:
    def __init__(self, fn: ast.FunctionDef):
        self.fn = fn
        self.nodes: List[Node] = []
        self.succ: Dict[Node, List[Edge]] = {}
        self.pred: Dict[Node, List[Edge]] = {}
        self._loops: List[dict] = []
        self._tries: List[dict] = []
        self.entry = self._new("entry", None, None)
        self.exit = self._new("exit", None, None)
        self.raise_exit = self._new("raise", None, None)
        out = self._seq(fn.body, [(self.entry, None)])
        self._connect(out, self.exit)
        self._idom = None
        self._ipdom = None

    # ----------------------------------------------------------- construction
    def _new(self, kind, a, owner) -> Node:
        n = Node(len(self.nodes), kind, a, owner)
        n.loops = tuple(l["stmt"] for l in self._loops)
        n.tries = tuple(t["stmt"] for t in self._tries if t["in_body"])
        self.nodes.append(n)
        self.succ[n] = []
        self.pred[n] = []
        # exceptional edges to the handlers of every enclosing try body
        if kind in ("stmt", "test", "for", "with"):
            for t in reversed(self._tries):
                if t["in_body"]:
                    for h in t["handlers"]:
                        self._edge(n, h, "exc")
                    break  # innermost try only; handlers themselves are in outer tries
        return n

    def _edge(self, a: Node, b: Node, label) -> None:
        if (b, label) not in self.succ[a]:
            self.succ[a].append((b, label))
            self.pred[b].append((a, label))

    def _connect(self, frontier: Sequence[Edge], target: Node) -> None:
        for n, lab in frontier:
            self._edge(n, target, lab)

    def _seq(self, stmts: Sequence[ast.stmt], frontier: List[Edge]) -> List[Edge]:
        for s in stmts:
            frontier = self._stmt(s, frontier)
        return frontier

    def _cond(self, e: ast.expr, frontier: List[Edge], owner) -> Tuple[List[Edge], List[Edge]]:
        if isinstance(e, ast.BoolOp) and isinstance(e.op, ast.And):
            cur, falses = frontier, []
            for v in e.values:
                t, f = self._cond(v, cur, owner)
                cur = t
                falses += f
            return cur, falses
        if isinstance(e, ast.BoolOp) and isinstance(e.op, ast.Or):
            cur, trues = frontier, []
            for v in e.values:
                t, f = self._cond(v, cur, owner)
                trues += t
                cur = f
            return trues, cur
        if isinstance(e, ast.UnaryOp) and isinstance(e.op, ast.Not):
            t, f = self._cond(e.operand, frontier, owner)
            return f, t
        n = self._new("test", e, owner)
        self._connect(frontier, n)
        return [(n, True)], [(n, False)]

    def _stmt(self, s: ast.stmt, frontier: List[Edge]) -> List[Edge]:
        if isinstance(s, ast.If):
            t, f = self._cond(s.test, frontier, s)
            out = self._seq(s.body, t)
            out2 = self._seq(s.orelse, f) if s.orelse else f
            return out + out2
        if isinstance(s, ast.While):
            head = self._new("loophead", None, s)
            self._connect(frontier, head)
            self._loops.append({"stmt": s, "head": head, "breaks": []})
            t, f = self._cond(s.test, [(head, None)], s)
            body_out = self._seq(s.body, t)
            self._connect(body_out, head)
            ctx = self._loops.pop()
            else_out = self._seq(s.orelse, f) if s.orelse else f
            return else_out + ctx["breaks"]
        if isinstance(s, ast.For):
            self._loops.append({"stmt": s, "head": None, "breaks": []})
            self._loops.pop()
            head = self._new("for", s, s)
            self._connect(frontier, head)
            self._loops.append({"stmt": s, "head": head, "breaks": []})
            body_out = self._seq(s.body, [(head, True)])
            self._connect(body_out, head)
            ctx = self._loops.pop()
            else_out = self._seq(s.orelse, [(head, False)]) if s.orelse else [(head, False)]
            return else_out + ctx["breaks"]
        if isinstance(s, ast.Try):
            if s.finalbody:
                # no try/finally exists in the package; a new one must be modelled
                # before any path rule can be trusted
                for r in ast.walk(s):
                    if isinstance(r, (ast.Return, ast.Break, ast.Continue)):
                        raise AnalysisError(
                            f"unsupported construct try/finally with jump at line {s.lineno}")
            ctx = {"stmt": s, "handlers": [], "in_body": False}
            for h in s.handlers:
                ctx["handlers"].append(self._new("handler", h, s))
            ctx["in_body"] = True
            self._tries.append(ctx)
            body_out = self._seq(s.body, frontier)
            ctx["in_body"] = False
            self._tries.pop()
            body_out = self._seq(s.orelse, body_out) if s.orelse else body_out
            outs = list(body_out)
            for hnode, h in zip(ctx["handlers"], s.handlers):
                outs += self._seq(h.body, [(hnode, None)])
            if s.finalbody:
                outs = self._seq(s.finalbody, outs)
            return outs
        if isinstance(s, ast.With):
            n = self._new("with", s, s)
            self._connect(frontier, n)
            return self._seq(s.body, [(n, None)])
        n = self._new("stmt", s, None)
        self._connect(frontier, n)
        if isinstance(s, ast.Return):
            self._edge(n, self.exit, None)
            return []
        if isinstance(s, ast.Raise):
            if not any(lab == "exc" for _, lab in self.succ[n]):
                self._edge(n, self.raise_exit, None)
            return []
        if isinstance(s, ast.Break):
            if not self._loops:
                raise AnalysisError(f"break outside loop at line {s.lineno}")
            self._loops[-1]["breaks"].append((n, None))
            return []
        if isinstance(s, ast.Continue):
            if not self._loops:
                raise AnalysisError(f"continue outside loop at line {s.lineno}")
            self._edge(n, self._loops[-1]["head"], None)
            return []
        return [(n, None)]

    # ------------------------------------------------------------------ query
    def node_of(self, a: ast.AST) -> Node:
        """CFG node whose ast is `a`, or that contains `a` (smallest)."""
        for n in self.nodes:
            if n.ast is a:
                return n
        best = None
        for n in self.nodes:
            if n.ast is None or n.kind == "handler":
                continue
            root = n.ast
            if n.kind == "for":
                # the for node stands for target/iter only
                cands = [n.ast.target, n.ast.iter]
            elif n.kind == "with":
                cands = [i for i in n.ast.items]
            elif isinstance(root, (ast.FunctionDef, ast.ClassDef)):
                continue
            else:
                cands = [root]
            for c in cands:
                for sub in ast.walk(c):
                    if sub is a:
                        best = n
        if best is None:
            raise AnalysisError(f"no CFG node for {short(a)}")
        return best

    def stmts(self) -> List[Node]:
        return [n for n in self.nodes if n.kind in ("stmt", "test", "for", "with")]

    def graph(self, skip_exc: bool = False) -> nx.DiGraph:
        g = nx.DiGraph()
        g.add_nodes_from(self.nodes)
        for a, outs in self.succ.items():
            for b, lab in outs:
                if skip_exc and lab == "exc":
                    continue
                g.add_edge(a, b)
        return g

    def idom(self) -> Dict[Node, Node]:
        if self._idom is None:
            self._idom = nx.immediate_dominators(self.graph(), self.entry)
        return self._idom

    def dominates(self, a: Node, b: Node) -> bool:
        """a dominates b (every path entry→b passes a)."""
        idom = self.idom()
        if b not in idom:
            return False
        cur = b
        while True:
            if cur is a:
                return True
            nxt = idom.get(cur)
            if nxt is None or nxt is cur:
                return False
            cur = nxt

    def reachable(self, a: Node, avoid: Optional[Callable[[Node], bool]] = None,
                  follow_exc: bool = True, edge_ok: Optional[Callable] = None) -> Set[Node]:
        """nodes reachable from the successors of a (a itself only if on a cycle)."""
        seen: Set[Node] = set()
        stack = [b for b, lab in self.succ[a] if (follow_exc or lab != "exc")
                 and (edge_ok is None or edge_ok(a, b, lab))]
        while stack:
            n = stack.pop()
            if n in seen:
                continue
            if avoid is not None and avoid(n):
                continue
            seen.add(n)
            for b, lab in self.succ[n]:
                if not follow_exc and lab == "exc":
                    continue
                if edge_ok is not None and not edge_ok(n, b, lab):
                    continue
                stack.append(b)
        return seen

    def exists_path_avoiding(self, a: Node, b: Node, avoid: Callable[[Node], bool],
                             follow_exc: bool = False, edge_ok=None) -> bool:
        """is there a path a→…→b none of whose *interior* nodes satisfies avoid?"""
        def av(n: Node) -> bool:
            return n is not b and avoid(n)
        return b in self.reachable(a, av, follow_exc, edge_ok)

    def in_loop(self, n: Node, loop: ast.stmt) -> bool:
        return loop in n.loops or n.owner is loop

    def loop_nodes(self, loop: ast.stmt) -> List[Node]:
        return [n for n in self.nodes if self.in_loop(n, loop)]
