"""sa.alpha -- alpha-renaming of locals against the reference tree.

The rules name some locals of the solver (t_cur, delta_t, f_prime, dHat, best_stp, ...).  Renaming a local is the most
common refactoring of all and never changes behaviour, so before the rules run the locals of every known function are
renamed back to the names they have in the reference copy of the package kept under sa/reference/ (the tree the rules
were written against): statements of the current and of the reference function are aligned block by block on their
shape with local names erased; where two statements have the same shape, the names in corresponding positions vote for a
correspondence; a correspondence is applied when it is unanimous, one-to-one and cannot capture another name."""
from __future__ import annotations

import ast
import copy
import difflib
import os
from typing import Dict, List, Optional, Set, Tuple

REF_DIR = os.path.join(os.path.dirname(os.path.abspath(__file__)), "reference")


def _funcs(tree: ast.Module) -> Dict[str, ast.FunctionDef]:
    out: Dict[str, ast.FunctionDef] = {}

    def inner(fn, prefix):
        stack = list(ast.iter_child_nodes(fn))
        while stack:
            n = stack.pop()
            if isinstance(n, ast.FunctionDef):
                q = f"{prefix}.{n.name}"
                k = 2
                while q in out:
                    q = f"{prefix}.{n.name}#{k}"
                    k += 1
                out[q] = n
                inner(n, q.split("#")[0])
                continue
            if isinstance(n, (ast.ClassDef, ast.Lambda)):
                continue
            stack.extend(ast.iter_child_nodes(n))

    def walk(body, prefix):
        for n in body:
            if isinstance(n, ast.FunctionDef):
                out[f"{prefix}.{n.name}" if prefix else n.name] = n
                inner(n, f"{prefix}.{n.name}" if prefix else n.name)
            elif isinstance(n, ast.ClassDef):
                walk(n.body, f"{prefix}.{n.name}" if prefix else n.name)
    walk(tree.body, "")
    return out


def _own(fn):
    stack = list(ast.iter_child_nodes(fn))
    while stack:
        n = stack.pop()
        yield n
        if isinstance(n, (ast.FunctionDef, ast.ClassDef, ast.Lambda)):
            continue
        stack.extend(ast.iter_child_nodes(n))


def _locals(fn: ast.FunctionDef) -> Set[str]:
    a = fn.args
    params = {p.arg for p in a.posonlyargs + a.args + a.kwonlyargs}
    if a.vararg:
        params.add(a.vararg.arg)
    if a.kwarg:
        params.add(a.kwarg.arg)
    out: Set[str] = set()
    glob: Set[str] = set()
    for n in _own(fn):
        if isinstance(n, ast.Name) and isinstance(n.ctx, (ast.Store, ast.Del)):
            out.add(n.id)
        elif isinstance(n, (ast.Global, ast.Nonlocal)):
            glob |= set(n.names)
        elif isinstance(n, ast.ExceptHandler) and n.name:
            out.add(n.name)
    return out - params - glob


class _Erase(ast.NodeTransformer):
    def __init__(self, names: Set[str]):
        self.names = names

    def visit_Name(self, n: ast.Name):
        if n.id in self.names:
            return ast.Name(id="§", ctx=n.ctx)
        return n

    def visit_FunctionDef(self, n):
        return n


BODY_FIELDS = ("body", "orelse", "finalbody", "handlers")


def _header(s: ast.stmt) -> ast.AST:
    """the statement without its nested blocks"""
    c = copy.copy(s)
    for f in BODY_FIELDS:
        if hasattr(c, f):
            setattr(c, f, [])
    return c


def _key(s: ast.stmt, names: Set[str]) -> str:
    if isinstance(s, ast.FunctionDef):
        return f"def {s.name}"
    h = _Erase(names).visit(copy.deepcopy(_header(s)))
    return type(s).__name__ + ":" + ast.dump(h, annotate_fields=False)


def _pairs(a: ast.AST, b: ast.AST):
    """nodes of two isomorphic trees in corresponding positions"""
    sa, sb = [a], [b]
    while sa and sb:
        x, y = sa.pop(), sb.pop()
        yield x, y
        cx, cy = list(ast.iter_child_nodes(x)), list(ast.iter_child_nodes(y))
        if len(cx) != len(cy):
            continue
        sa.extend(cx)
        sb.extend(cy)


def _vote(cur_block: List[ast.stmt], ref_block: List[ast.stmt], cl: Set[str], rl: Set[str], votes: Dict[str, Dict[str, int]]):
    ck = [_key(s, cl) for s in cur_block]
    rk = [_key(s, rl) for s in ref_block]
    sm = difflib.SequenceMatcher(a=ck, b=rk, autojunk=False)
    for i, j, n in sm.get_matching_blocks():
        for d in range(n):
            cs, rs = cur_block[i + d], ref_block[j + d]
            if isinstance(cs, ast.FunctionDef):
                continue
            for x, y in _pairs(_header(cs), _header(rs)):
                if isinstance(x, ast.Name) and isinstance(y, ast.Name) and x.id in cl and y.id in rl:
                    votes.setdefault(x.id, {}).setdefault(y.id, 0)
                    votes[x.id][y.id] += 1
            for f in ("body", "orelse", "finalbody"):
                cb, rb = getattr(cs, f, None), getattr(rs, f, None)
                if isinstance(cb, list) and isinstance(rb, list) and cb and rb and isinstance(cb[0], ast.stmt):
                    _vote(cb, rb, cl, rl, votes)
            if isinstance(cs, ast.Try) and isinstance(rs, ast.Try) and len(cs.handlers) == len(rs.handlers):
                for hc, hr in zip(cs.handlers, rs.handlers):
                    _vote(hc.body, hr.body, cl, rl, votes)


class _Rename(ast.NodeTransformer):
    def __init__(self, m: Dict[str, str]):
        self.m = m

    def visit_Name(self, n: ast.Name):
        if n.id in self.m:
            n.id = self.m[n.id]
        return n

    def _scoped(self, n, bound: Set[str]):
        inner = {k: v for k, v in self.m.items() if k not in bound}
        old, self.m = self.m, inner
        self.generic_visit(n)
        self.m = old
        return n

    def visit_FunctionDef(self, n: ast.FunctionDef):
        a = n.args
        bound = {p.arg for p in a.posonlyargs + a.args + a.kwonlyargs} | _locals(n)
        return self._scoped(n, bound)

    def visit_Lambda(self, n: ast.Lambda):
        return self._scoped(n, {p.arg for p in n.args.args})

    def visit_ExceptHandler(self, n: ast.ExceptHandler):
        if n.name in self.m:
            n.name = self.m[n.name]
        self.generic_visit(n)
        return n


def align_module(cur: ast.Module, ref: ast.Module) -> int:
    cf, rf = _funcs(cur), _funcs(ref)
    renamed = 0
    for q, cfn in cf.items():
        rfn = rf.get(q)
        if rfn is None:
            continue
        cl, rl = _locals(cfn), _locals(rfn)
        if not cl or cl == rl and False:
            continue
        votes: Dict[str, Dict[str, int]] = {}
        _vote(cfn.body, rfn.body, cl, rl, votes)
        m: Dict[str, str] = {}
        for c, cand in votes.items():
            r, k = max(cand.items(), key=lambda kv: kv[1])
            tot = sum(cand.values())
            # unanimous, or a clear majority (statements of equal shape can be aligned with the wrong twin)
            if not (len(cand) == 1 or (k >= 3 and 3 * k >= 2 * tot and sorted(cand.values())[-2] * 2 <= k)):
                continue
            if r != c:
                m[c] = r
        # one-to-one
        tgt: Dict[str, List[str]] = {}
        for c, r in m.items():
            tgt.setdefault(r, []).append(c)
        m = {c: r for c, r in m.items() if len(tgt[r]) == 1}
        # no capture: the new name must not be another name of the current function, unless that one is renamed away too
        used = {n.id for n in ast.walk(cfn) if isinstance(n, ast.Name)} | {a.arg for a in cfn.args.posonlyargs + cfn.args.args + cfn.args.kwonlyargs}
        changed = True
        while changed:
            changed = False
            for c, r in list(m.items()):
                if r in used and r not in m:
                    del m[c]
                    changed = True
        if not m:
            continue
        # simultaneous renaming (cycles allowed)
        body_holder = ast.Module(body=cfn.body, type_ignores=[])
        _Rename(dict(m)).generic_visit(body_holder)
        cfn.body = body_holder.body
        renamed += len(m)
    return renamed


def align(tree: ast.Module, modname: str, ref_tree: Optional[ast.Module] = None) -> int:
    if ref_tree is None:
        p = os.path.join(REF_DIR, modname + ".py")
        if not os.path.isfile(p):
            return 0
        ref_tree = ast.parse(open(p, encoding="utf-8").read())
    return align_module(tree, ref_tree)
