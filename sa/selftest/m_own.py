from . import M, Q

# ---- OWN
M("own-pinned-grad-inplace", "main.py",
  "        grad = np.copy(checkpoint.jac)\n", "        grad = checkpoint.jac\n        grad *= sf.scaling_factor\n",
  ["OWN"], canary=True, note="pinned defect 9: caller's checkpoint.jac scaled in place (since fix 21 the restart works on a private copy, "
                              "so the pinned form needs the reference back)")
Q("own-grad-inplace-on-private-copy", "main.py",
  "    grad = grad * sf.scaling_factor\n", "    grad *= sf.scaling_factor\n",
  ["OWN"], note="since fix 21 (d36457b) grad is a private array on both branches: not an ownership violation any more")
M("own-x0-view-then-inplace", "main.py",
  "    x = clip2bounds(x0, lb, ub)\n", "    x = np.asarray(x0)\n    x += 0.0\n", ["OWN"])
M("own-clip-out-x0", "main.py",
  "    x = clip2bounds(x0, lb, ub)\n", "    x = np.clip(x0, lb, ub, out=x0)\n", ["OWN"])
M("own-cauchy-writes-grad", "cauchy.py",
  "        d[ibp] = 0\n", "        d[ibp] = 0\n        grad[ibp] = 0\n", ["OWN"],
  note="callee corrupts its caller's gradient")
M("own-subspace-writes-xc", "subspacemin.py",
  "    return xc + alpha_star * Z @ dHat\n", "    xc += alpha_star * Z @ dHat\n    return xc\n", ["OWN"])
M("own-lb-inplace", "main.py",
  "    is_boxed: bool = not is_any_inf([lb, ub])\n",
  "    is_boxed: bool = not is_any_inf([lb, ub])\n    bounds[:, 0] -= 0.0\n", ["OWN"])
M("own-checkpoint-sk-sort", "main.py",
  "    n_corrs, n = checkpoint.hess_inv.sk.shape\n",
  "    n_corrs, n = checkpoint.hess_inv.sk.shape\n    checkpoint.hess_inv.sk.sort()\n", ["OWN"])
M("own-projgr-inplace", "base.py",
  "    return np.max(np.abs(np.clip(x - grad, lb, ub) - x))\n",
  "    grad -= x\n    return np.max(np.abs(np.clip(-grad, lb, ub) - x))\n", ["OWN"])
Q("own-grad-rebinding", "main.py",
  "    grad = grad * sf.scaling_factor\n", "    grad = sf.scaling_factor * grad\n", ["OWN"])
Q("own-grad-copy-then-inplace", "main.py",
  "        grad = grad * sf.scaling_factor\n", "        grad = grad.copy()\n        grad *= sf.scaling_factor\n", ["OWN"])
Q("own-x-inplace-on-private", "main.py",
  "            x = np.clip(x + steplength * d, lb, ub)\n",
  "            x += steplength * d\n            np.clip(x, lb, ub, out=x)\n", ["OWN"],
  note="x is the solver's own clipped copy: in-place update is not an ownership violation")

# ---- SHARED
M("shared-pinned-defaults", "linesearch.py",
  "    isave: Optional[NDArrayFloat] = None,\n    dsave: Optional[NDArrayFloat] = None,\n",
  "    isave: NDArrayFloat = np.zeros((2,), np.intc),\n    dsave: NDArrayFloat = np.zeros((13,), np.float64),\n",
  ["SHARED"], canary=True, note="pinned defect 10")
M("shared-module-cache", "main.py",
  "class ObjectiveFunction(Protocol):", "_CACHE = {}\n\n\nclass ObjectiveFunction(Protocol):",
  ["SHARED"], also=[("main.py", "    lb, ub = get_bounds(x0, bounds)\n", "    lb, ub = get_bounds(x0, bounds)\n    _CACHE[n_key(x0)] = lb\n")])
M("shared-class-write", "main.py",
  "    istate = InternalState()\n", "    istate = InternalState()\n    InternalState.nit = 0\n", ["SHARED"])
M("shared-class-list", "main.py",
  "    warnflag = 2\n", "    warnflag = 2\n    history = []\n", ["SHARED"])
M("shared-global-stmt", "scalar_function.py",
  "        def fun_wrapped(x):\n            self.nfev += 1\n",
  "        def fun_wrapped(x):\n            global _NCALLS\n            _NCALLS = 1\n            self.nfev += 1\n", ["SHARED"])
M("shared-lru-cache", "base.py",
  "def is_any_inf(", "@functools.lru_cache(maxsize=None)\ndef is_any_inf(", ["SHARED"])
M("shared-mutable-default-list", "bfgsmats.py",
  "    is_check_factorization: bool = False,\n) -> LBFGSB_MATRICES:",
  "    is_check_factorization: bool = False,\n    _log: list = [],\n) -> LBFGSB_MATRICES:",
  ["SHARED"], also=[("bfgsmats.py", "    if is_force_update or is_current_update_accepted:\n",
                     "    _log.append(1)\n    if is_force_update or is_current_update_accepted:\n")])
Q("shared-none-default-alloc", "linesearch.py",
  "    if isave is None:\n        isave = np.zeros((2,), np.intc)\n",
  "    if isave is None:\n        isave = np.zeros(2, dtype=np.intc)\n", ["SHARED", "OWN"])
Q("shared-module-constant", "bfgsmats.py",
  "class LBFGSB_MATRICES:", "_DEFAULT_EPS = 2.2e-16\n\n\nclass LBFGSB_MATRICES:", ["SHARED"])

# ---- NONDET
M("nondet-random-restart", "main.py",
  "import copy\nimport logging\n", "import copy\nimport logging\nimport random\n", ["NONDET"], canary=True)
M("nondet-np-random", "linesearch.py",
  "        steplength_0 = min(1.0, max_steplength)\n", "        steplength_0 = min(1.0, max_steplength) + 0.0 * np.random.rand()\n", ["NONDET"])
M("nondet-id", "scalar_function.py",
  "        self.n = self.x.size\n", "        self.n = self.x.size\n        self._key = id(x0)\n", ["NONDET"])

# ---- SHARED: process-wide settings (round 5)
M("shared-seterr-manual-restore", "utils.py", "    return 1.0 / max_change\n", "    old = np.seterr(divide=\"ignore\")\n    out = 1.0 / max_change\n    np.seterr(**old)\n    return out\n", ["SHARED"])
