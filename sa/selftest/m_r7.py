"""round 7: mutants of the clauses added in that round (ESC ownership of stored objects = pinned form of finding 21,
OWN on elements taken out of the history containers, ...); the seeded changes R7_* exercise them too"""
from . import M, Q

# finding 21 (pinned form): the caller's checkpoint.jac held by reference in the gradient history
M("esc-checkpoint-jac-by-reference", "main.py",
  "        grad = np.copy(checkpoint.jac)\n", "        grad = checkpoint.jac\n", ["ESC"], canary=True,
  note="pinned defect 21: a callback refreshing the kept checkpoint in place rewrites a retained gradient")
M("esc-x0-by-reference", "main.py",
  "        X.append(np.copy(x))\n", "        X.append(np.asarray(x0, dtype=np.float64))\n", ["ESC"],
  note="the caller's x0 buffer becomes the oldest retained point (R7_C18-a)")
Q("esc-checkpoint-jac-array-copy", "main.py",
  "        grad = np.copy(checkpoint.jac)\n", "        grad = np.array(checkpoint.jac, dtype=np.float64)\n", ["ESC"],
  note="np.array copies by default: still a private object")
M("own-recycle-evicted-buffers", "bfgsmats.py",
  "        X.popleft()\n        G.popleft()\n",
  "        x_old, g_old = X.popleft(), G.popleft()\n        np.copyto(x_old, X[-1])\n        np.copyto(g_old, G[-1])\n",
  ["OWN"], canary=True,
  note="writes into arrays taken out of the history: after a restart one of them is the caller's checkpoint.jac, "
       "others are state.jac of states already handed out (R7_C14-b, R7_C20-b, R7_C07-b)")
Q("own-evicted-buffers-dropped", "bfgsmats.py",
  "        X.popleft()\n        G.popleft()\n",
  "        _x_old, _g_old = X.popleft(), G.popleft()\n        del _x_old, _g_old\n",
  ["OWN"], note="taking the evicted arrays out without writing them is not a write")

# findings 22 and 23 are open: the rules report the unmodified tree (KNOWN-FINDING); these are the *repaired* forms,
# on which the rules must be silent
Q("fdfixed-masked-component", "scalar_function.py",
  "                    fun_wrapped, self.x, f0=self.f, **finite_diff_options\n                )\n",
  "                    fun_wrapped, self.x, f0=self.f, **finite_diff_options\n                )\n"
  "                self.g[np.equal(finite_diff_bounds[0], finite_diff_bounds[1])] = 0.0\n",
  ["FDFIXED"], note="the component of a variable fixed by lb == ub is masked after the differencing")
Q("cholguard-handled", "bfgsmats.py",
  "    J = sp.linalg.cholesky(theta * STS + L @ invD @ L.T, lower=True)\n",
  "    try:\n        J = sp.linalg.cholesky(theta * STS + L @ invD @ L.T, lower=True)\n"
  "    except np.linalg.LinAlgError:\n        return None\n",
  ["CHOLGUARD"], note="the failure is handled (the caller would refresh the memory on None)")

# finding 24 (pinned form): an accumulator that inherits the integer type of the point
M("arrlike-accumulator-inherits-int", "benchmarks.py",
  "    grad = np.zeros_like(x, dtype=np.result_type(x, float))\n", "    grad = np.zeros_like(x)\n", ["ARRLIKE"], canary=True,
  note="pinned defect 24: beale_grad(np.array([1, -2, 3])) raised UFuncTypeError")
