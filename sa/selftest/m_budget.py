from . import M, Q

M("ret-pinned-return-checkpoint", "main.py",
  """            return OptimizeResult(
                fun=f0,
                jac=checkpoint.jac,
                nfev=sf.nfev,
                njev=sf.ngev,
                nit=istate.nit,
                status=istate.warnflag,
                message=istate.task_str,
                x=x,
                success=istate.is_success,
                scaling_factor=sf.scaling_factor,
                hess_inv=LbfgsInvHessProduct(
                    checkpoint.hess_inv.sk[-maxcor:], checkpoint.hess_inv.yk[-maxcor:]
                ),
            )
""", "            return checkpoint\n", ["RET"], canary=True, note="pinned defect 5")
M("ret-stale-message", "main.py",
  "                message=istate.task_str,\n                x=x,\n                success=istate.is_success,\n                scaling_factor=sf.scaling_factor,\n                hess_inv=LbfgsInvHessProduct(\n                    checkpoint.hess_inv.sk",
  "                message=checkpoint.message,\n                x=x,\n                success=istate.is_success,\n                scaling_factor=sf.scaling_factor,\n                hess_inv=LbfgsInvHessProduct(\n                    checkpoint.hess_inv.sk",
  ["RET"])
M("ret-njev-from-nfev-final", "main.py",
  "    return OptimizeResult(\n        fun=f0,\n        jac=grad,\n        nfev=sf.nfev,\n        njev=sf.ngev,\n",
  "    return OptimizeResult(\n        fun=f0,\n        jac=grad,\n        nfev=sf.nfev,\n        njev=sf.nfev,\n", ["RET", "CNT"])
M("nitb-guard-drop-maxfun", "main.py",
  "        and sf.nfev < maxfun\n        and not istate.is_success\n", "        and not istate.is_success\n", ["NITB"], canary=True)
M("nitb-guard-or", "main.py",
  "        and istate.nit < maxiter\n        and sf.nfev < maxfun\n", "        and (istate.nit < maxiter or sf.nfev < maxfun)\n", ["NITB"])
M("nitb-guard-le", "main.py", "        and istate.nit < maxiter\n", "        and istate.nit <= maxiter\n", ["NITB"])
M("nitb-increment-skipped-on-retry", "main.py",
  "                # Reboot BFGS-Hessian\n                mats = LBFGSB_MATRICES(n)\n",
  "                # Reboot BFGS-Hessian\n                mats = LBFGSB_MATRICES(n)\n                continue\n", ["NITB"],
  note="retries are not counted: maxiter no longer bounds the work")
M("nitb-double-increment", "main.py",
  "                    istate.task_str = \"STOP: USER CALLBACK\"\n", "                    istate.nit += 1\n                    istate.task_str = \"STOP: USER CALLBACK\"\n", ["NITB"])
M("nitb-extra-eval-in-loop", "main.py",
  "        d = xbar - x\n", "        d = xbar - x\n        _fbar = sf.fun(xbar)\n", ["NITB"])
M("once-ftarget-in-loop", "main.py",
  "        f0_old = copy.copy(f0)\n", "        f0_old = copy.copy(f0)\n        _ftarget = ftarget() if callable(ftarget) else ftarget\n", ["ONCE"], canary=True)
M("once-gtol-twice", "main.py",
  "    # Create an internal state instance\n", "    _gtol = gtol() if callable(gtol) else _gtol\n    # Create an internal state instance\n", ["ONCE"])
M("lscap-maxls-only", "main.py", "            min(maxls, maxfun - sf.nfev),\n", "            maxls,\n", ["LSCAP"], canary=True)
M("lscap-wrong-counter", "main.py", "            min(maxls, maxfun - sf.nfev),\n", "            min(maxls, maxfun - sf.ngev),\n", ["LSCAP"])
M("keep-x-moved-on-retry", "main.py",
  "                istate.task_str = \"RESTART_FROM_LNSRCH\"\n", "                istate.task_str = \"RESTART_FROM_LNSRCH\"\n                x = np.clip(x + 1e-8 * d, lb, ub)\n", ["KEEP"], canary=True)
M("keep-grad-inplace-on-retry", "main.py",
  "                istate.task_str = \"RESTART_FROM_LNSRCH\"\n", "                istate.task_str = \"RESTART_FROM_LNSRCH\"\n                grad *= 0.5\n", ["KEEP"])
M("retry-abort-at-first-failure", "main.py", "            if len(X) == 1:\n", "            if len(X) >= 1:\n", ["RETRY"], canary=True)
M("retry-mats-not-reset", "main.py", "                # Reboot BFGS-Hessian\n                mats = LBFGSB_MATRICES(n)\n", "", ["RETRY"])
M("retry-break-in-retry", "main.py", "                # Reboot BFGS-Hessian\n                mats = LBFGSB_MATRICES(n)\n",
  "                # Reboot BFGS-Hessian\n                mats = LBFGSB_MATRICES(n)\n                break\n", ["RETRY", "EXIT"])
M("retry-keeps-oldest", "main.py", "                X = Deque([X[-1]])\n", "                X = Deque([X[0]])\n", ["RETRY"])
Q("retry-lt-2", "main.py", "            if len(X) == 1:\n", "            if len(X) < 2:\n", ["RETRY"])
Q("retry-deque-ctor", "main.py", "                X = Deque([X[-1]])\n                G = Deque([G[-1]])\n", "                G = deque([G[-1]])\n                X = deque([X[-1]])\n", ["RETRY"])
Q("lscap-name", "main.py", "        steplength = line_search(\n", "        _cap = min(maxls, maxfun - sf.nfev)\n        steplength = line_search(\n", ["LSCAP"],
  also=[("main.py", "            min(maxls, maxfun - sf.nfev),\n", "            _cap,\n")])
Q("nitb-flipped-guard", "main.py", "        and istate.nit < maxiter\n", "        and maxiter > istate.nit\n", ["NITB", "EXIT"])

M("accept-last-trial-when-budget-out", "main.py", "            x = np.clip(x + steplength * d, lb, ub)\n",
  "            if sf.nfev >= maxfun:\n                x = np.copy(sf.x)\n            else:\n                x = np.clip(x + steplength * d, lb, ub)\n",
  ["ACCEPT", "BOX"], canary=True, note="seeded change C03-b: the wrapper's last trial becomes the iterate")
M("accept-step-rescaled", "main.py", "            x = np.clip(x + steplength * d, lb, ub)\n", "            steplength = min(steplength, 1.0) * 1.0\n            x = np.clip(x + steplength * d, lb, ub)\n", ["ACCEPT"])
M("accept-other-direction", "main.py", "            x = np.clip(x + steplength * d, lb, ub)\n", "            x = np.clip(x + steplength * (x_cp - x), lb, ub)\n", ["ACCEPT"])
Q("accept-inplace", "main.py", "            x = np.clip(x + steplength * d, lb, ub)\n", "            x = x + steplength * d\n            np.clip(x, lb, ub, out=x)\n", ["ACCEPT"])
