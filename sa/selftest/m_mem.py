from . import M, Q

M("mem-curvature-ge", "bfgsmats.py", "    if sTy > eps * yTy:\n", "    if sTy >= eps * yTy:\n", ["MEM"], canary=True)
M("mem-curvature-abs", "bfgsmats.py", "    if sTy > eps * yTy:\n", "    if abs(sTy) > eps * yTy:\n", ["MEM"])
M("mem-curvature-sts", "bfgsmats.py", "    yTy = (yk).dot(yk)  # type: ignore\n\n    # See eq. (3.9)", "    yTy = (xk - x_old).dot(xk - x_old)  # type: ignore\n\n    # See eq. (3.9)", ["MEM"])
M("mem-append-before-test", "bfgsmats.py",
  "    if not is_update_X_and_G(xk, gk, X[-1], G[-1], eps):\n        return False\n\n    X.append(xk)\n    G.append(gk)\n",
  "    X.append(xk)\n    G.append(gk)\n    if not is_update_X_and_G(xk, gk, X[-2], G[-2], eps):\n        return False\n", ["MEM"])
M("mem-pop-newest", "bfgsmats.py", "        X.popleft()\n        G.popleft()\n\n    return True", "        X.pop()\n        G.pop()\n\n    return True", ["MEM"])
M("mem-bound-maxcor", "bfgsmats.py", "    if len(X) > maxcor + 1:\n", "    if len(X) > maxcor + 2:\n", ["MEM"])
M("mem-bound-ge", "bfgsmats.py", "    if len(X) > maxcor + 1:\n", "    if len(X) >= maxcor + 1:\n", ["MEM"], note="memory holds maxcor-1 pairs: pre-form used after the append")
M("mem-g-popleft-removed", "bfgsmats.py", "        X.popleft()\n        G.popleft()\n\n    return True", "        X.popleft()\n\n    return True", ["MEM"])
M("mem-force-update", "main.py", "                mats,\n                is_force_update=False,\n                eps=eps_SY,\n                is_check_factorization=is_check_factorization,\n            )\n\n            # callback",
  "                mats,\n                is_force_update=True,\n                eps=eps_SY,\n                is_check_factorization=is_check_factorization,\n            )\n\n            # callback", ["MEM"])
M("mem-theta-outside-gate", "bfgsmats.py", "    if is_force_update or is_current_update_accepted:\n", "    mats.theta = 1.0\n    if is_force_update or is_current_update_accepted:\n", ["MEM"])
M("mem-guard-wrong-neighbour", "bfgsmats.py", "    if not is_update_X_and_G(xk, gk, X[-1], G[-1], eps):\n", "    if not is_update_X_and_G(xk, gk, X[0], G[0], eps):\n", ["MEM"])
M("mem-filter-guard-mixed", "bfgsmats.py", "        if not is_update_X_and_G(X[k], G[k], _X[0], _G[0], eps):\n", "        if not is_update_X_and_G(X[k], G[k], _X[-1], _G[-1], eps):\n", ["MEM"])
M("mem-restore-pop-newest", "main.py", "        if len(X) > maxcor:\n            X.popleft()\n            G.popleft()\n", "        if len(X) > maxcor:\n            X.pop()\n            G.pop()\n", ["MEM"])
M("mem-restore-unbounded", "main.py", "        if len(X) > maxcor:\n            X.popleft()\n            G.popleft()\n        X.append(x)", "        X.append(x)", ["MEM"])
Q("mem-bound-eq", "bfgsmats.py", "    if len(X) > maxcor + 1:\n", "    if len(X) == maxcor + 2:\n", ["MEM"])
Q("mem-test-in-name", "bfgsmats.py", "    if not is_update_X_and_G(xk, gk, X[-1], G[-1], eps):\n        return False\n",
  "    if is_update_X_and_G(xk, gk, X[-1], G[-1], eps):\n        pass\n    else:\n        return False\n", ["MEM"])
Q("mem-curvature-flipped", "bfgsmats.py", "    if sTy > eps * yTy:\n", "    if eps * yTy < sTy:\n", ["MEM"])
Q("mem-curvature-npdot", "bfgsmats.py", "    sTy = (xk - x_old).dot(yk)  # type: ignore\n    yTy = (yk).dot(yk)  # type: ignore\n\n    # See eq. (3.9)",
  "    sTy = np.dot(yk, xk - x_old)\n    yTy = yk @ yk\n\n    # See eq. (3.9)", ["MEM"])

FIX8 = "        if update_fun_def is not None:\n            # the gradient sequence may have been rewritten: filter it\n            X, G = make_X_and_G_respect_strong_wolfe(X, G, eps_SY, logger=logger)\n"
M("filt-pinned-preloop", "main.py", FIX8, "", ["FILT"], canary=True, note="pinned defect 8")
M("filt-pinned-inloop-after-breaks", "main.py",
  "                X, G = make_X_and_G_respect_strong_wolfe(X, G, eps_SY, logger=logger)\n\n                # Check stop criterion: minimum relative change in the\n                # objective function\n                if is_f0_min_change_reached(f0, f0_old, ftol, istate):\n                    break  # the while loop\n\n                # Check stop criterion: minimum objective function value\n                elif is_f0_target_reached(f0 / sf.scaling_factor, _ftarget, istate):\n                    break  # the while loop\n",
  "                if is_f0_min_change_reached(f0, f0_old, ftol, istate):\n                    break  # the while loop\n\n                # Check stop criterion: minimum objective function value\n                elif is_f0_target_reached(f0 / sf.scaling_factor, _ftarget, istate):\n                    break  # the while loop\n                X, G = make_X_and_G_respect_strong_wolfe(X, G, eps_SY, logger=logger)\n",
  ["FILT"], note="pinned defect 13")
M("filt-removed-inloop", "main.py", "                X, G = make_X_and_G_respect_strong_wolfe(X, G, eps_SY, logger=logger)\n\n                # Check stop criterion", "\n                # Check stop criterion", ["FILT"])
M("filt-result-dropped", "main.py", "                X, G = make_X_and_G_respect_strong_wolfe(X, G, eps_SY, logger=logger)\n\n                # Check stop criterion", "                make_X_and_G_respect_strong_wolfe(X, G, eps_SY, logger=logger)\n\n                # Check stop criterion", ["FILT"])
M("seed-oldest", "bfgsmats.py", "    _X, _G = Deque([X[-1]]), Deque([G[-1]])\n", "    _X, _G = Deque([X[0]]), Deque([G[0]])\n", ["SEED"], canary=True)
M("seed-pop-after", "bfgsmats.py", "    if len(_G) != len(G) and logger is not None:\n", "    if len(_X) > 3:\n        _X.pop()\n        _G.pop()\n    if len(_G) != len(G) and logger is not None:\n", ["SEED", "MEM"])
M("flow-args-swapped", "main.py", "f0, f0_old, grad, G = update_fun_def(x, f0, f0_old, grad, X, G)", "f0, f0_old, grad, G = update_fun_def(x, f0, f0_old, grad, G, X)", ["FLOW"], canary=True)
M("flow-g-not-rebound", "main.py", "f0, f0_old, grad, G = update_fun_def(x, f0, f0_old, grad, X, G)", "f0, f0_old, grad, _G_new = update_fun_def(x, f0, f0_old, grad, X, G)", ["FLOW"])

# ---- MAXLEN (round 3)
M("maxlen-too-small", "main.py", "    X: Deque[NDArrayFloat] = deque()\n", "    X: Deque[NDArrayFloat] = deque(maxlen=maxcor)\n", ["MAXLEN"], canary=True)
M("maxlen-from-checkpoint", "main.py", "    G: Deque[NDArrayFloat] = deque()\n", "    G: Deque[NDArrayFloat] = deque(maxlen=len(checkpoint.hess_inv.sk) + 1 if checkpoint is not None else None)\n", ["MAXLEN"])
Q("maxlen-exact", "main.py", "    X: Deque[NDArrayFloat] = deque()\n", "    X: Deque[NDArrayFloat] = deque(maxlen=maxcor + 1)\n", ["MAXLEN", "MEM"])

# ---- USEFACT (round 5)
M("usefact-allclose", "bfgsmats.py", "        return self.invMfactors[0].size != 1 or self.invMfactors[0][0, 0] != 0\n", "        return not np.allclose(self.invMfactors[0], 0.0)\n", ["USEFACT"], canary=True)

# round 6: ANCHOR.  The pinned tree has the open finding (a rejected pair returns without storing the point); the
# quiet twin shows the rule can be discharged, the mutant adds a second unanchored exit.
Q("anchor-store-on-every-path", "bfgsmats.py",
  "    if not is_update_X_and_G(xk, gk, X[-1], G[-1], eps):\n        return False\n\n    X.append(xk)\n",
  "    accepted = is_update_X_and_G(xk, gk, X[-1], G[-1], eps)\n\n    X.append(xk)\n",
  ["ANCHOR"], note="(not the package's semantics: for the rule only) every path stores the point")
