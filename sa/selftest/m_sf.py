from . import M, Q

G = "        if not np.array_equal(x, self.x):\n            self.update_x(x)\n        self._update_grad()\n        return self.g * self.scaling_factor\n"
M("sf1-guard-removed-grad", "scalar_function.py", G, "        self._update_grad()\n        return self.g * self.scaling_factor\n", ["SF1"], canary=True)
M("sf1-guard-allclose", "scalar_function.py", G, "        if not np.allclose(x, self.x):\n            self.update_x(x)\n        self._update_grad()\n        return self.g * self.scaling_factor\n", ["SF1"],
  note="approximate comparison serves the value of a neighbouring point")
M("sf1-guard-after-update", "scalar_function.py", G, "        self._update_grad()\n        if not np.array_equal(x, self.x):\n            self.update_x(x)\n        return self.g * self.scaling_factor\n", ["SF1"])
M("sf2-key-by-reference", "scalar_function.py", "        self.x = np.atleast_1d(x).astype(float)\n        self.f_updated = False\n", "        self.x = np.atleast_1d(x)\n        self.f_updated = False\n", ["SF2"], canary=True)
M("sf2-g-flag-not-reset", "scalar_function.py", "        self.f_updated = False\n        self.g_updated = False\n        self.H_updated = False\n\n    def _update_fun", "        self.f_updated = False\n        self.H_updated = False\n\n    def _update_fun", ["SF2"])
M("sf3-flag-set-before-eval", "scalar_function.py", "            self._update_fun_impl()\n            self.f_updated = True\n", "            self.f_updated = True\n            self._update_fun_impl()\n", ["SF3"], canary=True,
  note="an exception in the user's objective leaves the flag set: a stale value is served afterwards")
M("sf3-flag-set-in-update_x", "scalar_function.py", "        self.f_updated = False\n        self.g_updated = False\n        self.H_updated = False\n\n    def _update_fun", "        self.f_updated = False\n        self.g_updated = self.n == 0\n        self.g_updated = True if self.n == 0 else False\n        self.H_updated = False\n\n    def _update_fun", ["SF2", "SF3"])
M("sf3-no-flag-test", "scalar_function.py", "        if not self.f_updated:\n            self._update_fun_impl()\n            self.f_updated = True\n", "        self._update_fun_impl()\n        self.f_updated = True\n", ["SF3"], note="re-evaluates at the point last evaluated")
M("sf4-scale-folded-into-cache", "scalar_function.py", "            self.f = fun_wrapped(self.x)\n", "            self.f = fun_wrapped(self.x) * self.scaling_factor\n", ["SF4", "SF3"], canary=True)
M("sf4-grad-unscaled", "scalar_function.py", "        return self.f * self.scaling_factor, self.g * self.scaling_factor\n", "        return self.f * self.scaling_factor, self.g\n", ["SF4"])
M("sf5-increment-after-call-in-finally", "scalar_function.py", "            self.nfev += 1\n", "", ["SF5"], canary=True,
  also=[("scalar_function.py", "            fx = fun(np.copy(x), *args)\n", "            fx = fun(np.copy(x), *args)\n            if np.isfinite(fx):\n                self.nfev += 1\n")])
M("sf5-double-count", "scalar_function.py", "                self._update_fun()\n                self.ngev += 1\n", "                self._update_fun()\n                self.ngev += 1\n                self.nfev += 1\n", ["SF5"])
M("sf6-raw-fun-to-differencer", "scalar_function.py", "                    fun_wrapped, self.x, f0=self.f, **finite_diff_options\n", "                    fun, self.x, f0=self.f, **finite_diff_options\n", ["SF6", "SF7"], canary=True)
M("sf6-no-copy", "scalar_function.py", "            fx = fun(np.copy(x), *args)\n", "            fx = fun(x, *args)\n", ["SF6"])
M("sf7-f0-dropped", "scalar_function.py", "                    fun_wrapped, self.x, f0=self.f, **finite_diff_options\n", "                    fun_wrapped, self.x, **finite_diff_options\n", ["SF7"], canary=True)
M("sf7-no-update-before", "scalar_function.py", "                self._update_fun()\n                self.ngev += 1\n", "                self.ngev += 1\n", ["SF7"])
Q("sf1-swapped-args", "scalar_function.py", G, "        if not np.array_equal(self.x, x):\n            self.update_x(x)\n        self._update_grad()\n        return self.g * self.scaling_factor\n", ["SF1"])
Q("sf2-np-array-copy", "scalar_function.py", "        self.x = np.atleast_1d(x).astype(float)\n        self.f_updated = False\n", "        self.x = np.array(np.atleast_1d(x), dtype=float)\n        self.f_updated = False\n", ["SF2", "BOX"])
Q("sf4-commuted", "scalar_function.py", "        return self.g * self.scaling_factor\n", "        return self.scaling_factor * self.g\n", ["SF4"])

# ---- SFREAD
M("sfread-lowest-f-in-main", "main.py", "        f0_old = copy.copy(f0)\n", "        f0_old = copy.copy(min(f0, sf._lowest_f * sf.scaling_factor))\n", ["SFREAD"], canary=True)
M("sfread-cached-g", "main.py", "        f0_old = copy.copy(f0)\n", "        f0_old = copy.copy(f0)\n        _stale = sf.g\n", ["SFREAD"])
M("sfread-flag-write", "main.py", "        f0_old = copy.copy(f0)\n", "        f0_old = copy.copy(f0)\n        sf.f_updated = False\n", ["SFREAD"])
Q("sfread-counter-read", "main.py", "        f0_old = copy.copy(f0)\n", "        f0_old = copy.copy(f0)\n        _n_before = sf.nfev\n", ["SFREAD"])

# ---- EVALPT (round 4: hand-made finite differences next to approx_derivative)
M("evalpt-probe-next-to-x", "scalar_function.py", "            self.f = fun_wrapped(self.x)\n",
  "            self.f = fun_wrapped(self.x)\n            _probe = fun_wrapped(self.x + 1e-8)\n", ["EVALPT"], canary=True)
M("evalpt-wrapper-stored", "scalar_function.py", "        self._update_fun_impl = update_fun\n",
  "        self._update_fun_impl = update_fun\n        self._raw_eval = fun_wrapped\n", ["EVALPT"])
