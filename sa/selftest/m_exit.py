from . import M, Q

M("exit-pinned-nit-eq", "main.py", "    elif istate.nit >= maxiter:\n", "    elif istate.nit == maxiter:\n",
  ["EXIT"], canary=True, note="pinned defect 4: nit > maxiter falls through with 'START'")
M("exit-maxfun-gt", "main.py", "    elif sf.nfev >= maxfun:\n", "    elif sf.nfev > maxfun:\n", ["EXIT"])
M("exit-branch-removed", "main.py",
  "    elif sf.nfev >= maxfun:\n        istate.task_str = \"STOP: TOTAL NO. of f AND g EVALUATIONS EXCEEDS LIMIT\"\n        istate.is_success = True\n        istate.warnflag = 1\n",
  "", ["EXIT"])
M("exit-success-without-message", "main.py",
  "            # callback is a user defined mechanism to stop optimization\n",
  "            if f0 < -1e300:\n                istate.is_success = True\n            # callback is a user defined mechanism to stop optimization\n",
  ["EXIT"])
M("exit-guard-conjunct-dropped-classifier-kept", "main.py",
  "        and sf.nfev < maxfun\n        and not istate.is_success\n", "        and not istate.is_success\n",
  ["NITB"], note="evaluation budget no longer stops the loop; classifier still claims it")
M("exit-target-test-ge", "main.py", "    if f0 > ftarget:\n        return False\n", "    if f0 >= ftarget + 1.0:\n        return False\n", ["EXIT"])
M("exit-pgtol-after-x-update", "main.py",
  "        istate.task_str = \"CONVERGENCE: NORM_OF_PROJECTED_GRADIENT_<=_PGTOL\"\n        istate.is_success = True\n",
  "        istate.task_str = \"CONVERGENCE: NORM_OF_PROJECTED_GRADIENT_<=_PGTOL\"\n        grad = grad + 0.0 * x\n        istate.is_success = True\n",
  ["EXIT"], note="jac redefined after the test: the message is no longer about the returned jac")
M("exit-callback-message-unconditional", "main.py",
  "                ):\n                    istate.task_str = \"STOP: USER CALLBACK\"\n                    istate.is_success = True\n",
  "                ):\n                    pass\n                istate.task_str = \"STOP: USER CALLBACK\"\n                istate.is_success = True\n",
  ["EXIT"])
M("exit-abnormal-success-true", "main.py",
  "                istate.warnflag = 2\n                istate.is_success = False\n",
  "                istate.warnflag = 2\n                istate.is_success = True\n", ["EXIT"])
M("exit-unknown-message", "main.py",
  "        istate.task_str = \"STOP: TOTAL NO. of ITERATIONS REACHED LIMIT\"\n",
  "        istate.task_str = \"STOP: ITERATIONS\"\n", ["EXIT"])
M("exit-maxiter-wrong-var", "main.py", "    elif istate.nit >= maxiter:\n", "    elif istate.nit >= maxls:\n", ["EXIT"])
Q("exit-not-lt", "main.py", "    elif istate.nit >= maxiter:\n", "    elif not istate.nit < maxiter:\n", ["EXIT"])
Q("exit-classifier-reordered", "main.py",
  "    elif istate.nit >= maxiter:\n        istate.task_str = \"STOP: TOTAL NO. of ITERATIONS REACHED LIMIT\"\n        istate.is_success = True\n        istate.warnflag = 1\n    elif sf.nfev >= maxfun:\n        istate.task_str = \"STOP: TOTAL NO. of f AND g EVALUATIONS EXCEEDS LIMIT\"\n        istate.is_success = True\n        istate.warnflag = 1\n",
  "    elif sf.nfev >= maxfun:\n        istate.task_str = \"STOP: TOTAL NO. of f AND g EVALUATIONS EXCEEDS LIMIT\"\n        istate.is_success = True\n        istate.warnflag = 1\n    elif istate.nit >= maxiter:\n        istate.task_str = \"STOP: TOTAL NO. of ITERATIONS REACHED LIMIT\"\n        istate.is_success = True\n        istate.warnflag = 1\n",
  ["EXIT"])
Q("exit-maxiter-le-flipped", "main.py", "    elif istate.nit >= maxiter:\n", "    elif maxiter <= istate.nit:\n", ["EXIT"])
