"""sa.selftest -- the checker is tested both ways on variants of the *current*
tree, built in memory (Repo overlay), never written to disk:

  M  mutants that must fire: one construct broken, still compiles; the report
     must come from the expected rule
  Q  equivalent variants that must stay silent (behaviour-preserving rewrites)

A variant is a text substitution (file, old, new) that must match exactly once
in the current source; otherwise it is 'not applicable' (counted, not failed).
"""
from __future__ import annotations

import importlib
import os
import pkgutil
import sys
from concurrent.futures import ProcessPoolExecutor
from typing import Dict, List, Optional

from ..core import AnalysisError, Repo

MUTANTS: List[dict] = []
QUIET: List[dict] = []


def M(id, file, old, new, rules, note="", canary=False, also=None, count=1):
    """also: further (file, old, new) substitutions applied together"""
    MUTANTS.append(dict(id=id, file=file, old=old, new=new, rules=list(rules), note=note,
                        canary=canary, also=also or [], count=count))


def Q(id, file, old, new, rules, note="", also=None, count=1):
    QUIET.append(dict(id=id, file=file, old=old, new=new, rules=list(rules), note=note,
                      also=also or [], count=count))


_loaded = False


def load():
    global _loaded
    if _loaded:
        return
    _loaded = True
    here = os.path.dirname(__file__)
    for m in sorted(pkgutil.iter_modules([here])):
        if m.name.startswith("m_"):
            importlib.import_module(f"{__name__}.{m.name}")


def overlay_for(root: str, v: dict) -> Optional[Dict[str, str]]:
    ov: Dict[str, str] = {}
    for file, old, new, cnt in [(v["file"], v["old"], v["new"], v.get("count", 1))] + \
            [(a[0], a[1], a[2], 1) for a in v["also"]]:
        src = ov.get(file)
        if src is None:
            try:
                src = open(os.path.join(root, "lbfgsb", file), encoding="utf-8").read()
            except OSError:
                return None
        if src.count(old) != cnt:
            return None
        ov[file] = src.replace(old, new)
    return ov


def _baseline(root: str, rules) -> frozenset:
    """keys of the violations the rules report on the tree itself (open known findings, or a defect under
    test): a variant is judged on what it ADDS to them"""
    from ..runner import run_rules, RULES as _R
    try:
        return frozenset(o.key() for o in run_rules(Repo(root), [r for r in rules if r in _R]) if not o.ok)
    except AnalysisError:
        return frozenset()


def run_variant(args):
    root, v, kind = args[:3]
    base = args[3] if len(args) > 3 else frozenset()
    from .. import props  # noqa: F401  (registers rules)
    from ..runner import run_rules
    from ..runner import RULES as _R
    v = {**v, "rules": [r for r in v["rules"] if r in _R]}
    ov = overlay_for(root, v)
    if ov is None or not v["rules"]:
        return (v["id"], kind, "n/a", "")
    try:
        for fn, s in ov.items():
            compile(s, fn, "exec")
    except SyntaxError as e:
        return (v["id"], kind, "fail", f"variant does not compile: {e}")
    import signal

    def _to(*a):
        raise TimeoutError("variant analysis exceeded 120 s")
    try:
        signal.signal(signal.SIGALRM, _to)
        signal.alarm(120)
    except ValueError:
        pass
    try:
        obs = run_rules(Repo(root, overlay=ov), v["rules"])
    except AnalysisError as e:
        return (v["id"], kind, "fail" , f"ANALYSIS-ERROR {e}")
    except Exception as e:  # pragma: no cover
        import traceback
        return (v["id"], kind, "fail", "internal error: " + " | ".join(traceback.format_exc().strip().splitlines()[-3:]))
    try:
        signal.alarm(0)
    except ValueError:
        pass
    bad = [o for o in obs if not o.ok and o.key() not in base]
    if kind == "M":
        if any(o.rule in v["rules"] for o in bad):
            o = bad[0]
            return (v["id"], kind, "ok", f"{o.rule} {o.file}:{o.line} {o.construct[:60]}")
        return (v["id"], kind, "fail", "mutant not reported")
    if bad:
        o = bad[0]
        return (v["id"], kind, "fail", f"false alarm {o.rule} {o.file}:{o.line} {o.construct[:60]} -> {o.fact[:120]}")
    return (v["id"], kind, "ok", "")


EQUIV_DIR = os.path.join(os.path.dirname(os.path.dirname(os.path.dirname(os.path.abspath(__file__)))), "equiv")


def run_equiv(args):
    """a behaviour-preserving refactoring (unified diff kept under /verif/equiv) must leave the rules silent;
    it is applied to a scratch copy of the package under $TMPDIR which is removed afterwards"""
    import shutil
    import subprocess
    import tempfile
    root, patch, rules = args[:3]
    base = args[3] if len(args) > 3 else frozenset()
    from .. import props  # noqa: F401
    from ..runner import run_rules, RULES as _R
    name = "equiv/" + os.path.basename(patch)
    if os.path.basename(patch) == "patch.diff":
        name = "controls/" + os.path.basename(os.path.dirname(patch))
    d = tempfile.mkdtemp(prefix="sa_eq_")
    try:
        shutil.copytree(os.path.join(root, "lbfgsb"), os.path.join(d, "lbfgsb"))
        r = subprocess.run(["patch", "-p1", "-s", "-f", "-d", d, "-i", patch], capture_output=True, text=True)
        if r.returncode != 0:
            return (name, "Q", "n/a", "")
        try:
            obs = run_rules(Repo(d), [x for x in rules if x in _R])
        except AnalysisError as e:
            return (name, "Q", "fail", f"ANALYSIS-ERROR on a behaviour-preserving refactoring: {str(e)[:200]}")
        bad = [o for o in obs if not o.ok and o.key() not in base]
        if bad:
            o = bad[0]
            return (name, "Q", "fail", f"false alarm {o.rule} {o.file}:{o.line} {o.construct[:60]} -> {o.fact[:120]}")
        return (name, "Q", "ok", "")
    finally:
        shutil.rmtree(d, ignore_errors=True)


SEEDED_DIR = os.path.join(os.path.dirname(EQUIV_DIR), "seeded")


def seeded_patches(pid: Optional[str] = None) -> List[tuple]:
    """(patch, property) of the breaking changes produced by independent sub-agents and confirmed by hand
    (kept under /verif/seeded/<id>/ with their demonstration)"""
    import json
    out = []
    if not os.path.isdir(SEEDED_DIR):
        return out
    for d in sorted(os.listdir(SEEDED_DIR)):
        pf, mf = os.path.join(SEEDED_DIR, d, "patch.diff"), os.path.join(SEEDED_DIR, d, "meta.json")
        if os.path.isfile(pf) and os.path.isfile(mf):
            try:
                meta = json.load(open(mf))
                prop = meta.get("reassigned_to") or meta.get("property")
            except Exception:
                continue
            if meta.get("obsolete_since"):
                continue     # the mechanism it needed was removed by a later fix: see meta.json
            if prop and (pid is None or prop == pid):
                out.append((pf, prop))
    return out


def control_patches(pid: Optional[str] = None) -> List[str]:
    """behaviour-CHANGING commits under which the property still holds (produced by independent sub-agents, confirmed by hand,
    kept under /verif/controls/<id>/): those whose recorded verdict is `silent` must stay unreported by the rules of their
    own property"""
    import json
    out = []
    cd = os.path.join(os.path.dirname(SEEDED_DIR), "controls")
    if not os.path.isdir(cd):
        return out
    for d in sorted(os.listdir(cd)):
        pf, mf = os.path.join(cd, d, "patch.diff"), os.path.join(cd, d, "meta.json")
        if os.path.isfile(pf) and os.path.isfile(mf):
            try:
                meta = json.load(open(mf))
            except Exception:
                continue
            if meta.get("verdict") == "silent" and meta.get("property") and (pid is None or meta["property"] == pid):
                out.append(pf)
    return out


def run_seeded(args):
    """a confirmed breaking change of a property (unified diff under /verif/seeded) must be reported by the
    rules of that property; applied to a scratch copy under $TMPDIR which is removed afterwards"""
    import shutil
    import subprocess
    import tempfile
    root, patch, rules = args[:3]
    base = args[3] if len(args) > 3 else frozenset()
    from .. import props  # noqa: F401
    from ..runner import run_rules, RULES as _R
    name = "seeded/" + os.path.basename(os.path.dirname(patch))
    d = tempfile.mkdtemp(prefix="sa_sd_")
    try:
        shutil.copytree(os.path.join(root, "lbfgsb"), os.path.join(d, "lbfgsb"))
        r = subprocess.run(["patch", "-p1", "-s", "-f", "-d", d, "-i", patch], capture_output=True, text=True)
        if r.returncode != 0:
            return (name, "M", "n/a", "")
        try:
            obs = run_rules(Repo(d), [x for x in rules if x in _R])
        except AnalysisError as e:
            # the registered command would exit 2 (analysis broken), not report a violation: not a detection
            return (name, "M", "fail", f"seeded breaking change gives an ANALYSIS-ERROR instead of a violation: {str(e)[:160]}")
        bad = [o for o in obs if not o.ok and o.key() not in base]
        if bad:
            o = bad[0]
            return (name, "M", "ok", f"{o.rule} {o.file}:{o.line} {o.construct[:60]}")
        return (name, "M", "fail", "seeded breaking change not reported")
    finally:
        shutil.rmtree(d, ignore_errors=True)


def equiv_patches() -> List[str]:
    if not os.path.isdir(EQUIV_DIR):
        return []
    return sorted(os.path.join(EQUIV_DIR, f) for f in os.listdir(EQUIV_DIR) if f.endswith(".diff"))


def _select(rules: List[str], canary_only: bool):
    load()
    ms = [m for m in MUTANTS if (not rules or set(m["rules"]) & set(rules)) and (m["canary"] or not canary_only)]
    qs = [] if canary_only else [q for q in QUIET if not rules or set(q["rules"]) & set(rules)]
    return ms, qs


def run_for_property(pid: str, spec: dict, root: str, tier: str) -> dict:
    """quick: the canary mutant of each rule (a rule whose expected count of
    violations is zero must be seen firing on every run); thorough: every
    mutant and every equivalent variant of the property's rules."""
    ms, qs = _select(spec["rules"], canary_only=(tier == "quick"))
    # a mutant belongs to the property that owns its primary (first listed) rule; further rules
    # listed on a mutant may or may not fire and are only credited when they do
    ms = [m for m in ms if m["rules"][0] in spec["rules"]]
    # restrict each variant to the rules of this property
    base = _baseline(root, spec["rules"])
    jobs = [(root, {**m, "rules": [r for r in m["rules"] if r in spec["rules"]]}, "M", base) for m in ms] + \
           [(root, {**q, "rules": [r for r in q["rules"] if r in spec["rules"]]}, "Q", base) for q in qs]
    eq = [(root, p, spec["rules"], base) for p in equiv_patches() + control_patches(pid)] if tier == "thorough" else []
    sd = [(root, p, spec["rules"], base) for p, _ in seeded_patches(pid)] if tier == "thorough" else []
    if tier == "thorough" and len(jobs) + len(eq) + len(sd) > 8:
        with ProcessPoolExecutor(max_workers=min(16, len(jobs) + len(eq) + len(sd))) as ex:
            res = list(ex.map(run_variant, jobs)) + list(ex.map(run_equiv, eq)) + list(ex.map(run_seeded, sd))
    else:
        res = [run_variant(j) for j in jobs] + [run_equiv(e) for e in eq] + [run_seeded(e) for e in sd]
    out = {"mutants_run": 0, "mutants_fired": 0, "equivalents_run": 0, "equivalents_silent": 0,
           "not_applicable": [], "failed": [], "fired": []}
    for vid, kind, st, msg in res:
        if st == "n/a":
            out["not_applicable"].append(vid)
            continue
        if kind == "M":
            out["mutants_run"] += 1
            if st == "ok":
                out["mutants_fired"] += 1
                out["fired"].append(f"{vid}: {msg}")
        else:
            out["equivalents_run"] += 1
            if st == "ok":
                out["equivalents_silent"] += 1
        if st == "fail":
            out["failed"].append(f"{kind}:{vid}: {msg}")
    return out


def run_all(root: str, rules: List[str], jobs: int, verbose: bool) -> int:
    ms, qs = _select(rules, False)
    from ..runner import RULES as _R
    base = _baseline(root, rules or sorted(_R))
    work = [(root, m, "M", base) for m in ms] + [(root, q, "Q", base) for q in qs]
    eq = [(root, p, rules or sorted(_R), base) for p in equiv_patches()]
    from .. import props as _props
    if not rules:
        import json as _json
        for p in control_patches():
            prop = _json.load(open(os.path.join(os.path.dirname(p), "meta.json")))["property"]
            if prop in _props.PROPS:
                eq.append((root, p, _props.PROPS[prop]["rules"], base))
    sd = [] if rules else [(root, p, _props.PROPS[prop]["rules"], base) for p, prop in seeded_patches() if prop in _props.PROPS]
    if jobs > 1 and len(work) > 4:
        with ProcessPoolExecutor(max_workers=jobs) as ex:
            res = list(ex.map(run_variant, work)) + list(ex.map(run_equiv, eq)) + list(ex.map(run_seeded, sd))
    else:
        res = [run_variant(w) for w in work] + [run_equiv(e) for e in eq] + [run_seeded(e) for e in sd]
    fails = 0
    for vid, kind, st, msg in res:
        if st == "fail":
            fails += 1
        if verbose or st != "ok":
            print(f"{kind} {st:4s} {vid}: {msg}")
    n = {k: sum(1 for r in res if r[1] == k and r[2] != "n/a") for k in "MQ"}
    print(f"selftest: M {n['M']} run, Q {n['Q']} run, n/a {sum(1 for r in res if r[2]=='n/a')}, failed {fails}")
    return 0 if fails == 0 else 2
