from . import M, Q

M("box-pinned-trial-fg", "linesearch.py", "sf.fun_and_grad(np.clip(x0 + steplength * d, lb, ub))", "sf.fun_and_grad(x0 + steplength * d)", ["BOX"], canary=True, note="pinned defect 2a")
M("box-pinned-phi", "linesearch.py", "        return sf.fun(np.clip(x0 + alpha * d, lb, ub))\n", "        return sf.fun(x0 + alpha * d)\n", ["BOX"])
M("box-pinned-iterate", "main.py", "            x = np.clip(x + steplength * d, lb, ub)\n", "            x += steplength * d\n", ["BOX"], note="pinned defect 2b")
M("box-swapped-bounds", "main.py", "            x = np.clip(x + steplength * d, lb, ub)\n", "            x = np.clip(x + steplength * d, ub, lb)\n", ["BOX"])
M("box-inplace-after-projection", "main.py", "            x = np.clip(x + steplength * d, lb, ub)\n", "            x = np.clip(x + steplength * d, lb, ub)\n            x += 0.0 * d\n", ["BOX", "COH"])
M("box-callback-gets-xbar", "main.py", "                if callback(\n                    np.copy(x),\n", "                if callback(\n                    np.copy(xbar),\n", ["BOX"])
M("box-result-x-unprojected", "main.py", "        message=istate.task_str,\n        x=x,\n        success=istate.is_success,\n        scaling_factor=sf.scaling_factor,\n        hess_inv=LbfgsInvHessProduct(\n            np.atleast_2d(",
  "        message=istate.task_str,\n        x=x + 0.0,\n        success=istate.is_success,\n        scaling_factor=sf.scaling_factor,\n        hess_inv=LbfgsInvHessProduct(\n            np.atleast_2d(", ["BOX"])
M("box-linesearch-other-bounds", "main.py", "            d,\n            lb,\n            ub,\n            istate.nit,\n", "            d,\n            lb - 1e-12,\n            ub,\n            istate.nit,\n", ["BOX"])
M("box-start-not-clipped", "main.py", "    x = clip2bounds(x0, lb, ub)\n", "    x = np.array(x0, dtype=np.float64)\n", ["BOX"])
M("box-wrapper-key-perturbed", "scalar_function.py", "        self.x = np.atleast_1d(x).astype(float)\n        self.f_updated = False\n", "        self.x = np.atleast_1d(x).astype(float) * 1.0\n        self.f_updated = False\n", ["BOX"])
Q("box-clip-method", "main.py", "            x = np.clip(x + steplength * d, lb, ub)\n", "            x = (x + steplength * d).clip(lb, ub)\n", ["BOX"])
Q("box-minmax", "main.py", "            x = np.clip(x + steplength * d, lb, ub)\n", "            x = np.minimum(np.maximum(x + steplength * d, lb), ub)\n", ["BOX"])
Q("box-clip-out", "main.py", "            x = np.clip(x + steplength * d, lb, ub)\n", "            x = x + steplength * d\n            np.clip(x, lb, ub, out=x)\n", ["BOX"])
Q("box-trial-once", "linesearch.py", "            f_m1, dphi_m1 = sf.fun_and_grad(np.clip(x0 + steplength * d, lb, ub))\n",
  "            x_trial = clip2bounds_(x0 + steplength * d, lb, ub)\n            f_m1, dphi_m1 = sf.fun_and_grad(x_trial)\n".replace("clip2bounds_", "np.clip"), ["BOX"])

M("fdb-bounds-none", "main.py", "        bounds=(lb, ub),\n", "        bounds=None,\n", ["FDB"], canary=True)
M("fdb-bounds-swapped", "main.py", "        bounds=(lb, ub),\n", "        bounds=(ub, lb),\n", ["FDB"])
M("fdb-key-dropped", "scalar_function.py", "            finite_diff_options[\"bounds\"] = finite_diff_bounds\n", "", ["FDB"])
M("fdb-only-2point", "scalar_function.py", "        if grad in FD_METHODS:\n            finite_diff_options[\"method\"] = grad\n", "        if grad == \"2-point\":\n            finite_diff_options[\"method\"] = grad\n", ["FDB"])
M("fdb-override-at-call", "scalar_function.py", "fun_wrapped, self.x, f0=self.f, **finite_diff_options\n", "fun_wrapped, self.x, f0=self.f, **{**finite_diff_options, \"bounds\": (-np.inf, np.inf)}\n", ["FDB"])
M("fdb-factory-drops", "scalar_function.py", "        fun, x0, args, grad, finite_diff_rel_step, bounds, epsilon=epsilon\n", "        fun, x0, args, grad, finite_diff_rel_step, (-np.inf, np.inf), epsilon=epsilon\n", ["FDB"])
M("modes-cs-removed", "scalar_function.py", "FD_METHODS = (\"2-point\", \"3-point\", \"cs\")\n", "FD_METHODS = (\"2-point\", \"3-point\")\n", ["MODES"], canary=True)
M("modes-none-unhandled", "scalar_function.py", "    elif jac is None:\n", "    elif jac is False:\n", ["MODES"])

# ---- FDB option entries (round 2)
M("fdb-abs-step-from-start", "scalar_function.py",
  "            finite_diff_options[\"abs_step\"] = epsilon\n",
  "            finite_diff_options[\"abs_step\"] = epsilon if finite_diff_rel_step is None else finite_diff_rel_step * np.maximum(1.0, np.abs(self.x))\n", ["FDB"])
M("fdb-method-const", "scalar_function.py", "            finite_diff_options[\"method\"] = grad\n", "            finite_diff_options[\"method\"] = \"2-point\"\n", ["FDB"])

# ---- GETB (round 3)
M("getb-falsy-bound", "base.py", "    lb, ub = old_bound_to_new(bounds)\n",
  "    lb = np.array([lo or -np.inf for lo, _ in bounds], dtype=np.float64)\n    ub = np.array([up or np.inf for _, up in bounds], dtype=np.float64)\n", ["GETB"], canary=True)
Q("getb-explicit-none", "base.py", "    lb, ub = old_bound_to_new(bounds)\n",
  "    lb = np.array([-np.inf if lo is None else lo for lo, _ in bounds], dtype=np.float64)\n    ub = np.array([np.inf if up is None else up for _, up in bounds], dtype=np.float64)\n", ["GETB"])

# ---- GETB (round 4): the converted vectors are rewritten afterwards
M("getb-huge-means-infinite", "base.py", "    lb, ub = old_bound_to_new(bounds)\n", "    lb, ub = old_bound_to_new(bounds)\n    ub = np.where(ub >= 1e20, np.inf, ub)\n", ["GETB"])
Q("getb-astype", "base.py", "    lb, ub = old_bound_to_new(bounds)\n", "    lb, ub = old_bound_to_new(bounds)\n    lb = lb.astype(float)\n", ["GETB"])
M("box-clip2bounds-swapped", "base.py", "    return np.clip(x0.T, lb, ub).T\n", "    return np.clip(x0.T, ub, lb).T\n", ["BOX"])

# ---- FDB: the options are the caller's values (round 5)
M("fdb-epsilon-derived-from-x0", "scalar_function.py", "        finite_diff_options = {}\n", "        finite_diff_options = {}\n        if epsilon is None:\n            epsilon = 1e-8 * np.maximum(1.0, np.abs(self.x))\n", ["FDB"])
