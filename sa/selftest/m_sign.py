from . import M, Q

M("sign-cauchy-bounds-swapped", "cauchy.py", "        grad[mask] < 0, (x - ub)[mask] / grad[mask], (x - lb)[mask] / grad[mask]\n", "        grad[mask] < 0, (x - lb)[mask] / grad[mask], (x - ub)[mask] / grad[mask]\n", ["SIGN"], canary=True)
M("sign-cauchy-cond-flipped", "cauchy.py", "        grad[mask] < 0, (x - ub)[mask]", "        grad[mask] > 0, (x - ub)[mask]", ["SIGN"])
M("sign-ls-numerator-reversed", "linesearch.py", "            d[_mask] > 0, (ub - x)[_mask] / d[_mask], (lb - x)[_mask] / d[_mask]\n", "            d[_mask] > 0, (x - ub)[_mask] / d[_mask], (lb - x)[_mask] / d[_mask]\n", ["SIGN"])
M("sign-ls-unmasked", "linesearch.py", "            d[_mask] > 0, (ub - x)[_mask] / d[_mask], (lb - x)[_mask] / d[_mask]\n", "            d > 0, (ub - x) / d, (lb - x) / d\n", ["SIGN"])
M("sign-subspace-swapped", "subspacemin.py", "dHat[mask] > 0, (ub - xc)[free_vars][mask], (lb - xc)[free_vars][mask]", "dHat[mask] > 0, (lb - xc)[free_vars][mask], (ub - xc)[free_vars][mask]", ["SIGN", "ALPHA"])
M("sign-pin-swapped", "cauchy.py", "        if d[ibp] > 0:\n            x_cp[ibp] = ub[ibp]\n        elif d[ibp] < 0:\n            x_cp[ibp] = lb[ibp]\n", "        if d[ibp] > 0:\n            x_cp[ibp] = lb[ibp]\n        elif d[ibp] < 0:\n            x_cp[ibp] = ub[ibp]\n", ["SIGN"])
M("sign-fprime-positive", "cauchy.py", "    f_prime: float = -d.dot(d)  # n operations\n", "    f_prime: float = d.dot(d)  # n operations\n", ["SIGN"])
M("sign-fsecond-sign", "cauchy.py", "    f_second: float = -mats.theta * f_prime\n", "    f_second: float = mats.theta * f_prime\n", ["SIGN"])
M("sign-clamp-removed", "cauchy.py", "    delta_t_min = 0 if delta_t_min < 0 else delta_t_min\n", "", ["SIGN"])
M("alpha-max", "subspacemin.py", "    alpha_star = min(\n        1.0,\n", "    alpha_star = max(\n        1.0,\n", ["ALPHA"], canary=True)
M("alpha-two", "subspacemin.py", "    alpha_star = min(\n        1.0,\n", "    alpha_star = min(\n        2.0,\n", ["ALPHA"])
M("alpha-applied-twice", "subspacemin.py", "    return xc + alpha_star * Z @ dHat\n", "    return xc + alpha_star * Z @ (alpha_star * dHat)\n", ["ALPHA"])
M("free-lb-dropped", "subspacemin.py", "((x_cp != ub) & (x_cp != lb)).nonzero()[0]", "((x_cp != ub)).nonzero()[0]", ["FREE"], canary=True)
M("free-or", "subspacemin.py", "((x_cp != ub) & (x_cp != lb)).nonzero()[0]", "((x_cp != ub) | (x_cp != lb)).nonzero()[0]", ["FREE"])
M("free-active-not-complement", "subspacemin.py", "        ~np.isin(np.arange(n), free_vars)  # type: ignore\n", "        np.isin(np.arange(n), free_vars)  # type: ignore\n", ["FREE"])
M("pin-arithmetic", "cauchy.py", "            x_cp[ibp] = ub[ibp]\n", "            x_cp[ibp] = x[ibp] + t_cur * d[ibp]\n", ["PIN", "SIGN"], canary=True)
Q("sign-branches-swapped-with-cond", "linesearch.py", "            d[_mask] > 0, (ub - x)[_mask] / d[_mask], (lb - x)[_mask] / d[_mask]\n", "            d[_mask] < 0, (lb - x)[_mask] / d[_mask], (ub - x)[_mask] / d[_mask]\n", ["SIGN"])
Q("sign-negated-form", "cauchy.py", "        grad[mask] < 0, (x - ub)[mask] / grad[mask], (x - lb)[mask] / grad[mask]\n", "        grad[mask] < 0, (ub - x)[mask] / -grad[mask], (x - lb)[mask] / grad[mask]\n", ["SIGN"])
Q("free-interior-form", "subspacemin.py", "((x_cp != ub) & (x_cp != lb)).nonzero()[0]", "((lb < x_cp) & (x_cp < ub)).nonzero()[0]", ["FREE"])
Q("pin-where", "cauchy.py", "        if d[ibp] > 0:\n            x_cp[ibp] = ub[ibp]\n        elif d[ibp] < 0:\n            x_cp[ibp] = lb[ibp]\n", "        if d[ibp] != 0:\n            x_cp[ibp] = ub[ibp] if d[ibp] > 0 else lb[ibp]\n", ["PIN", "SIGN"])

# ---- FREE: the active-set selection matrix (from the mutation sweep's survivors)
M("free-A-on-free-vars", "subspacemin.py", "    A[active_vars, np.arange(nb_active_vars)] = 1\n", "    A[free_vars[:nb_active_vars], np.arange(min(nb_active_vars, nb_free_vars))] = 1\n", ["FREE"])

# ---- round-4 sweep survivors
M("alpha-cap-half", "subspacemin.py", "    alpha_star = min(\n        1.0,\n", "    alpha_star = min(\n        0.5,\n", ["ALPHA"])
M("alpha-quotient", "subspacemin.py", "    return xc + alpha_star * Z @ dHat", "    return xc + alpha_star / Z @ dHat", ["ALPHA"])
M("sign-mask-one", "subspacemin.py", "    mask = dHat != 0\n", "    mask = dHat != 1\n", ["SIGN"])
M("free-Z-zeros", "subspacemin.py", "    Z[free_vars, np.arange(nb_free_vars)] = 1\n", "    Z[free_vars, np.arange(nb_free_vars)] = 0\n", ["FREE"])

# ---- PIN: after the walk (round 5)
M("pin-rebuild-after-walk", "cauchy.py", "    x_cp[d != 0] = (x + t_old * d)[d != 0]\n", "    x_cp = np.clip(x - t_old * grad, lb, ub)\n", ["PIN"])

# finding 18 (pinned form): the completion selects the variables by their breakpoint value; with two breakpoints tied at
# t_cur a variable already fixed is put back at x
M("pin-tail-mask-on-breakpoints", "cauchy.py", "    x_cp[d != 0] = (x + t_old * d)[d != 0]\n",
  "    x_cp[t >= t_cur] = (x + t_old * d)[t >= t_cur]\n", ["PIN", "CPFORM"], canary=True,
  note="pinned defect 18: tied breakpoints")
Q("pin-tail-named-mask", "cauchy.py", "    x_cp[d != 0] = (x + t_old * d)[d != 0]\n",
  "    still_free = d != 0\n    x_cp[still_free] = (x + t_old * d)[still_free]\n", ["PIN", "CPFORM"])
