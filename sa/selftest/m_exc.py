from . import M, Q

M("exc-swallow-fun_and_grad", "main.py",
  "            f0, grad = sf.fun_and_grad(x)\n",
  "            try:\n                f0, grad = sf.fun_and_grad(x)\n            except Exception:\n                break\n",
  ["EXC"], canary=True, note="objective failure converted into a result")
M("exc-pinned-ftarget", "main.py",
  "    _ftarget: Optional[float] = (\n        ftarget() if callable(ftarget) else ftarget  # type: ignore\n    )\n",
  "    try:\n        _ftarget = ftarget()\n    except TypeError:\n        _ftarget = ftarget\n",
  ["EXC"], note="pinned defect 12 re-introduced")
M("exc-widen-wrapper", "scalar_function.py",
  "            fx = fun(np.copy(x), *args)\n",
  "            try:\n                fx = fun(np.copy(x), *args)\n            except ArithmeticError:\n                fx = np.inf\n",
  ["EXC"])
M("exc-callback-suppress", "main.py",
  "            if callback is not None and not istate.is_success:\n                if callback(",
  "            if callback is not None and not istate.is_success:\n              with contextlib.suppress(Exception):\n                if callback(",
  ["EXC"], note="callback failure suppressed by a context manager")
Q("exc-try-without-user-call", "main.py",
  "    n = x0.size\n",
  "    try:\n        n = x0.size\n    except AttributeError:\n        n = len(x0)\n",
  ["EXC"])

# ---- EXC (round 4): work done in a handler before re-raising; user callables inside a generator expression
M("exc-handler-works-before-reraise", "scalar_function.py", "            fx = fun(np.copy(x), *args)\n",
  "            try:\n                fx = fun(np.copy(x), *args)\n            except Exception as e:\n                e.add_note(f'evaluation {self.nfev} at {self.x}')\n                raise\n", ["EXC"])
