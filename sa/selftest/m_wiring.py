from . import M, Q

M("argname-cauchy-lb-ub", "main.py", "            grad,\n            lb,\n            ub,\n            mats,\n            istate.nit,\n            iprint,\n            logger,\n        )",
  "            grad,\n            ub,\n            lb,\n            mats,\n            istate.nit,\n            iprint,\n            logger,\n        )", ["ARGNAME"], canary=True)
M("argname-subspace-x-xcp", "main.py", "        xbar: NDArrayFloat = subspace_minimization(\n            x,\n            x_cp,\n", "        xbar: NDArrayFloat = subspace_minimization(\n            x_cp,\n            x,\n", ["ARGNAME", "DIRECTION"])
M("argname-minchange-swapped", "main.py", "                elif is_f0_min_change_reached(f0, f0_old, ftol, istate):\n", "                elif is_f0_min_change_reached(f0_old, f0, ftol, istate):\n", ["ARGNAME"])
M("argname-update-X-G", "bfgsmats.py", "update_X_and_G(xk, gk, X, G, maxcor, eps)", "update_X_and_G(xk, gk, G, X, maxcor, eps)", ["ARGNAME"])
M("argname-freev", "main.py", "get_freev(x_cp, lb, ub, istate.nit, free_vars, iprint, logger)", "get_freev(x_cp, ub, lb, istate.nit, free_vars, iprint, logger)", ["ARGNAME"])
M("argname-forminv", "bfgsmats.py", "form_invMfactors(mats.theta, STS, mats.L, mats.D)", "form_invMfactors(mats.theta, STS, mats.D, mats.L)", ["BFGSFORM"])
Q("argname-keywords", "main.py", "get_freev(x_cp, lb, ub, istate.nit, free_vars, iprint, logger)", "get_freev(x_cp, lb, ub, istate.nit, free_vars_old=free_vars, iprint=iprint, logger=logger)", ["ARGNAME", "LOGNI"])
M("offer-deleted", "main.py", "            mats = update_lbfgs_matrices(\n                x.copy(),  # copy otherwise x might be changed in X when updated\n                grad,\n                X,\n                G,\n                maxcor,\n                mats,\n                is_force_update=False,\n                eps=eps_SY,\n                is_check_factorization=is_check_factorization,\n            )\n\n            # callback",
  "            # callback", ["OFFER"], canary=True)
M("offer-only-without-callback", "main.py", "            mats = update_lbfgs_matrices(\n                x.copy(),  # copy otherwise x might be changed in X when updated\n                grad,\n                X,\n                G,\n                maxcor,\n                mats,\n                is_force_update=False,\n                eps=eps_SY,\n                is_check_factorization=is_check_factorization,\n            )\n\n            # callback",
  "            if callback is None:\n                mats = update_lbfgs_matrices(\n                    x.copy(),\n                    grad,\n                    X,\n                    G,\n                    maxcor,\n                    mats,\n                    is_force_update=False,\n                    eps=eps_SY,\n                    is_check_factorization=is_check_factorization,\n                )\n\n            # callback", ["OFFER", "CBUSE"])
M("offer-old-gradient", "main.py", "                x.copy(),  # copy otherwise x might be changed in X when updated\n                grad,\n                X,\n                G,\n                maxcor,\n                mats,\n                is_force_update=False,\n                eps=eps_SY,\n                is_check_factorization=is_check_factorization,\n            )\n\n            # callback",
  "                x.copy(),  # copy otherwise x might be changed in X when updated\n                G[-1],\n                X,\n                G,\n                maxcor,\n                mats,\n                is_force_update=False,\n                eps=eps_SY,\n                is_check_factorization=is_check_factorization,\n            )\n\n            # callback", ["OFFER"])
M("direction-plus", "main.py", "        d = xbar - x\n", "        d = xbar + x\n", ["DIRECTION"], canary=True)
M("direction-from-cauchy-only", "main.py", "        d = xbar - x\n", "        d = x_cp - x\n", ["DIRECTION"], note="subspace step skipped: projected-gradient method")
M("direction-stale-grad", "main.py", "        x_cp, c = get_cauchy_point(\n            x,\n            grad,\n", "        x_cp, c = get_cauchy_point(\n            x,\n            G[0],\n", ["DIRECTION"])
M("bfgsform-theta-inverted", "bfgsmats.py", "        mats.theta = yTy / sTy\n", "        mats.theta = sTy / yTy\n", ["BFGSFORM"], canary=True)
M("bfgsform-theta-oldest-pair", "bfgsmats.py", "        yk = G[-1] - G[-2]\n", "        yk = G[1] - G[0]\n", ["BFGSFORM"])
M("bfgsform-W-order", "bfgsmats.py", "        mats.W = np.hstack([mats.Y, mats.theta * mats.S])", "        mats.W = np.hstack([mats.theta * mats.S, mats.Y])", ["BFGSFORM"])
M("bfgsform-L-upper", "bfgsmats.py", "        mats.L = np.tril(mats.L, -1)", "        mats.L = np.tril(mats.L, 0)", ["BFGSFORM"])
M("bfgsform-L-YtS", "bfgsmats.py", "        mats.L = mats.S.T @ mats.Y\n", "        mats.L = mats.Y.T @ mats.S\n", ["BFGSFORM"])
M("bfgsform-diff-axis", "bfgsmats.py", "        mats.Y = np.diff(np.array(G), axis=0).T", "        mats.Y = np.diff(np.array(G), axis=1).T", ["BFGSFORM"])
Q("bfgsform-transpose-rewrite", "bfgsmats.py", "        mats.L = mats.S.T @ mats.Y\n", "        mats.L = (mats.Y.T @ mats.S).T\n", ["BFGSFORM"])
M("filterwalk-skips-oldest", "bfgsmats.py", "    ncor: int = len(X) - 1\n", "    ncor: int = len(X) - 2\n", ["FILTERWALK"], canary=True)
M("filterwalk-index-off", "bfgsmats.py", "        k = ncor - i - 1  # start at 1\n", "        k = ncor - i\n", ["FILTERWALK"])
M("stepinit-first-step", "linesearch.py", "        steplength_0 = min(1.0 / np.sqrt(d.dot(d)), max_steplength)\n", "        steplength_0 = min(1.0 / d.dot(d), max_steplength)\n", ["STEPINIT"], canary=True)
M("stepinit-boxed-flag", "linesearch.py", "    if above_iter == 0 and not is_boxed:\n", "    if above_iter == 0 and is_boxed:\n", ["STEPINIT"])
M("stepinit-slope", "linesearch.py", "    dphi0 = g0.dot(d)\n", "    dphi0 = -g0.dot(g0)\n", ["STEPINIT"])
M("cpform-delta_t-stale", "cauchy.py", "        delta_t = t_cur - t_old\n        nseg += 1\n", "        delta_t = t_cur\n        nseg += 1\n", ["CPFORM"])
M("cpform-zero-grad-breakpoint", "cauchy.py", "    t[grad == 0] = np.inf\n", "", ["CPFORM"])
M("cpform-counter-skips", "cauchy.py", "        _i += 1\n        try:", "        _i += 2\n        try:", ["CPFORM"])

# ---- REBUILD (mutation sweep survivors: the pre-loop update of a restart)
M("rebuild-deleted", "main.py", "        mats = update_lbfgs_matrices(\n            x.copy(),  # copy otherwise x might be changed in X when updated\n", "        mats = (lambda *a, **k: mats)(\n            x.copy(),  # copy otherwise x might be changed in X when updated\n", ["REBUILD"], canary=True)
M("rebuild-args-swapped", "main.py", "            x.copy(),  # copy otherwise x might be changed in X when updated\n            grad,\n", "            grad,\n            x.copy(),  # copy otherwise x might be changed in X when updated\n", ["REBUILD"])
