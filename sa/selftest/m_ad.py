from . import M, Q

M("ad-pinned-ackley", "benchmarks.py",
  "    ) + 2.0 * np.pi / ndim * np.sin(2.0 * np.pi * x) * np.exp(\n        np.cos(2.0 * np.pi * x).sum() / ndim\n    )\n",
  "    ) - 2.0 * np.pi / ndim * np.sin(2.0 * np.pi * x)\n", ["AD"], canary=True, note="pinned defect 11")
M("ad-ackley-sign-only", "benchmarks.py", "    ) + 2.0 * np.pi / ndim * np.sin(2.0 * np.pi * x) * np.exp(", "    ) - 2.0 * np.pi / ndim * np.sin(2.0 * np.pi * x) * np.exp(", ["AD"])
M("ad-beale-coefficient", "benchmarks.py", "6 * x[:-1] * y2 * f3\n", "5 * x[:-1] * y2 * f3\n", ["AD"])
M("ad-griewank-den", "benchmarks.py", "        x / 2000.0 + np.sin(x / den)", "        x / 4000.0 + np.sin(x / den)", ["AD"])
M("ad-quartic-power", "benchmarks.py", "    return np.arange(1, ndim + 1) * 4 * np.power(x, 3)\n", "    return np.arange(0, ndim) * 4 * np.power(x, 3)\n", ["AD"])
M("ad-rastrigin-factor", "benchmarks.py", "    return 2.0 * x + 20.0 * np.pi * np.sin(2.0 * np.pi * x)\n", "    return 2.0 * x + 10.0 * np.pi * np.sin(2.0 * np.pi * x)\n", ["AD"])
M("ad-rosenbrock-slice", "benchmarks.py", "    g[:-1] += 2.0 * (x[:-1] - 1.0)\n", "    g[1:] += 2.0 * (x[:-1] - 1.0)\n", ["AD"])
M("ad-sphere-function-changed", "benchmarks.py", "    return np.square(x).sum()\n", "    return 0.5 * np.square(x).sum()\n", ["AD"])
M("ad-styblinski-const", "benchmarks.py", "    return 2.0 * np.power(x, 3) - 16.0 * x + 2.5\n", "    return 2.0 * np.power(x, 3) - 15.0 * x + 2.5\n", ["AD"])
M("ad-grad-returns-scalar", "benchmarks.py", "    return 2 * np.asarray(x)\n", "    return 2 * np.asarray(x).sum()\n", ["AD"])
Q("ad-rosenbrock-rewritten", "benchmarks.py", "    g[1:] += 100.0 * (2.0 * x[1:] - 2.0 * x[:-1] ** 2.0)\n", "    g[1:] += 200.0 * (x[1:] - x[:-1] * x[:-1])\n", ["AD"])
Q("ad-styblinski-rewritten", "benchmarks.py", "    return 2.0 * np.power(x, 3) - 16.0 * x + 2.5\n", "    return 0.5 * (4.0 * x ** 3 - 32.0 * x + 5.0)\n", ["AD"])
Q("ad-ackley-mean", "benchmarks.py", "        np.cos(2.0 * np.pi * x).sum() / ndim\n", "        1.0 / ndim * np.cos(2.0 * np.pi * x).sum()\n", ["AD"])
M("ad-guarded-division", "benchmarks.py", "        x / 2000.0 + np.sin(x / den) * np.prod(np.cos(x / den)) / np.cos(x / den) / den\n",
  "        x / 2000.0 + np.sin(x / den) * np.prod(np.cos(x / den)) / np.where(np.abs(np.cos(x / den)) < 1e-8, 1e-8, np.cos(x / den)) / den\n",
  ["AD"], note="seeded change C19-a: a 'division guard' whose guarded branch is not the derivative")
M("ad-module-state", "benchmarks.py", "def quartic(x: NDArrayFloat) -> float:", "_w = np.arange(1, 2)\n\n\ndef _weights(n):\n    global _w\n    if _w.size < n:\n        _w = np.arange(1, n + 1)\n    return _w\n\n\ndef quartic(x: NDArrayFloat) -> float:",
  ["AD"], also=[("benchmarks.py", "    return (np.arange(1, ndim + 1) * np.power(x, 4)).sum()\n", "    return (_weights(ndim) * np.power(x, 4)).sum()\n")],
  note="seeded change C19-b: value depends on module-level state")
Q("ad-pure-helper", "benchmarks.py", "def quartic(x: NDArrayFloat) -> float:", "def _weights(n):\n    return np.arange(1, n + 1)\n\n\ndef quartic(x: NDArrayFloat) -> float:",
  ["AD"], also=[("benchmarks.py", "    return (np.arange(1, ndim + 1) * np.power(x, 4)).sum()\n", "    return (_weights(ndim) * np.power(x, 4)).sum()\n")])

# ---- ARRLIKE (round 3)
M("arrlike-raw-product", "benchmarks.py", "    return 2 * np.asarray(x)\n", "    return 2 * x\n", ["ARRLIKE"], canary=True)
Q("arrlike-convert-first", "benchmarks.py", "    return 2 * np.asarray(x)\n", "    x = np.asarray(x)\n    return 2 * x\n", ["ARRLIKE", "AD"])

# ---- round 5: layout, number type, definition by cases
M("arrlike-real-cast", "benchmarks.py", "    x = np.asarray(x)\n    ndim = x.size\n    return (np.arange(1, ndim + 1) * np.power(x, 4)).sum()\n",
  "    x = np.asarray(x)\n    x = x.astype(np.float64)\n    ndim = x.size\n    return (np.arange(1, ndim + 1) * np.power(x, 4)).sum()\n", ["ARRLIKE"])
M("ad-defined-by-cases", "benchmarks.py", "    x = np.asarray(x)\n    ndim = x.size\n    e = 2.7182818284590451\n    sum1 = np.sqrt(1.0 / ndim * np.square(x).sum())\n",
  "    x = np.asarray(x)\n    if not x.all():\n        return 0.0\n    ndim = x.size\n    e = 2.7182818284590451\n    sum1 = np.sqrt(1.0 / ndim * np.square(x).sum())\n", ["AD"])

# round 6: equality guards on the point.  A guard on the singular set (the origin, where Ackley has its cusp) leaves the
# property alone; the same guard on a regular set changes the gradient at regular points.
Q("ad-ackley-origin-guard", "benchmarks.py",
  "    square_sum = np.square(x).sum()\n    return (\n        4.0\n        * x\n",
  "    square_sum = np.square(x).sum()\n    if square_sum == 0.0:\n        return np.zeros(x.shape, dtype=np.float64)\n    return (\n        4.0\n        * x\n",
  ["AD"], note="zero subgradient at the cusp instead of nan: only the singularity changes")
M("ad-ackley-regular-point-guard", "benchmarks.py",
  "    square_sum = np.square(x).sum()\n    return (\n        4.0\n        * x\n",
  "    square_sum = np.square(x).sum()\n    if x[0] == 1.0:\n        return np.zeros(x.shape, dtype=np.float64)\n    return (\n        4.0\n        * x\n",
  ["AD"], note="zero gradient on the hyperplane x0 = 1, a set of regular points")
M("ad-ackley-unit-sphere-guard", "benchmarks.py",
  "    square_sum = np.square(x).sum()\n    return (\n        4.0\n        * x\n",
  "    square_sum = np.square(x).sum()\n    if square_sum == 1.0:\n        return np.zeros(x.shape, dtype=np.float64)\n    return (\n        4.0\n        * x\n",
  ["AD"], note="zero gradient on the unit sphere, a set of regular points")
Q("ad-griewank-prefix-suffix", "benchmarks.py",
  "    return (\n        x / 2000.0 + np.sin(x / den) * np.prod(np.cos(x / den)) / np.cos(x / den) / den\n    )\n",
  "    cosines = np.cos(x / den)\n    prefix = np.ones(ndim, dtype=np.float64)\n    prefix[1:] = np.cumprod(cosines[:-1])\n    suffix = np.ones(ndim, dtype=np.float64)\n    suffix[:-1] = np.cumprod(cosines[:0:-1])[::-1]\n    return x / 2000.0 + np.sin(x / den) * (prefix * suffix) / den\n",
  ["AD"], note="leave-one-out product from exclusive prefix/suffix products")
M("ad-griewank-prefix-suffix-off-by-one", "benchmarks.py",
  "    return (\n        x / 2000.0 + np.sin(x / den) * np.prod(np.cos(x / den)) / np.cos(x / den) / den\n    )\n",
  "    cosines = np.cos(x / den)\n    prefix = np.ones(ndim, dtype=np.float64)\n    prefix[1:] = np.cumprod(cosines[:-1])\n    suffix = np.ones(ndim, dtype=np.float64)\n    suffix[:-1] = np.cumprod(cosines[::-1])[:0:-1][::-1][::-1]\n    return x / 2000.0 + np.sin(x / den) * (prefix * suffix) / den\n",
  ["AD"], note="suffix products taken in the wrong order")
