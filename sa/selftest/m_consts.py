from . import M, Q

M("const-gtol-08", "main.py", "    gtol_linesearch: float = 0.9,\n", "    gtol_linesearch: float = 0.8,\n", ["CONST"], canary=True)
M("const-eps-sy", "main.py", "    eps_SY: float = 2.2e-16,\n", "    eps_SY: float = 2.2e-10,\n", ["CONST"])
M("const-maxls", "main.py", "    maxls: int = 20,\n", "    maxls: int = 30,\n", ["CONST"])
M("const-ls-sibling", "linesearch.py", "    xtol: float = 1e-1,\n", "    xtol: float = 1e-2,\n", ["CONST"])
M("const-filter-eps", "bfgsmats.py", "    eps: float = 2.2e-16,\n    logger: Optional[logging.Logger] = None,\n", "    eps: float = 1e-8,\n    logger: Optional[logging.Logger] = None,\n", ["CONST"])
Q("const-spelling", "main.py", "    ftol_linesearch: float = 1e-3,\n", "    ftol_linesearch: float = 0.001,\n", ["CONST"])
M("bind-ftol-gtol-swapped", "main.py", "            ftol_linesearch,\n            gtol_linesearch,\n", "            gtol_linesearch,\n            ftol_linesearch,\n", ["BIND"], canary=True)
M("bind-dcsrch-swapped", "linesearch.py", "            phi, dphi, ftol, gtol, xtol, 0.0, max_steplength\n", "            phi, dphi, gtol, ftol, xtol, 0.0, max_steplength\n", ["BIND"])
M("bind-stpmax-user", "linesearch.py", "            phi, dphi, ftol, gtol, xtol, 0.0, max_steplength\n", "            phi, dphi, ftol, gtol, xtol, 0.0, max_steplength_user\n", ["BIND"],
  note="the step bound of the box is ignored: trial points beyond the box")
M("bind-eps-dropped", "main.py", "                is_force_update=False,\n                eps=eps_SY,\n                is_check_factorization=is_check_factorization,\n            )\n\n            # callback",
  "                is_force_update=False,\n                is_check_factorization=is_check_factorization,\n            )\n\n            # callback", ["BIND"])
M("bind-eps-not-forwarded", "bfgsmats.py", "update_X_and_G(xk, gk, X, G, maxcor, eps)", "update_X_and_G(xk, gk, X, G, maxcor)", ["BIND"])
M("bind-maxstep-wrong-point", "linesearch.py", "        x0, d, lb, ub, max_steplength_user, above_iter\n", "        x0, d, ub, lb, max_steplength_user, above_iter\n", ["BIND"])
Q("bind-keywords", "main.py", "            ftol_linesearch,\n            gtol_linesearch,\n            xtol_linesearch,\n", "            ftol=ftol_linesearch,\n            gtol=gtol_linesearch,\n            xtol=xtol_linesearch,\n", ["BIND"],
  also=[("main.py", "            min(maxls, maxfun - sf.nfev),\n            iprint,\n            logger,\n        )", "            max_iter=min(maxls, maxfun - sf.nfev),\n            iprint=iprint,\n            logger=logger,\n        )")])

M("scaler-in-loop", "main.py", "        f0_old = copy.copy(f0)\n", "        f0_old = copy.copy(f0)\n        if gradient_scaler is not None:\n            sf.scaling_factor = gradient_scaler(x, grad, lb, ub)\n", ["SCALER", "UNITS"], canary=True)
M("scaler-after-scaling", "main.py", "        sf.scaling_factor = gradient_scaler(x, grad, lb, ub)\n", "        sf.scaling_factor = gradient_scaler(x, grad * sf.scaling_factor, lb, ub)\n", ["SCALER"])
M("scaler-wrong-point", "main.py", "        sf.scaling_factor = gradient_scaler(x, grad, lb, ub)\n", "        sf.scaling_factor = gradient_scaler(x0, grad, lb, ub)\n", ["SCALER"])
M("scaler-factor-rewritten", "main.py", "        f0 *= sf.scaling_factor\n", "        f0 *= sf.scaling_factor\n        sf.scaling_factor = abs(sf.scaling_factor)\n", ["SCALER", "UNITS"])
M("units-target-on-scaled", "main.py", "                if is_f0_target_reached(f0 / sf.scaling_factor, _ftarget, istate):\n                    break  # the while loop\n                elif", "                if is_f0_target_reached(f0, _ftarget, istate):\n                    break  # the while loop\n                elif", ["UNITS"], canary=True)
M("units-f0-not-scaled", "main.py", "    f0 *= sf.scaling_factor\n", "", ["UNITS"], note="first f0 raw, later ones scaled: the ftol test compares different units")
M("units-grad-scaled-twice", "main.py", "    grad = grad * sf.scaling_factor\n", "    grad = grad * sf.scaling_factor * sf.scaling_factor\n", ["UNITS"])
M("units-double-in-loop", "main.py", "            f0, grad = sf.fun_and_grad(x)\n", "            f0, grad = sf.fun_and_grad(x)\n            f0 = f0 * sf.scaling_factor\n", ["UNITS", "COH"])
Q("units-rebinding-form", "main.py", "    f0 *= sf.scaling_factor\n", "    f0 = sf.scaling_factor * f0\n", ["UNITS", "COH"])

M("diag-v-hoisted", "utils.py", "    for i in range(n_params):\n        v = np.zeros(n_params)\n", "    v = np.zeros(n_params)\n    for i in range(n_params):\n", ["DIAG"], canary=True)
M("diag-read-zero", "utils.py", "hess_inv.matvec(v)[i]", "hess_inv.matvec(v)[0]", ["DIAG"])
M("diag-range-short", "utils.py", "    for i in range(n_params):\n", "    for i in range(n_params - 1):\n", ["DIAG"])
Q("diag-matmul", "utils.py", "hess_inv.matvec(v)[i]", "(hess_inv @ v)[i]", ["DIAG"])

# ---- SCALEPOS / BIND (round 2)
M("scalepos-abs-lost", "utils.py", "    max_change = max(abs(updated_params))\n", "    max_change = np.max(updated_params)\n", ["SCALEPOS"], canary=True, note="R2_C03-c")
Q("scalepos-np-abs", "utils.py", "    max_change = max(abs(updated_params))\n", "    max_change = np.max(np.abs(updated_params))\n", ["SCALEPOS"])
Q("scalepos-norm-inf", "utils.py", "    max_change = max(abs(updated_params))\n    return 1.0 / max_change\n", "    return 1.0 / np.max(np.abs(updated_params))\n", ["SCALEPOS"])
M("bind-above-iter-local", "main.py", "            ub,\n            istate.nit,\n            max_steplength_user,\n", "            ub,\n            istate.nit - nit_first,\n            max_steplength_user,\n", ["BIND"],
  also=[("main.py", "        f0_old = copy.copy(f0)\n", "        f0_old = copy.copy(f0)\n        nit_first = 0\n")], note="R2_C07-a shape")
M("bind-is-boxed-const", "main.py", "            max_steplength_user,\n            is_boxed,\n            sf,\n", "            max_steplength_user,\n            True,\n            sf,\n", ["BIND"])

# ---- finding 14 (fix c0cbf32): the scaling factor travels with the values it scaled
M("units-restart-factor-not-restored", "main.py",
  "        sf.scaling_factor = checkpoint.get(\"scaling_factor\", 1.0)\n", "", ["UNITS"], canary=True,
  note="pinned defect 14a: restored fun/jac are scaled by a factor the wrapper no longer has")
M("units-restart-scaler-called-again", "main.py",
  "    if gradient_scaler is not None and checkpoint is None:\n", "    if gradient_scaler is not None:\n", ["UNITS"],
  note="pinned defect 14b: the scaler sees a scaled gradient and replaces the factor of the restored values")
M("units-restart-scaled-twice", "main.py",
  "    if checkpoint is None:\n        f0 *= sf.scaling_factor\n        grad = grad * sf.scaling_factor\n",
  "    f0 *= sf.scaling_factor\n    grad = grad * sf.scaling_factor\n", ["UNITS"], note="pinned defect 14c")
M("fields-final-result-without-factor", "main.py",
  "        success=istate.is_success,\n        scaling_factor=sf.scaling_factor,\n", "        success=istate.is_success,\n", ["FIELDS"])
M("fields-callback-state-without-factor", "main.py",
  "                        success=istate.is_success,\n                        scaling_factor=sf.scaling_factor,\n",
  "                        success=istate.is_success,\n", ["FIELDS"])
M("units-restore-factor-wrong-guard", "main.py",
  "        sf.scaling_factor = checkpoint.get(\"scaling_factor\", 1.0)\n\n    # First evaluation",
  "\n    if checkpoint is not None and gradient_scaler is None:\n        sf.scaling_factor = checkpoint.get(\"scaling_factor\", 1.0)\n\n    # First evaluation", ["FIELDS", "UNITS"])
Q("units-restore-getattr", "main.py",
  "        sf.scaling_factor = checkpoint.get(\"scaling_factor\", 1.0)\n", "        sf.scaling_factor = getattr(checkpoint, \"scaling_factor\", 1.0)\n", ["UNITS", "FIELDS", "SCALER"])
Q("units-scaling-nested-guard", "main.py",
  "    if gradient_scaler is not None and checkpoint is None:\n        sf.scaling_factor = gradient_scaler(x, grad, lb, ub)\n",
  "    if checkpoint is None and gradient_scaler is not None:\n        sf.scaling_factor = gradient_scaler(x, grad, lb, ub)\n", ["UNITS", "SCALER"])

# ---- SCALEUSE / MATSOWN (round 2)
M("scaleuse-theta-after-reboot", "main.py",
  "                mats = LBFGSB_MATRICES(n)\n", "                mats = LBFGSB_MATRICES(n)\n                mats.theta = sf.scaling_factor\n",
  ["SCALEUSE", "MATSOWN"], canary=True, note="R2_C17-b")
M("scaleuse-step-cap-divided", "main.py",
  "            max_steplength_user,\n            is_boxed,\n            sf,\n", "            max_steplength_user / sf.scaling_factor,\n            is_boxed,\n            sf,\n",
  ["SCALEUSE"], note="the user cap has no counterpart in the explicitly scaled run")
M("scaleuse-tolerance-scaled", "main.py",
  "                elif is_f0_min_change_reached(f0, f0_old, ftol, istate):\n", "                elif is_f0_min_change_reached(f0, f0_old, ftol * sf.scaling_factor, istate):\n", ["SCALEUSE"])
Q("scaleuse-local-alias", "main.py",
  "    has_displayed_results = False\n", "    has_displayed_results = False\n    fac_ = sf.scaling_factor\n", ["SCALEUSE", "UNITS"],
  also=[("main.py", "                elif is_f0_target_reached(f0 / sf.scaling_factor, _ftarget, istate):\n", "                elif is_f0_target_reached(f0 / fac_, _ftarget, istate):\n")])
M("matsown-w-rescaled-in-cauchy", "cauchy.py",
  "    x_cp: NDArrayFloat = x.copy()\n", "    x_cp: NDArrayFloat = x.copy()\n    mats.W = mats.W * 1.0\n", ["MATSOWN"], canary=True)
M("matsown-theta-reset-in-main", "main.py",
  "        d = xbar - x\n", "        d = xbar - x\n        mats.theta = 1.0\n", ["MATSOWN"])

# ---- BIND: inner calls of line_search (round-4 sweep survivors)
M("bind-cap-and-iteration-swapped", "linesearch.py", "x0, d, lb, ub, max_steplength_user, above_iter", "x0, d, lb, ub, above_iter, max_steplength_user", ["BIND"])
M("const-initial-theta-zero", "bfgsmats.py", "        self.theta: float = 1.0\n", "        self.theta: float = 0.0\n", ["CONST"])
