from . import M, Q

FIX = "    sorted_t_idx: NDArrayInt = np.argsort(t)\n    sorted_t_idx = sorted_t_idx[t[sorted_t_idx] > 0]\n"
M("idx-pinned-mask-space", "cauchy.py", FIX, "    sorted_t_idx: NDArrayInt = np.argsort(t)[t > 0]\n", ["IDX"], canary=True,
  note="pinned defect 1")
M("idx-sort-key-negated", "cauchy.py", FIX, "    sorted_t_idx: NDArrayInt = np.argsort(-t)\n    sorted_t_idx = sorted_t_idx[t[sorted_t_idx] > 0]\n", ["IDX"])
M("idx-descending", "cauchy.py", FIX, "    sorted_t_idx: NDArrayInt = np.argsort(t)[::-1]\n    sorted_t_idx = sorted_t_idx[t[sorted_t_idx] > 0]\n", ["IDX"])
M("idx-breakpoint-value-from-d", "cauchy.py", "        try:\n            ibp = sorted_t_idx[_i]\n            t_cur = t[ibp]\n", "        try:\n            ibp = sorted_t_idx[_i]\n            t_cur = d[ibp]\n", ["IDX"])
M("idx-counter-as-variable", "cauchy.py", "        g_b = grad[ibp]\n", "        g_b = grad[_i]\n", ["IDX"])
M("idx-mask-d-on-rank", "cauchy.py", FIX, "    sorted_t_idx: NDArrayInt = np.argsort(t)\n    sorted_t_idx = sorted_t_idx[d != 0]\n", ["IDX"])
Q("idx-flatnonzero-form", "cauchy.py", FIX, "    _nz = np.flatnonzero(t > 0)\n    sorted_t_idx: NDArrayInt = _nz[np.argsort(t[_nz])]\n", ["IDX"])
Q("idx-mask-through-perm", "cauchy.py", FIX, "    _order = np.argsort(t)\n    sorted_t_idx: NDArrayInt = _order[(t > 0)[_order]]\n", ["IDX"])
Q("idx-stable-sort", "cauchy.py", FIX, "    sorted_t_idx: NDArrayInt = np.argsort(t, kind=\"stable\")\n    sorted_t_idx = sorted_t_idx[t[sorted_t_idx] > 0]\n", ["IDX"])
