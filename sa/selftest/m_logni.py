from . import M, Q

M("logni-iprint-changes-maxls", "main.py", "        f0_old = copy.copy(f0)\n", "        f0_old = copy.copy(f0)\n        if iprint > 0:\n            maxls = 10\n", ["LOGNI"], canary=True)
M("logni-log-evaluates", "main.py", "            logger.info(f\"ITERATION {istate.nit + 1}\\n\")\n", "            logger.info(f\"ITERATION {istate.nit + 1} f={sf.fun(x)}\\n\")\n", ["LOGNI"])
M("logni-break-in-logging-branch", "cauchy.py", "            logger.info(f\"Variable  {ibp + 1} is fixed.\")\n", "            logger.info(f\"Variable  {ibp + 1} is fixed.\")\n            break\n", ["LOGNI"])
M("logni-logger-controls-filter", "bfgsmats.py", "            if logger is not None:\n                logger.info(f\"Dropping update #{- i - 2}\")\n", "            if logger is not None:\n                logger.info(f\"Dropping update #{- i - 2}\")\n                _X.appendleft(X[k])\n                _G.appendleft(G[k])\n", ["LOGNI"])
M("logni-iprint-as-number", "main.py", "            min(maxls, maxfun - sf.nfev),\n", "            min(maxls, maxfun - sf.nfev, max(iprint, 1) * 1000),\n", ["LOGNI"])
M("logni-leaked-local", "subspacemin.py", "    return free_vars, Z.tocsc(), A.tocsc()\n", "    if iprint > 100 and iter > 0 and free_vars_old is not None and logger is not None:\n        free_vars = entering_vars\n    return free_vars, Z.tocsc(), A.tocsc()\n", ["LOGNI"])
M("logni-display-result-steers-run", "main.py", "        istate.nit += 1\n\n    # Final display", "        istate.nit += 1\n        if has_displayed_results:\n            f0_old = f0\n\n    # Final display", ["LOGNI"])
Q("logni-extra-log", "linesearch.py", "    dphi0 = g0.dot(d)\n", "    dphi0 = g0.dot(d)\n    if logger is not None and iprint > 200:\n        logger.info(f\"dphi0 = {dphi0}\")\n", ["LOGNI"])
Q("logni-local-in-log-branch", "cauchy.py", "            logger.info(f\"Variable  {ibp + 1} is fixed.\")\n", "            _nm = ibp + 1\n            logger.info(f\"Variable  {_nm} is fixed.\")\n", ["LOGNI"])
