from . import M, Q

XUPD = "            x = np.clip(x + steplength * d, lb, ub)\n"
XUPD_INPLACE = "            x += steplength * d\n            np.clip(x, lb, ub, out=x)\n"

M("esc-pinned-live-x", "main.py", "                        x=np.copy(x),\n", "                        x=x,\n", ["ESC"], canary=True,
  also=[("main.py", XUPD, XUPD_INPLACE)], note="pinned defect 7a: state holds the live iterate which is updated in place")
M("esc-callback-arg-live", "main.py", "                if callback(\n                    np.copy(x),\n", "                if callback(\n                    x,\n", ["ESC"],
  also=[("main.py", XUPD, XUPD_INPLACE)])
M("esc-jac-inplace-later", "main.py", "        f0_old = copy.copy(f0)\n", "        f0_old = copy.copy(f0)\n        grad *= 1.0\n", ["ESC"],
  note="gradient handed to the callback (and stored in G) is rescaled in place next iteration")
M("esc-history-live-x", "main.py",
  "            mats = update_lbfgs_matrices(\n                x.copy(),  # copy otherwise x might be changed in X when updated\n                grad,\n                X,\n                G,\n                maxcor,\n                mats,\n                is_force_update=False,\n                eps=eps_SY,\n                is_check_factorization=is_check_factorization,\n            )\n\n            # callback",
  "            mats = update_lbfgs_matrices(\n                x,\n                grad,\n                X,\n                G,\n                maxcor,\n                mats,\n                is_force_update=False,\n                eps=eps_SY,\n                is_check_factorization=is_check_factorization,\n            )\n\n            # callback",
  ["ESC"], also=[("main.py", XUPD, XUPD_INPLACE)], note="history stores the live iterate: all s become 0")
M("esc-first-point-live", "main.py", "        X.append(np.copy(x))\n", "        X.append(x)\n", ["ESC"], also=[("main.py", XUPD, XUPD_INPLACE)])
M("esc-state-x-is-live-iterate", "main.py", "                        x=np.copy(x),\n", "                        x=x,\n", ["ESC"],
  note="the solver never writes the old iterate in place, but a callback editing state.x would move the live iterate (round-2 clause)")
Q("esc-copy-method", "main.py", "                        x=np.copy(x),\n", "                        x=x.copy(),\n", ["ESC", "SIB", "COH"])

M("nitoff-pinned", "main.py", "                        nit=istate.nit + 1,\n", "                        nit=istate.nit,\n", ["NITOFF"], canary=True, note="pinned defect 7b")
M("nitoff-increment-moved-up-and-plus-one", "main.py", "        f0_old = copy.copy(f0)\n", "        f0_old = copy.copy(f0)\n        istate.nit += 1\n", ["NITOFF"],
  also=[("main.py", "\n        istate.nit += 1\n\n    # Final display", "\n\n    # Final display")])
Q("nitoff-increment-before-callback", "main.py", "                        nit=istate.nit + 1,\n", "                        nit=istate.nit,\n", ["NITOFF"],
  also=[("main.py", "\n        istate.nit += 1\n\n    # Final display", "\n\n    # Final display"),
        ("main.py", "            # callback is a user defined mechanism to stop optimization\n", "            istate.nit += 1\n            # callback is a user defined mechanism to stop optimization\n")],
  note="(ignores the retry path; NITB would complain, NITOFF must not)")

M("sib-state-nfev-from-ngev", "main.py", "                        nfev=sf.nfev,\n                        njev=sf.ngev,\n                        nit=istate.nit + 1,",
  "                        nfev=sf.ngev,\n                        njev=sf.ngev,\n                        nit=istate.nit + 1,", ["SIB", "CNT"], canary=True)
M("sib-hess-swapped", "main.py",
  "        hess_inv=LbfgsInvHessProduct(\n            np.atleast_2d(np.diff(np.array(X), axis=0)),\n            np.atleast_2d(np.diff(np.array(G), axis=0)),\n        ),\n    )\n",
  "        hess_inv=LbfgsInvHessProduct(\n            np.atleast_2d(np.diff(np.array(G), axis=0)),\n            np.atleast_2d(np.diff(np.array(X), axis=0)),\n        ),\n    )\n", ["SIB"])
M("sib-hess-axis", "main.py",
  "                            np.atleast_2d(np.diff(np.array(G), axis=0)),\n", "                            np.atleast_2d(np.diff(np.array(G), axis=1)),\n", ["SIB"])
M("sib-state-fun-old", "main.py", "                    OptimizeResult(\n                        fun=f0,\n", "                    OptimizeResult(\n                        fun=f0_old,\n", ["SIB", "COH"])
M("sib-ckpt-slices-differ", "main.py", "checkpoint.hess_inv.sk[-maxcor:], checkpoint.hess_inv.yk[-maxcor:]", "checkpoint.hess_inv.sk[-maxcor:], checkpoint.hess_inv.yk[:maxcor]", ["SIB"])

M("cbuse-false-stops", "main.py", "                ):\n                    istate.task_str = \"STOP: USER CALLBACK\"\n                    istate.is_success = True\n",
  "                ):\n                    istate.task_str = \"STOP: USER CALLBACK\"\n                    istate.is_success = True\n                else:\n                    mats = LBFGSB_MATRICES(n)\n", ["CBUSE"], canary=True)
M("cbuse-callback-presence-changes-run", "main.py", "            if callback is not None and not istate.is_success:\n",
  "            if callback is not None and not istate.is_success:\n                f0_old = f0\n", ["CBUSE"])

M("coh-callback-before-reevaluation", "main.py", "            f0, grad = sf.fun_and_grad(x)\n\n            if update_fun_def is None:",
  "            if update_fun_def is None:", ["COH", "NITB"], canary=True, note="re-evaluation dropped: fun/jac are those of the last trial")
M("coh-eval-at-xbar", "main.py", "            f0, grad = sf.fun_and_grad(x)\n", "            f0, grad = sf.fun_and_grad(xbar)\n", ["COH"])
M("coh-x-moved-after-eval", "main.py", "            if update_fun_def is None:\n                if is_f0_target_reached(",
  "            x = np.clip(x, lb, ub)\n            if update_fun_def is None:\n                if is_f0_target_reached(", ["COH"])
M("coh-grad-smoothed", "main.py", "            if update_fun_def is None:\n                if is_f0_target_reached(",
  "            grad = 0.5 * (grad + G[-1])\n            if update_fun_def is None:\n                if is_f0_target_reached(", ["COH"])
Q("coh-eval-into-temporaries", "main.py", "            f0, grad = sf.fun_and_grad(x)\n", "            f0 = sf.fun(x)\n            grad = sf.grad(x)\n", ["COH"])

M("cnt-restore-swapped", "main.py", "        sf.ngev = checkpoint.njev\n", "        sf.ngev = checkpoint.nfev\n", ["CNT", "FIELDS"], canary=True)
M("cnt-restore-after-first-eval", "main.py", "        sf.nfev = checkpoint.nfev\n        sf.ngev = checkpoint.njev\n", "",
  ["CNT"], also=[("main.py", "    # potential update of stop criterion\n", "    if checkpoint is not None:\n        sf.nfev = checkpoint.nfev\n        sf.ngev = checkpoint.njev\n    else:\n        f0 = sf.fun(x)\n    # potential update of stop criterion\n")])
M("cnt-counter-reset-in-linesearch", "linesearch.py", "    task = b\"START\"\n", "    task = b\"START\"\n    sf.ngev = sf.nfev\n", ["CNT"])
M("fields-nit-not-restored", "main.py", "    if checkpoint is not None:\n        istate.nit = checkpoint.nit\n", "", ["FIELDS"], canary=True)
M("fields-f0-recomputed", "main.py", "    if checkpoint is None:\n        f0 = sf.fun(x)\n    else:\n        f0 = checkpoint.fun\n", "    f0 = sf.fun(x)\n", ["FIELDS"])
M("fields-result-lacks-nit", "main.py", "        nit=istate.nit,\n        status=istate.warnflag,\n        message=istate.task_str,\n        x=x,\n        success=istate.is_success,\n        scaling_factor=sf.scaling_factor,\n        hess_inv=LbfgsInvHessProduct(\n            np.atleast_2d(",
  "        status=istate.warnflag,\n        message=istate.task_str,\n        x=x,\n        success=istate.is_success,\n        scaling_factor=sf.scaling_factor,\n        hess_inv=LbfgsInvHessProduct(\n            np.atleast_2d(", ["FIELDS", "RET"])

M("sib-early-exit-hands-on-checkpoint-operator", "main.py", "                hess_inv=LbfgsInvHessProduct(\n                    checkpoint.hess_inv.sk[-maxcor:], checkpoint.hess_inv.yk[-maxcor:]\n                ),\n",
  "                hess_inv=checkpoint.hess_inv,\n", ["SIB"], note="seeded change C18-b: more than maxcor pairs handed on")

# ---- RESTARTX (round 4: "accept a start point that went through a file")
M("restartx-allclose", "main.py", "        np.testing.assert_equal(x, checkpoint.x)\n", "        np.testing.assert_allclose(x, checkpoint.x, rtol=1e-10, atol=0.0)\n", ["RESTARTX"], canary=True)
M("restartx-no-check", "main.py", "        np.testing.assert_equal(x, checkpoint.x)\n", "        pass\n", ["RESTARTX"])
Q("restartx-array-equal", "main.py", "        np.testing.assert_equal(x, checkpoint.x)\n", "        np.testing.assert_array_equal(x, checkpoint.x)\n", ["RESTARTX"])
