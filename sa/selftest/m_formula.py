from . import M, Q

M("cpform-fprime-update-sign", "cauchy.py", "        f_prime += delta_t * f_second + g_b * (g_b + mats.theta * zb)\n", "        f_prime += delta_t * f_second + g_b * (g_b - mats.theta * zb)\n", ["CPFORM"], canary=True)
M("cpform-fsecond-factor2", "cauchy.py", "bmv(mats.invMfactors, (2 * p + g_b * W_b))", "bmv(mats.invMfactors, (p + g_b * W_b))", ["CPFORM"])
M("cpform-fsecond-theta-dropped", "cauchy.py", "        f_second -= g_b * g_b * mats.theta\n", "        f_second -= g_b * g_b\n", ["CPFORM"])
M("cpform-c-after-fprime", "cauchy.py", "        c += delta_t * p\n        W_b = mats.W[ibp, :]\n        g_b = grad[ibp]\n", "        W_b = mats.W[ibp, :]\n        g_b = grad[ibp]\n", ["CPFORM"],
  also=[("cauchy.py", "        p += g_b * W_b\n", "        c += delta_t * p\n        p += g_b * W_b\n")], note="c updated after f' used it: f' sees the old c")
M("cpform-p-update-sign", "cauchy.py", "        p += g_b * W_b\n", "        p -= g_b * W_b\n", ["CPFORM"])
M("cpform-init-fsecond", "cauchy.py", "        f_second = f_second - p.dot(bmv(mats.invMfactors, p))", "        f_second = f_second + p.dot(bmv(mats.invMfactors, p))", ["CPFORM"])
M("cpform-dtmin-sign", "cauchy.py", "        delta_t_min = -f_prime / f_second\n        t_old", "        delta_t_min = f_prime / f_second\n        t_old", ["CPFORM"])
M("cpform-tail-c-uses-delta_t", "cauchy.py", "    c += delta_t_min * p\n", "    c += delta_t * p\n", ["CPFORM"])
M("cpform-tail-xcp-told-stale", "cauchy.py", "    t_old += delta_t_min\n", "    t_new = t_old + delta_t_min\n", ["CPFORM"])
M("cpform-direction-not-zeroed", "cauchy.py", "    d = np.where(t == 0, 0.0, -grad)\n", "    d = -grad\n", ["CPFORM"])
M("cpform-floor-removed", "cauchy.py", "        f_second = max(f_second, eps_f_sec * f2_org)\n", "", ["CPFORM"])
Q("cpform-expanded", "cauchy.py", "        f_prime += delta_t * f_second + g_b * (g_b + mats.theta * zb)\n", "        f_prime = f_prime + delta_t * f_second + g_b * g_b + mats.theta * g_b * zb\n", ["CPFORM"])
Q("cpform-max-clamp", "cauchy.py", "    delta_t_min = 0 if delta_t_min < 0 else delta_t_min\n", "    delta_t_min = max(delta_t_min, 0)\n", ["CPFORM", "SIGN"])
Q("cpform-split-bilinear", "cauchy.py", "            f_second -= g_b * W_b.dot(bmv(mats.invMfactors, (2 * p + g_b * W_b)))\n",
  "            f_second -= 2 * g_b * W_b.dot(bmv(mats.invMfactors, p))\n            f_second -= g_b * g_b * W_b.dot(bmv(mats.invMfactors, W_b))\n", ["CPFORM"])
M("ratio-cauchy-scaled", "cauchy.py", "        grad[mask] < 0, (x - ub)[mask] / grad[mask], (x - lb)[mask] / grad[mask]\n", "        grad[mask] < 0, (x - ub)[mask] / grad[mask], (x - lb)[mask] / (2 * grad[mask])\n", ["RATIOFORM"], canary=True)
M("ratio-ls-abs", "linesearch.py", "(lb - x)[_mask] / d[_mask]\n", "(x - lb)[_mask] / -d[_mask] / 2\n", ["RATIOFORM"])
M("ratio-subspace-point", "subspacemin.py", "(ub - xc)[free_vars][mask], (lb - xc)[free_vars][mask]", "(ub - x)[free_vars][mask], (lb - x)[free_vars][mask]", ["RATIOFORM"], note="ratio measured from the iterate instead of the Cauchy point")
Q("ratio-negated", "linesearch.py", "(lb - x)[_mask] / d[_mask]\n", "(x - lb)[_mask] / -d[_mask]\n", ["RATIOFORM", "SIGN"])
