from . import M, Q

M("cpform-fprime-update-sign", "cauchy.py", "        f_prime += delta_t * f_second + g_b * (g_b + mats.theta * zb)\n", "        f_prime += delta_t * f_second + g_b * (g_b - mats.theta * zb)\n", ["CPFORM"], canary=True)
M("cpform-fsecond-factor2", "cauchy.py", "bmv(mats.invMfactors, (2 * p + g_b * W_b))", "bmv(mats.invMfactors, (p + g_b * W_b))", ["CPFORM"])
M("cpform-fsecond-theta-dropped", "cauchy.py", "        f_second -= g_b * g_b * mats.theta\n", "        f_second -= g_b * g_b\n", ["CPFORM"])
M("cpform-c-after-fprime", "cauchy.py", "        c += delta_t * p\n        W_b = mats.W[ibp, :]\n        g_b = grad[ibp]\n", "        W_b = mats.W[ibp, :]\n        g_b = grad[ibp]\n", ["CPFORM"],
  also=[("cauchy.py", "        p += g_b * W_b\n", "        c += delta_t * p\n        p += g_b * W_b\n")], note="c updated after f' used it: f' sees the old c")
M("cpform-p-update-sign", "cauchy.py", "        p += g_b * W_b\n", "        p -= g_b * W_b\n", ["CPFORM"])
M("cpform-init-fsecond", "cauchy.py", "        f_second = f_second - p.dot(bmv(mats.invMfactors, p))", "        f_second = f_second + p.dot(bmv(mats.invMfactors, p))", ["CPFORM"])
M("cpform-dtmin-sign", "cauchy.py", "        delta_t_min = -f_prime / f_second\n        t_old", "        delta_t_min = f_prime / f_second\n        t_old", ["CPFORM"])
M("cpform-tail-c-uses-delta_t", "cauchy.py", "    c += delta_t_min * p\n", "    c += delta_t * p\n", ["CPFORM"])
M("cpform-tail-xcp-told-stale", "cauchy.py", "    t_old += delta_t_min\n", "    t_new = t_old + delta_t_min\n", ["CPFORM"])
M("cpform-direction-not-zeroed", "cauchy.py", "    d = np.where(t == 0, 0.0, -grad)\n", "    d = -grad\n", ["CPFORM"])
M("cpform-floor-removed", "cauchy.py", "        f_second = max(f_second, eps_f_sec * f2_org)\n", "", ["CPFORM"])
Q("cpform-expanded", "cauchy.py", "        f_prime += delta_t * f_second + g_b * (g_b + mats.theta * zb)\n", "        f_prime = f_prime + delta_t * f_second + g_b * g_b + mats.theta * g_b * zb\n", ["CPFORM"])
Q("cpform-max-clamp", "cauchy.py", "    delta_t_min = 0 if delta_t_min < 0 else delta_t_min\n", "    delta_t_min = max(delta_t_min, 0)\n", ["CPFORM", "SIGN"])
Q("cpform-split-bilinear", "cauchy.py", "            f_second -= g_b * W_b.dot(bmv(mats.invMfactors, (2 * p + g_b * W_b)))\n",
  "            f_second -= 2 * g_b * W_b.dot(bmv(mats.invMfactors, p))\n            f_second -= g_b * g_b * W_b.dot(bmv(mats.invMfactors, W_b))\n", ["CPFORM"])
M("ratio-cauchy-scaled", "cauchy.py", "        grad[mask] < 0, (x - ub)[mask] / grad[mask], (x - lb)[mask] / grad[mask]\n", "        grad[mask] < 0, (x - ub)[mask] / grad[mask], (x - lb)[mask] / (2 * grad[mask])\n", ["RATIOFORM"], canary=True)
M("ratio-ls-abs", "linesearch.py", "(lb - x)[_mask] / d[_mask]\n", "(x - lb)[_mask] / -d[_mask] / 2\n", ["RATIOFORM"])
M("ratio-subspace-point", "subspacemin.py", "(ub - xc)[free_vars][mask], (lb - xc)[free_vars][mask]", "(ub - x)[free_vars][mask], (lb - x)[free_vars][mask]", ["RATIOFORM"], note="ratio measured from the iterate instead of the Cauchy point")
Q("ratio-negated", "linesearch.py", "(lb - x)[_mask] / d[_mask]\n", "(x - lb)[_mask] / -d[_mask]\n", ["RATIOFORM", "SIGN"])

M("pgform-plus", "base.py", "    return np.max(np.abs(np.clip(x - grad, lb, ub) - x))\n", "    return np.max(np.abs(np.clip(x + grad, lb, ub) - x))\n", ["PGFORM"], canary=True)
M("pgform-unprojected", "base.py", "    return np.max(np.abs(np.clip(x - grad, lb, ub) - x))\n", "    return np.max(np.abs(grad))\n", ["PGFORM"], note="plain gradient norm: never <= gtol at an active bound")
M("pgform-mean", "base.py", "    return np.max(np.abs(np.clip(x - grad, lb, ub) - x))\n", "    return np.mean(np.abs(np.clip(x - grad, lb, ub) - x))\n", ["PGFORM"])
M("pgform-ftol-sign", "main.py", "    if (f0_old - f0) / max(abs(f0_old), abs(f0), 1) < ftol:\n", "    if (f0 - f0_old) / max(abs(f0_old), abs(f0), 1) < ftol:\n", ["PGFORM"])
M("pgform-ftol-denominator", "main.py", "    if (f0_old - f0) / max(abs(f0_old), abs(f0), 1) < ftol:\n", "    if (f0_old - f0) / max(abs(f0_old), abs(f0)) < ftol:\n", ["PGFORM"])
Q("pgform-commuted", "base.py", "    return np.max(np.abs(np.clip(x - grad, lb, ub) - x))\n", "    return np.max(np.abs(x - np.clip(x - grad, lb, ub)))\n", ["PGFORM"])
Q("pgform-ftol-max-order", "main.py", "    if (f0_old - f0) / max(abs(f0_old), abs(f0), 1) < ftol:\n", "    if (f0_old - f0) / max(1, abs(f0), abs(f0_old)) < ftol:\n", ["PGFORM"])
M("subform-r-sign", "subspacemin.py", "    r = grad + mats.theta * (xc - x)\n", "    r = grad - mats.theta * (xc - x)\n", ["SUBFORM"], canary=True)
M("subform-r-x-for-xc", "subspacemin.py", "    r = grad + mats.theta * (xc - x)\n", "    r = grad + mats.theta * (x - xc)\n", ["SUBFORM"])
M("subform-dhat-theta", "subspacemin.py", "    dHat = -invThet * (rHat + invThet * np.transpose(WTZ).dot(v))\n", "    dHat = -invThet * (rHat + np.transpose(WTZ).dot(v))\n", ["SUBFORM"])
M("subform-dhat-sign", "subspacemin.py", "    dHat = -invThet * (rHat + invThet * np.transpose(WTZ).dot(v))\n", "    dHat = -invThet * (rHat - invThet * np.transpose(WTZ).dot(v))\n", ["SUBFORM"])
M("subform-wmc-dropped", "subspacemin.py", "        r -= mats.W.dot(bmv(mats.invMfactors, c))\n", "        r -= mats.W.dot(c)\n", ["SUBFORM"])
Q("subform-expanded", "subspacemin.py", "    r = grad + mats.theta * (xc - x)\n", "    r = grad + mats.theta * xc - mats.theta * x\n", ["SUBFORM"])

# ---- KFACT
M("kfact-l22-without-l12", "subspacemin.py",
  "    L22 = sp.linalg.cholesky(K22 + L12.T @ L12, lower=True)\n", "    L22 = sp.linalg.cholesky(K22, lower=True)\n", ["KFACT"], canary=True)
M("kfact-upper-chol", "subspacemin.py",
  "    L11 = sp.linalg.cholesky(K11, lower=True, overwrite_a=False)\n", "    L11 = sp.linalg.cholesky(K11, lower=False, overwrite_a=False)\n", ["KFACT"])
M("kfact-k12-sign", "subspacemin.py", "    K12 = -K[:m, m:]\n", "    K12 = K[:m, m:]\n", ["KFACT"])
M("kfact-blocks-swapped", "subspacemin.py",
  "    LK = np.hstack([np.vstack([L11, L12.T]), np.vstack([np.zeros(L12.shape), L22])])\n",
  "    LK = np.hstack([np.vstack([L11, np.zeros(L12.shape).T]), np.vstack([L12, L22])])\n", ["KFACT"])
M("kfact-closed-form-2x2", "subspacemin.py",
  "    # Extract the subblocks of K with K12 = K21.T (K is symmetric)\n",
  "    if K.shape[0] == 2:\n        l11 = np.sqrt(-K[0, 0])\n        l12 = -K[0, 1] / l11\n        return np.array([[l11, 0.0], [l12, np.hypot(K[1, 1], l12)]])\n", ["KFACT"],
  note="round-2 seeded change R2_C09-c")
Q("kfact-floor-div", "subspacemin.py", "    m = int(K.shape[0] / 2)\n    K11", "    m = K.shape[0] // 2\n    K11", ["KFACT"])
Q("kfact-np-block", "subspacemin.py",
  "    LK = np.hstack([np.vstack([L11, L12.T]), np.vstack([np.zeros(L12.shape), L22])])\n",
  "    LK = np.block([[L11, np.zeros(L12.shape)], [L12.T, L22]])\n", ["KFACT"])
Q("kfact-inline-blocks", "subspacemin.py",
  "    L11 = sp.linalg.cholesky(K11, lower=True, overwrite_a=False)\n", "    L11 = sp.linalg.cholesky(-K[:m, :m], lower=True)\n", ["KFACT"])

# ---- KFORM
M("kform-k21-transposed", "subspacemin.py", "    K[m:, :m] = mats.L - STZZTY\n", "    K[m:, :m] = (mats.L - STZZTY).T\n", ["KFORM"], canary=True)
M("kform-k11-theta-dropped", "subspacemin.py", "    K[:m, :m] = -mats.D - (1 / mats.theta) * YTZZTY\n", "    K[:m, :m] = -mats.D - YTZZTY\n", ["KFORM"])
M("kform-k22-from-z", "subspacemin.py", "        STAATS = mats.S.T @ A @ A.T @ mats.S\n", "        STAATS = mats.S.T @ Z @ Z.T @ mats.S\n", ["KFORM"])
M("kform-k21-sign", "subspacemin.py", "    K[m:, :m] = mats.L - STZZTY\n", "    K[m:, :m] = mats.L + STZZTY\n", ["KFORM"])
M("kform-stzzty-from-y-s", "subspacemin.py", "        STZZTY = mats.S.T @ Z @ Z.T @ mats.Y\n", "        STZZTY = mats.Y.T @ Z @ Z.T @ mats.S\n", ["KFORM"])
Q("kform-k12-explicit", "subspacemin.py", "    K[:m, m:] = (mats.L - STZZTY).T\n", "    K[:m, m:] = mats.L.T - STZZTY.T\n", ["KFORM"])
Q("kform-theta-division", "subspacemin.py", "    K[:m, :m] = -mats.D - (1 / mats.theta) * YTZZTY\n", "    K[:m, :m] = -mats.D - YTZZTY / mats.theta\n", ["KFORM"])

# ---- KSOLVE (from the mutation sweep's survivors)
M("ksolve-no-sign-flip", "subspacemin.py", "        v[: int(LK.shape[0] / 2)] *= -1\n", "", ["KSOLVE"], canary=True)
M("ksolve-flip-all", "subspacemin.py", "        v[: int(LK.shape[0] / 2)] *= -1\n", "        v[: int(LK.shape[0])] *= -1\n", ["KSOLVE"])
M("ksolve-backward-first", "subspacemin.py",
  "        v = sp.linalg.solve_triangular(LK, v, lower=True)\n        v[: int(LK.shape[0] / 2)] *= -1\n        v = sp.linalg.solve_triangular(LK.T, v, lower=False)\n",
  "        v = sp.linalg.solve_triangular(LK.T, v, lower=False)\n        v[: int(LK.shape[0] / 2)] *= -1\n        v = sp.linalg.solve_triangular(LK, v, lower=True)\n", ["KSOLVE"])
M("ksolve-args-swapped", "subspacemin.py", "        v = sp.linalg.solve_triangular(LK, v, lower=True)\n", "        v = sp.linalg.solve_triangular(v, LK, lower=True)\n", ["KSOLVE"])
Q("ksolve-trans-form", "subspacemin.py", "        v = sp.linalg.solve_triangular(LK.T, v, lower=False)\n", "        v = sp.linalg.solve_triangular(LK, v, lower=True, trans='T')\n", ["KSOLVE"])
Q("ksolve-floor-div", "subspacemin.py", "        v[: int(LK.shape[0] / 2)] *= -1\n", "        v[: LK.shape[0] // 2] *= -1\n", ["KSOLVE"])

# ---- INVMFORM (round 4: "robust" floor on the curvatures)
M("invmform-floor", "bfgsmats.py", "    invD.flat[:: D.shape[0] + 1] = 1 / np.diag(D)\n", "    invD.flat[:: D.shape[0] + 1] = 1 / np.maximum(np.diag(D), 2.2e-16)\n", ["INVMFORM"], canary=True)
M("invmform-abs", "bfgsmats.py", "    invD.flat[:: D.shape[0] + 1] = 1 / np.diag(D)\n", "    invD.flat[:: D.shape[0] + 1] = 1 / np.abs(np.diag(D))\n", ["INVMFORM"])

# ---- BPWALK (mutation sweep survivors in the Cauchy search)
M("bpwalk-no-break", "cauchy.py", "            is_gpc_found = True\n            break\n", "            is_gpc_found = True\n", ["BPWALK"], canary=True)
M("bpwalk-stale-ibp", "cauchy.py", "            ibp = sorted_t_idx[_i]\n            t_cur = t[ibp]\n        except IndexError:", "            t_cur = t[sorted_t_idx[_i]]\n        except IndexError:", ["BPWALK"])
M("bpwalk-zero-breakpoints-kept", "cauchy.py", "    sorted_t_idx = sorted_t_idx[t[sorted_t_idx] > 0]\n", "    sorted_t_idx = sorted_t_idx[t[sorted_t_idx] >= 0]\n", ["BPWALK"])
M("bpwalk-mask-one", "cauchy.py", "    mask = grad != 0\n", "    mask = grad != 1\n", ["BPWALK", "SIGN"])
M("bpwalk-stop-after-update", "cauchy.py", "        if delta_t_min < delta_t:\n            is_gpc_found = True\n            break\n", "", ["BPWALK"],
  also=[("cauchy.py", "        c += delta_t * p\n", "        c += delta_t * p\n        if delta_t_min < delta_t:\n            is_gpc_found = True\n            break\n")])
M("sign-pin-negated-test", "cauchy.py", "        if d[ibp] > 0:\n", "        if not d[ibp] > 0:\n", ["SIGN"])

# ---- INVMSYM (round-4 sweep survivors in form_invMfactors / bmv)
M("invmsym-inverse-dropped", "bfgsmats.py", "    invD.flat[:: D.shape[0] + 1] = 1 / np.diag(D)\n", "    invD.flat[:: D.shape[0] + 1] = np.diag(D)\n", ["INVMSYM"])
M("invmsym-T-minus", "bfgsmats.py", "    J = sp.linalg.cholesky(theta * STS + L @ invD @ L.T, lower=True)\n", "    J = sp.linalg.cholesky(theta * STS - L @ invD @ L.T, lower=True)\n", ["INVMSYM"], canary=True)
M("invmsym-sign-upper", "bfgsmats.py", "                np.vstack([-np.sqrt(D), np.zeros(D.shape)]),  # upper row\n", "                np.vstack([np.sqrt(D), np.zeros(D.shape)]),  # upper row\n", ["INVMSYM"])
M("invmsym-sign-lower", "bfgsmats.py", "                np.vstack([np.sqrt(D), -(np.sqrt(invD) @ L.T).T]),  # upper row\n", "                np.vstack([np.sqrt(D), (np.sqrt(invD) @ L.T).T]),  # upper row\n", ["INVMSYM"])
M("invmsym-bmv-factors-swapped", "bfgsmats.py", "        invMfactors[1],\n", "        invMfactors[0],\n", ["INVMSYM"])

# ---- finding 15 (pinned form): the plain unit step
M("stepinit-plain-unit-step", "linesearch.py", "        steplength_0 = min(1.0, max_steplength)\n", "        steplength_0 = 1.0\n", ["STEPINIT"], canary=True,
  note="the tree as pinned before fix c03c79a")

# ---- BFGSFORM: theta written for a rejected pair (round 5)
M("bfgsform-stray-theta", "bfgsmats.py", "    is_current_update_accepted: bool = update_X_and_G(xk, gk, X, G, maxcor, eps)\n",
  "    is_current_update_accepted: bool = update_X_and_G(xk, gk, X, G, maxcor, eps)\n    mats.theta = max(mats.theta, 1.0)\n", ["BFGSFORM"])
