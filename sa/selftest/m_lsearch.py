from . import M, Q

SEL = "            if f_m1 < best_f:\n                best_f = f_m1\n                best_stp = steplength\n"
M("downhill-pinned", "linesearch.py", SEL,
  "            best_stp = steplength if f_m1 < f_m1_old else stp_old\n", ["DOWNHILL"], canary=True,
  also=[("linesearch.py", "            steplength_0 = steplength\n            f_m1, dphi_m1 = sf.fun_and_grad(", "            stp_old = steplength_0\n            f_m1_old = f_m1\n            steplength_0 = steplength\n            f_m1, dphi_m1 = sf.fun_and_grad("),
        ("linesearch.py", "    if best_stp is None:\n        return None\n", "")],
  note="pinned defect 3: comparison with the previous trial only")
M("downhill-le", "linesearch.py", SEL, "            if f_m1 <= best_f:\n                best_f = f_m1\n                best_stp = steplength\n", ["DOWNHILL"])
M("downhill-vs-previous", "linesearch.py", SEL, "            if f_m1 < f_prev:\n                best_f = f_m1\n                best_stp = steplength\n            f_prev = f_m1\n", ["DOWNHILL"],
  also=[("linesearch.py", "    best_f = f0\n", "    best_f = f0\n    f_prev = f0\n")])
M("downhill-start-overwritten", "linesearch.py", "    best_f = f0\n", "    f0 = f0 + abs(f0) * 1e-3\n    best_f = f0\n", ["DOWNHILL"], note="start value inflated before seeding")
M("downhill-last-trial-returned", "linesearch.py", "    steplength = best_stp\n\n", "    steplength = steplength_0\n\n", ["DOWNHILL"])
M("downhill-wrong-step-recorded", "linesearch.py", SEL, "            if f_m1 < best_f:\n                best_f = f_m1\n                best_stp = max_steplength\n", ["DOWNHILL"])
M("downhill-eval-other-point", "linesearch.py", "sf.fun_and_grad(np.clip(x0 + steplength * d, lb, ub))", "sf.fun_and_grad(np.clip(x0 + steplength_0 * d, lb, ub))", ["DOWNHILL"],
  also=[("linesearch.py", "            steplength_0 = steplength\n            f_m1", "            f_m1")], note="value recorded for a step other than the one evaluated")
M("downhill-not-ge-nan", "linesearch.py", SEL, "            if not f_m1 >= best_f:\n                best_f = f_m1\n                best_stp = steplength\n", ["DOWNHILL"],
  note="not (a >= b) is also true for a NaN trial value: it becomes the running minimum and every later trial is then accepted")
Q("downhill-final-guard", "linesearch.py", "    if best_stp is None:\n        return None\n", "    if best_stp is None or best_f >= f0:\n        return None\n", ["DOWNHILL"])
Q("downhill-renamed", "linesearch.py", SEL, "            if best_f > f_m1:\n                best_stp = steplength\n                best_f = float(f_m1)\n", ["DOWNHILL"])

M("lsbud-increment-in-branch", "linesearch.py", "        else:\n            break\n        _iter += 1\n", "            if f_m1 < best_f:\n                _iter += 1\n        else:\n            break\n", ["LSBUD"], canary=True)
M("lsbud-call-dunder", "linesearch.py", "            steplength, _, dphi0, task = dcsrch._iterate(\n                steplength_0, f_m1, dphi_m1, task\n            )\n",
  "            steplength, _, dphi0, task = dcsrch._iterate(\n                steplength_0, f_m1, dphi_m1, task\n            )\n            _probe = dcsrch(steplength_0, phi0=f_m1, derphi0=dphi_m1, maxiter=1)\n", ["LSBUD"])
M("lsbud-second-eval", "linesearch.py", "            dphi_m1 = dphi_m1.dot(d)\n", "            dphi_m1 = dphi_m1.dot(d)\n            _f_half = sf.fun(np.clip(x0 + 0.5 * steplength * d, lb, ub))\n", ["LSBUD"])
M("lsbud-guard-le", "linesearch.py", "    while _iter < max_iter:\n", "    while _iter <= max_iter:\n", ["LSBUD"])
M("lsbud-counter-starts-negative", "linesearch.py", "    _iter = 0\n", "    _iter = -1\n", ["LSBUD"])

# ---- LSPROTO (from the mutation sweep's survivors)
M("lsproto-step-not-fed-back", "linesearch.py", "            steplength_0 = steplength\n", "", ["LSPROTO"], canary=True)
M("lsproto-slope-not-projected", "linesearch.py", "            dphi_m1 = dphi_m1.dot(d)\n", "            dphi_m1 = dphi_m1.sum()\n", ["LSPROTO"])
M("lsproto-fg-negated", "linesearch.py", '        if task[:2] == b"FG":\n', '        if task[:2] != b"FG":\n', ["LSPROTO"])
M("lsproto-no-break", "linesearch.py", "        else:\n            break\n        _iter += 1\n", "        _iter += 1\n", ["LSPROTO"])
M("lsproto-eval-at-previous-step", "linesearch.py", "            f_m1, dphi_m1 = sf.fun_and_grad(np.clip(x0 + steplength * d, lb, ub))\n",
  "            f_m1, dphi_m1 = sf.fun_and_grad(np.clip(x0 + steplength_0 * d, lb, ub))\n", ["LSPROTO"],
  also=[("linesearch.py", "            steplength_0 = steplength\n", "")], note="evaluates the previous step")
