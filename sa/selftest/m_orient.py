from . import M, Q

DX = "        (checkpoint.x - np.cumsum(checkpoint.hess_inv.sk[::-1], axis=0))[::-1],\n"
DG = "        (checkpoint.jac - np.cumsum(checkpoint.hess_inv.yk[::-1], axis=0))[::-1],\n"
M("orient-pinned", "main.py", DX + DG,
  "        checkpoint.x - np.cumsum(checkpoint.hess_inv.sk, axis=0),\n        checkpoint.jac - np.cumsum(checkpoint.hess_inv.yk, axis=0),\n",
  ["ORIENT"], canary=True, note="pinned defect 6")
M("orient-inner-reverse-missing", "main.py", DX, "        (checkpoint.x - np.cumsum(checkpoint.hess_inv.sk, axis=0))[::-1],\n", ["ORIENT"])
M("orient-outer-reverse-missing", "main.py", DG, "        (checkpoint.jac - np.cumsum(checkpoint.hess_inv.yk[::-1], axis=0)),\n", ["ORIENT"])
M("orient-plus", "main.py", DX, "        (checkpoint.x + np.cumsum(checkpoint.hess_inv.sk[::-1], axis=0))[::-1],\n", ["ORIENT"])
M("orient-g-from-sk", "main.py", DG, "        (checkpoint.jac - np.cumsum(checkpoint.hess_inv.sk[::-1], axis=0))[::-1],\n", ["ORIENT"])
M("orient-appendleft-oldest-first", "main.py", "        X.append(x)\n        G.append(g)\n    # at this point", "        X.appendleft(x)\n        G.appendleft(g)\n    # at this point", ["ORIENT"])
M("orient-cumsum-axis", "main.py", DX, "        (checkpoint.x - np.cumsum(checkpoint.hess_inv.sk[::-1], axis=1))[::-1],\n", ["ORIENT"])
Q("orient-flipud", "main.py", DX + DG,
  "        np.flipud(checkpoint.x - np.cumsum(np.flipud(checkpoint.hess_inv.sk), axis=0)),\n        np.flipud(checkpoint.jac - np.cumsum(np.flipud(checkpoint.hess_inv.yk), axis=0)),\n", ["ORIENT"])
Q("orient-reversed-iter", "main.py", DX + DG,
  "        reversed(checkpoint.x - np.cumsum(checkpoint.hess_inv.sk[::-1], axis=0)),\n        reversed(checkpoint.jac - np.cumsum(checkpoint.hess_inv.yk[::-1], axis=0)),\n", ["ORIENT"])
