"""round 6: mutants of the rules added in that round (STPCAP, BPVAL, CARRIED); the seeded changes R6_* exercise them too"""
from . import M, Q

M("stpcap-second-writer", "linesearch.py",
  "        steplength_0 = min(1.0, max_steplength)\n",
  "        steplength_0 = min(1.0, max_steplength)\n    max_steplength = min(max_steplength, 10.0 * steplength_0)\n",
  ["STPCAP"], canary=True, note="a tighter cap than the largest feasible step reaches DCSRCH (R6_C12-b)")
Q("stpcap-same-value-renamed-temp", "linesearch.py",
  "        steplength_0 = min(1.0, max_steplength)\n",
  "        steplength_0 = min(1.0, max_steplength)\n    stpmx_unused = max_steplength\n",
  ["STPCAP"], note="a read of the cap is not a writer")
M("bpval-snap-small-breakpoints", "cauchy.py",
  "    t[grad == 0] = np.inf\n",
  "    t[grad == 0] = np.inf\n    t[t <= 1e-16] = 0.0\n",
  ["BPVAL"], canary=True, note="breakpoints below a tolerance snapped to zero (R6_C08-a)")
M("bpval-cap-breakpoints", "cauchy.py",
  "    t[grad == 0] = np.inf\n",
  "    t[grad == 0] = np.inf\n    np.minimum(t, 1e30, out=t)\n",
  ["BPVAL"], note="in-place cap of the breakpoints")
M("carried-unrestored-counter", "main.py",
  "        istate.nit += 1\n",
  "        istate.nit += 1\n        istate.warnflag += 0\n",
  ["CARRIED"], canary=True, note="a state attribute accumulated across iterations that no restart restores (R6_C07-b)")
M("carried-unrestored-local", "main.py",
  "        istate.nit += 1\n",
  "        istate.nit += 1\n        maxls = maxls + 0\n",
  ["CARRIED"], note="a local defined before the loop and recomputed from itself in every iteration")

# finding 19 (pinned form): the floor constant of the path curvature
M("f2floor-tiny-constant", "cauchy.py", "    eps_f_sec = np.finfo(float).eps\n", "    eps_f_sec = 1e-30\n", ["F2FLOOR"], canary=True,
  note="pinned defect 19: c is round-off garbage when only zero-gradient variables remain free")
M("f2floor-no-floor-factor", "cauchy.py", "    eps_f_sec = np.finfo(float).eps\n", "    eps_f_sec = 0.0\n", ["F2FLOOR"])
Q("f2floor-literal-epsmch", "cauchy.py", "    eps_f_sec = np.finfo(float).eps\n", "    eps_f_sec = 2.2e-16\n", ["F2FLOOR"])
