"""sa.tables -- frozen tables (one line per entry; reasons in comments).

Effects of external callees on aliasing.  A callee that is not listed is
treated as VIEW of all its array arguments (conservative for every aliasing
rule) and reported in the evidence under `unclassified_callees`.
"""

# returns a new object that aliases none of its arguments
FRESH_FUNCS = {
    "np.clip", "np.copy", "np.array", "np.diff", "np.cumsum", "np.where", "np.zeros",
    "np.zeros_like", "np.ones", "np.ones_like", "np.full", "np.full_like", "np.empty",
    "np.empty_like", "np.hstack", "np.vstack", "np.concatenate", "np.repeat", "np.arange",
    "np.identity", "np.eye", "np.tril", "np.triu", "np.sqrt", "np.abs", "np.square", "np.power",
    "np.exp", "np.sin", "np.cos", "np.isin", "np.isfinite", "np.isinf", "np.isnan",
    "np.logical_or", "np.logical_and", "np.logical_not", "np.argsort", "np.sort", "np.dot",
    "np.minimum", "np.maximum", "np.flatnonzero", "np.cumprod", "np.outer", "np.linalg.solve",
    "np.linalg.inv", "sp.linalg.cholesky", "sp.linalg.solve_triangular", "old_bound_to_new",
    "lil_matrix", "approx_derivative", "np.sign", "np.negative", "np.multiply", "np.add",
    "np.subtract", "np.divide", "np.flip", "np.flipud", "np.fliplr",  # flip returns a view in numpy; see VIEW
    "copy.deepcopy", "deepcopy", "np.linspace", "np.nan_to_num", "np.einsum", "np.kron",
    "np.float64", "float", "int", "bool", "str", "bytes", "tuple", "range", "zip", "enumerate",
    "sorted", "list", "dict", "set", "frozenset", "deque", "Deque", "collections.deque",
    "OptimizeResult", "LbfgsInvHessProduct", "LBFGSB_MATRICES", "InternalState",
    "ScalarFunction", "Version", "ValueError", "TypeError", "RuntimeError",
    "np.finfo", "logging.getLogger", "np.errstate", "warnings.catch_warnings",
    "sp.optimize._dcsrch.DCSRCH",
}
# np.flip / flipud / fliplr return views: keep them out of FRESH
FRESH_FUNCS -= {"np.flip", "np.flipud", "np.fliplr"}
# containers built from an iterable keep references to its elements: handled in alias.py
CONTAINER_CTORS = {"deque", "Deque", "collections.deque", "list", "tuple"}

# may return (a view of) its first argument
VIEW_FUNCS = {
    "np.asarray", "np.atleast_1d", "np.atleast_2d", "np.transpose", "np.diag", "np.ravel",
    "np.reshape", "np.squeeze", "np.asanyarray", "np.ascontiguousarray", "np.flip", "np.flipud",
    "np.fliplr", "np.real", "np.imag", "np.broadcast_to", "np.expand_dims", "np.swapaxes",
    "copy.copy", "copy", "reversed", "iter", "np.asfarray", "np.require",
}

# scalar results (immutable): no aliasing at all
SCALAR_FUNCS = {
    "len", "min", "max", "abs", "any", "all", "callable", "isinstance", "np.max", "np.min",
    "np.nanmin", "np.nanmax", "np.prod", "np.sum", "np.isscalar", "np.count_nonzero",
    "np.array_equal", "np.linalg.norm", "np.allclose", "np.isclose", "np.mean", "np.amax",
    "np.amin", "np.any", "np.all", "np.size", "np.ndim", "round", "hash", "id", "repr",
    "np.testing.assert_equal", "np.testing.assert_allclose", "np.testing.assert_array_equal",
    "projgr", "print",
}

# methods: result aliases nothing
FRESH_METHODS = {
    "copy", "astype", "dot", "sum", "any", "all", "item", "nonzero", "tocsc", "tocsr", "toarray",
    "todense", "max", "min", "mean", "prod", "cumsum", "clip", "tolist", "matvec", "rmatvec",
    "format", "join", "split", "argsort", "argmax", "argmin", "conj", "round", "std", "var",
    "info", "debug", "warning", "error", "critical", "log", "is_integer", "get", "keys", "values",
    "items", "count", "index", "_iterate", "dcsrch", "popleft", "pop",
}
# popleft/pop return an element: handled as element read in alias.py
FRESH_METHODS -= {"popleft", "pop"}
# d.get(k), d.values(), d.items() hand out the objects stored in the mapping, not new ones
FRESH_METHODS -= {"get", "values", "items"}
VIEW_METHODS = {"reshape", "ravel", "transpose", "view", "squeeze", "diagonal", "flatten_view",
                "swapaxes", "__getitem__", "get", "values", "items"}
# flatten() is a copy
FRESH_METHODS |= {"flatten"}

# in-place: method mutates its receiver
MUTATING_METHODS = {
    "append", "appendleft", "popleft", "pop", "extend", "extendleft", "clear", "insert", "remove",
    "rotate", "reverse", "sort", "fill", "put", "itemset", "resize", "setflags", "update",
    "setdefault", "add", "discard", "partition", "byteswap", "setfield",
}
# in-place: function mutates the listed positional argument(s)
MUTATING_FUNCS = {
    "np.fill_diagonal": [0], "np.copyto": [0], "np.put": [0], "np.place": [0], "np.putmask": [0],
    "np.put_along_axis": [0], "np.random.shuffle": [0], "np.add.at": [0], "np.subtract.at": [0],
    "np.multiply.at": [0], "np.nan_to_num": [],  # copy=True default
    # f2py routine: isave (pos 9) and dsave (pos 10) are in/out work arrays
    "sp.optimize.minpack2.dcsrch": [9, 10],
    "minpack2.dcsrch": [9, 10],
}
# keyword that makes any numpy function write into the given array
OUT_KEYWORDS = {"out"}
# keyword arguments that allow overwriting an input (scipy.linalg)
OVERWRITE_KEYWORDS = {"overwrite_a": 0, "overwrite_b": 1, "overwrite_ab": 0, "overwrite_x": 0}

# attributes that hold immutable scalars (mutating "them" is a rebinding)
SCALAR_FIELDS = {
    "fun", "nfev", "njev", "nit", "status", "message", "success", "size", "shape", "ndim",
    "n", "theta", "ngev", "nhev", "scaling_factor", "f", "f_updated", "g_updated", "H_updated",
    "task_str", "is_success", "warnflag", "use_factor", "_lowest_f", "dtype",
}
SCALAR_ANNOTATIONS = {
    "float", "int", "bool", "str", "bytes", "Optional[float]", "Optional[int]", "Optional[bool]",
    "Optional[str]", "Union[float, Callable[[], float]]", "Optional[Union[float, Callable[[], float]]]",
}

# documented accumulator / work parameters: the callee is *meant* to write them
ACCUMULATORS = {
    "bfgsmats.update_X_and_G": {"X", "G"},
    "bfgsmats.update_lbfgs_matrices": {"X", "G", "mats"},
    "main.is_f0_min_change_reached": {"istate"},
    "main.is_f0_target_reached": {"istate"},
    # caller-supplied dcsrch work arrays; sf is the evaluation cache the search is meant to drive
    "linesearch.line_search": {"isave", "dsave", "sf"},
}
# a method may write its own object; the internal-state record is created inside the call and handed to
# helpers precisely to be written (matrices and the wrapper stay per-function: see ACCUMULATORS)
ACCUMULATOR_NAMES = {"self", "istate"}

# objects owned by the caller of the public API
API_ENTRY = "main.minimize_lbfgsb"
API_CALLER_OWNED = {"x0", "bounds", "args", "checkpoint"}

# user callables whose return value is, by documented contract, owned by the solver
USER_RETURNS_OWNED = {"update_fun_def", "fun", "grad", "jac", "gradient_scaler", "ftarget", "gtol",
                      "callback"}

# termination messages (Appendix B)
TERMINAL_MESSAGES = {
    "CONVERGENCE: NORM_OF_PROJECTED_GRADIENT_<=_PGTOL": "pgtol",
    "CONVERGENCE: REL_REDUCTION_OF_F_<=_FTOL": "ftol",
    "CONVERGENCE: F_<=_TARGET": "target",
    "STOP: TOTAL NO. of ITERATIONS REACHED LIMIT": "maxiter",
    "STOP: TOTAL NO. of f AND g EVALUATIONS EXCEEDS LIMIT": "maxfun",
    "STOP: USER CALLBACK": "callback",
    "ABNORMAL_TERMINATION_IN_LNSRCH": "abnormal",
}
TRANSIENT_MESSAGES = {"START", "RESTART_FROM_LNSRCH"}

# reference constants of Algorithm 778 (lnsrlb / dcsrch / epsmch)
REFERENCE_CONSTANTS = {
    "ftol_linesearch": 1e-3, "gtol_linesearch": 0.9, "xtol_linesearch": 0.1,
    "eps_SY": 2.2e-16, "maxls": 20,
}

# immutable attributes of imported modules
MODULE_CONSTANTS = {"inf", "pi", "nan", "e", "newaxis", "float64", "float32", "intc", "int_", "int64",
                    "bool_", "euler_gamma", "NINF", "PINF"}


# The package's known surface: module-level functions and methods of the tree the rules were written against.
# Any other function is treated as a helper extracted by a maintainer and is inlined before the rules run
# (sa/inline.py).  One name per line; regenerate only together with a review of the rules that anchor on names.
KNOWN_FUNCS = {
    "base.clip2bounds",
    "base.count_var_at_bounds",
    "base.display_iter",
    "base.display_results",
    "base.display_start",
    "base.get_bounds",
    "base.is_any_inf",
    "base.projgr",
    "benchmarks.ackley",
    "benchmarks.ackley_grad",
    "benchmarks.beale",
    "benchmarks.beale_grad",
    "benchmarks.griewank",
    "benchmarks.griewank_grad",
    "benchmarks.quartic",
    "benchmarks.quartic_grad",
    "benchmarks.rastrigin",
    "benchmarks.rastrigin_grad",
    "benchmarks.rosenbrock",
    "benchmarks.rosenbrock_grad",
    "benchmarks.sphere",
    "benchmarks.sphere_grad",
    "benchmarks.styblinski_tang",
    "benchmarks.styblinski_tang_grad",
    "bfgsmats.LBFGSB_MATRICES.__init__",
    "bfgsmats.LBFGSB_MATRICES.use_factor",
    "bfgsmats.bmv",
    "bfgsmats.form_invMfactors",
    "bfgsmats.is_update_X_and_G",
    "bfgsmats.make_X_and_G_respect_strong_wolfe",
    "bfgsmats.update_X_and_G",
    "bfgsmats.update_lbfgs_matrices",
    "cauchy.display_start_point",
    "cauchy.get_cauchy_point",
    "linesearch.line_search",
    "linesearch.line_search.dphi",
    "linesearch.line_search.phi",
    "linesearch.max_allowed_steplength",
    "main.GradientFunction.__call__",
    "main.ObjectiveFunction.__call__",
    "main.initialize_X_and_G",
    "main.is_f0_min_change_reached",
    "main.is_f0_target_reached",
    "main.minimize_lbfgsb",
    "scalar_function.ScalarFunction.__init__",
    "scalar_function.ScalarFunction.__init__.fun_wrapped",
    "scalar_function.ScalarFunction.__init__.grad_wrapped",
    "scalar_function.ScalarFunction.__init__.update_fun",
    "scalar_function.ScalarFunction.__init__.update_grad",
    "scalar_function.ScalarFunction._update_fun",
    "scalar_function.ScalarFunction._update_grad",
    "scalar_function.ScalarFunction.fun",
    "scalar_function.ScalarFunction.fun_and_grad",
    "scalar_function.ScalarFunction.grad",
    "scalar_function.ScalarFunction.update_x",
    "scalar_function.prepare_scalar_function",
    "subspacemin.factorize_k",
    "subspacemin.form_k",
    "subspacemin.form_k_from_wm",
    "subspacemin.form_k_from_za",
    "subspacemin.get_freev",
    "subspacemin.subspace_minimization",
    "utils.extract_hess_inv_diag",
    "utils.get_gradient_projection_unit_scaling",
}
