"""sa.desugar -- behaviour-preserving normalisation of the parsed tree, applied by the loader before any rule
looks at it.  Each rewrite removes one *spelling* a maintainer may choose freely, so that the rules can be written
against one form; each has a side condition under which it is exactly semantics-preserving, and is skipped (the
tree is left as written) when the condition cannot be established syntactically.

  T1  f(**d) / f(*t) where d / t is a local bound once to a dict / tuple literal (optionally completed by
      d["k"] = v stores in the same block)        ->  f(k=v, ...) / f(a, b, ...)
  T2  a, b = e1, e2  (no later e reads an earlier target)   ->  a = e1; b = e2
  T3  for v in (<literal items>): <simple body>             ->  the body unrolled, v replaced by each item;
      setattr(o, "k", e) / getattr(o, "k") with a constant name  ->  o.k = e / o.k
  T4  c = <pure test over never-reassigned names>; ... if c: ->  the test inlined where c is used as a condition

Nodes created by a rewrite carry the position of the statement they come from."""
from __future__ import annotations

import ast
import copy
from typing import Dict, List, Optional, Set

PURE = (ast.Name, ast.Constant, ast.Attribute, ast.Tuple, ast.List, ast.BinOp, ast.UnaryOp, ast.Compare, ast.BoolOp,
        ast.IfExp, ast.Subscript, ast.Slice, ast.Load, ast.operator, ast.unaryop, ast.cmpop, ast.boolop, ast.expr_context,
        ast.Starred)


def _is_pure(e: ast.AST) -> bool:
    return all(isinstance(n, PURE) for n in ast.walk(e))


def _is_effect_free(e: ast.AST) -> bool:
    """pure, or built with NumPy value operations only (x.dot(y), np.f(..) without out=): evaluating it twice, never, or
    in another order relative to other such expressions gives the same values"""
    for n in ast.walk(e):
        if isinstance(n, PURE) or isinstance(n, ast.keyword):
            if isinstance(n, ast.keyword) and n.arg in ("out", None):
                return False
            continue
        if isinstance(n, ast.Call):
            f = n.func
            if isinstance(f, ast.Attribute) and f.attr in ("dot", "sum", "max", "min", "copy", "transpose") and not isinstance(f.value, ast.Name):
                continue
            if isinstance(f, ast.Attribute) and f.attr in ("dot", "sum", "max", "min", "copy", "transpose") and isinstance(f.value, ast.Name) \
                    and f.value.id not in ("self", "sf"):
                continue
            if isinstance(f, ast.Attribute) and isinstance(f.value, ast.Name) and f.value.id == "np" and f.attr not in ("copyto", "put", "place", "fill_diagonal"):
                continue
            return False
        return False
    return True


def _free(e: ast.AST) -> Set[str]:
    return {n.id for n in ast.walk(e) if isinstance(n, ast.Name)}


def _own_nodes(fn: ast.AST):
    """nodes of a function body, not descending into nested functions / classes / lambdas"""
    stack = list(ast.iter_child_nodes(fn))
    while stack:
        n = stack.pop()
        yield n
        if isinstance(n, (ast.FunctionDef, ast.AsyncFunctionDef, ast.ClassDef, ast.Lambda)):
            continue
        stack.extend(ast.iter_child_nodes(n))


def _stores(fn: ast.AST) -> Dict[str, List[ast.AST]]:
    """name -> nodes storing it (assignment targets, loop targets, with/except names, aug-assign, del, global)"""
    out: Dict[str, List[ast.AST]] = {}
    for n in _own_nodes(fn):
        if isinstance(n, ast.Name) and isinstance(n.ctx, (ast.Store, ast.Del)):
            out.setdefault(n.id, []).append(n)
        elif isinstance(n, ast.ExceptHandler) and n.name:
            out.setdefault(n.name, []).append(n)
        elif isinstance(n, (ast.Global, ast.Nonlocal)):
            for k in n.names:
                out.setdefault(k, []).append(n)
        elif isinstance(n, (ast.FunctionDef, ast.ClassDef)):
            out.setdefault(n.name, []).append(n)
    # names written by nested closures through nonlocal
    for n in ast.walk(fn):
        if isinstance(n, ast.Nonlocal):
            for k in n.names:
                out.setdefault(k, []).append(n)
    return out


def _attr_stores(fn: ast.AST) -> Set[str]:
    out = set()
    for n in ast.walk(fn):
        if isinstance(n, ast.Attribute) and isinstance(n.ctx, (ast.Store, ast.Del)):
            try:
                out.add(ast.unparse(n))
            except Exception:
                pass
    return out


def _loads(fn: ast.AST, name: str) -> List[ast.Name]:
    return [n for n in ast.walk(fn) if isinstance(n, ast.Name) and n.id == name and isinstance(n.ctx, ast.Load)]


def _bodies(fn: ast.AST):
    """every statement list of the function (not of nested functions)"""
    for n in [fn] + [x for x in _own_nodes(fn)]:
        for fld in ("body", "orelse", "finalbody"):
            b = getattr(n, fld, None)
            if isinstance(b, list) and b and isinstance(b[0], ast.stmt):
                yield b
        if isinstance(n, ast.Try):
            for h in n.handlers:
                yield h.body


class _Subst(ast.NodeTransformer):
    def __init__(self, m: Dict[str, ast.expr]):
        self.m = m

    def visit_Name(self, n: ast.Name):
        if isinstance(n.ctx, ast.Load) and n.id in self.m:
            return ast.copy_location(copy.deepcopy(self.m[n.id]), n)
        return n

    def visit_FunctionDef(self, n):
        return n

    def visit_Lambda(self, n):
        return n


# ---------------------------------------------------------------------------------------------- T2
def _split_parallel(fn: ast.AST, _again: bool = True) -> int:
    k = 0
    made_if = False
    for body in _bodies(fn):
        i = 0
        while i < len(body):
            s = body[i]
            if isinstance(s, ast.Assign) and len(s.targets) == 1 and isinstance(s.targets[0], (ast.Tuple, ast.List)) and isinstance(s.value, ast.IfExp) \
                    and isinstance(s.value.body, (ast.Tuple, ast.List)) and isinstance(s.value.orelse, (ast.Tuple, ast.List)) \
                    and len(s.value.body.elts) == len(s.targets[0].elts) == len(s.value.orelse.elts):
                # a, b = (p, q) if c else (r, s)   ->   if c: a, b = p, q  else: a, b = r, s
                st_ = ast.If(test=s.value.test,
                             body=[ast.Assign(targets=[copy.deepcopy(s.targets[0])], value=s.value.body)],
                             orelse=[ast.Assign(targets=[copy.deepcopy(s.targets[0])], value=s.value.orelse)])
                ast.copy_location(st_, s)
                for x_ in ast.walk(st_):
                    if isinstance(x_, ast.stmt):
                        ast.copy_location(x_, s)
                ast.fix_missing_locations(st_)
                body[i] = st_
                made_if = True
                k += 1
                i += 1
                continue
            if isinstance(s, ast.Assign) and len(s.targets) == 1 and isinstance(s.targets[0], ast.Name) and isinstance(s.value, ast.IfExp) \
                    and isinstance(s.value.body, ast.Dict) and isinstance(s.value.orelse, ast.Dict) and not s.value.orelse.keys \
                    and all(isinstance(k_, ast.Constant) for k_ in s.value.body.keys) and _is_pure(s.value.test):
                # d = {"k": v, ..} if c else {}   ->   d = {}; if c: d["k"] = v; ..     (the spelling with stores)
                nm_ = s.targets[0].id
                new = [ast.Assign(targets=[ast.Name(nm_, ast.Store())], value=ast.Dict(keys=[], values=[]))]
                new.append(ast.If(test=s.value.test, body=[
                    ast.Assign(targets=[ast.Subscript(value=ast.Name(nm_, ast.Load()), slice=k_, ctx=ast.Store())], value=v_)
                    for k_, v_ in zip(s.value.body.keys, s.value.body.values)] or [ast.Pass()], orelse=[]))
                for n_ in new:
                    ast.copy_location(n_, s)
                    for x_ in ast.walk(n_):
                        if isinstance(x_, ast.stmt):
                            ast.copy_location(x_, s)
                    ast.fix_missing_locations(n_)
                body[i:i + 1] = new
                i += len(new)
                k += 1
                continue
            if isinstance(s, ast.Assign) and len(s.targets) > 1 and isinstance(s.value, ast.Constant) \
                    and all(isinstance(t, (ast.Name, ast.Attribute)) and _is_pure(t) for t in s.targets):
                # a = b = <constant>   ->   a = <constant>; b = <constant>
                new = [ast.copy_location(ast.Assign(targets=[t], value=copy.deepcopy(s.value)), s) for t in s.targets]
                for n_ in new:
                    ast.fix_missing_locations(n_)
                body[i:i + 1] = new
                i += len(new)
                k += 1
                continue
            if isinstance(s, ast.Assign) and len(s.targets) == 1 and isinstance(s.targets[0], (ast.Tuple, ast.List)) \
                    and len(s.targets[0].elts) == 1 and isinstance(s.targets[0].elts[0], ast.Name) \
                    and isinstance(s.value, ast.Call) and isinstance(s.value.func, ast.Attribute) and s.value.func.attr == "nonzero" \
                    and not s.value.args:
                # (a,) = E.nonzero()   ->   a = E.nonzero()[0]   (a one-dimensional mask has exactly one index array)
                s.value = ast.copy_location(ast.Subscript(value=s.value, slice=ast.Constant(0), ctx=ast.Load()), s.value)
                s.targets = [s.targets[0].elts[0]]
                ast.fix_missing_locations(s)
                k += 1
                i += 1
                continue
            if isinstance(s, ast.Assign) and len(s.targets) == 1 and isinstance(s.targets[0], (ast.Tuple, ast.List)) \
                    and isinstance(s.value, (ast.Tuple, ast.List)) and len(s.targets[0].elts) == len(s.value.elts) \
                    and not any(isinstance(e, ast.Starred) for e in list(s.targets[0].elts) + list(s.value.elts)):
                tg, vs = s.targets[0].elts, s.value.elts
                ok = True
                for a in range(len(tg)):
                    written = _free(tg[a])       # names stored or objects written through
                    for b in range(a + 1, len(vs)):
                        if written & _free(vs[b]):
                            ok = False
                    # a subscript / attribute target whose index is computed from an earlier target
                    for b in range(a + 1, len(tg)):
                        if not isinstance(tg[b], ast.Name) and (written & _free(tg[b])) and isinstance(tg[a], ast.Name):
                            ok = False
                # calls on the right may observe an earlier store (through an object): only split pure right sides,
                # or calls when every target is a plain local name
                if not all(_is_pure(v) for v in vs) and not all(isinstance(t, ast.Name) for t in tg):
                    ok = False
                if ok:
                    new = [ast.copy_location(ast.Assign(targets=[t], value=v), s) for t, v in zip(tg, vs)]
                    for n_ in new:
                        ast.fix_missing_locations(n_)
                    body[i:i + 1] = new
                    i += len(new)
                    k += 1
                    continue
            i += 1
    if made_if and _again:
        k += _split_parallel(fn, False)
    return k


# ---------------------------------------------------------------------------------------------- T3
def _contains(stmts, kinds) -> bool:
    return any(isinstance(n, kinds) for s in stmts for n in ast.walk(s))


def _unroll(fn: ast.AST) -> int:
    k = 0
    for body in _bodies(fn):
        i = 0
        while i < len(body):
            s = body[i]
            if isinstance(s, ast.For) and not s.orelse and isinstance(s.iter, (ast.Tuple, ast.List)) and 1 <= len(s.iter.elts) <= 8 \
                    and not _contains(s.body, (ast.Break, ast.Continue, ast.Return, ast.For, ast.While, ast.FunctionDef, ast.Lambda,
                                               ast.Try, ast.With)):
                tnames = [s.target.id] if isinstance(s.target, ast.Name) else \
                    [e.id for e in s.target.elts] if isinstance(s.target, ast.Tuple) and all(isinstance(e, ast.Name) for e in s.target.elts) else None
                items = []
                ok = tnames is not None
                for it in s.iter.elts if ok else []:
                    parts = [it] if isinstance(s.target, ast.Name) else list(it.elts) if isinstance(it, (ast.Tuple, ast.List)) else None
                    if parts is None or len(parts) != len(tnames) or not all(_is_pure(p) and not isinstance(p, ast.Starred) for p in parts):
                        ok = False
                        break
                    items.append(dict(zip(tnames, parts)))
                # the loop variables must not be stored in the body nor read after the loop
                if ok:
                    st = {n.id for b_ in s.body for n in ast.walk(b_) if isinstance(n, ast.Name) and isinstance(n.ctx, ast.Store)}
                    later = {n.id for t in body[i + 1:] for n in ast.walk(t) if isinstance(n, ast.Name)}
                    if (st & set(tnames)) or (later & set(tnames)):
                        ok = False
                    # what the items read must not be written by the body
                    if ok and any(_free(p) & st for m in items for p in m.values()):
                        ok = False
                if ok:
                    # iteration-local names (bound by a plain assignment before any use in the body and mentioned nowhere
                    # else in the function) get one name per unrolled iteration
                    local_: List[str] = []
                    if len(items) > 1:
                        inside = {id(n) for b_ in s.body for n in ast.walk(b_)}
                        outside = {n.id for n in ast.walk(fn) if isinstance(n, ast.Name) and id(n) not in inside}
                        argn = {a.arg for a in ast.walk(fn) if isinstance(a, ast.arg)}
                        seen: Set[str] = set()
                        for b_ in s.body:
                            tg_ = b_.targets[0] if isinstance(b_, ast.Assign) and len(b_.targets) == 1 else \
                                b_.target if isinstance(b_, ast.AnnAssign) and b_.value is not None else None
                            if isinstance(tg_, ast.Name) and tg_.id not in seen and tg_.id not in outside and tg_.id not in argn \
                                    and tg_.id not in _free(b_.value):
                                local_.append(tg_.id)
                            seen |= {n.id for n in ast.walk(b_) if isinstance(n, ast.Name)}
                    new: List[ast.stmt] = []
                    for j, m in enumerate(items):
                        ren = {v: f"{v}__u{j}" for v in local_}
                        for b_ in s.body:
                            c = copy.deepcopy(b_)
                            if ren:
                                for n in ast.walk(c):
                                    if isinstance(n, ast.Name) and n.id in ren:
                                        n.id = ren[n.id]
                            c = _Subst(m).visit(c)
                            ast.copy_location(c, s)
                            new.append(c)
                    for n_ in new:
                        ast.fix_missing_locations(n_)
                    body[i:i + 1] = new
                    i += len(new)
                    k += 1
                    continue
            i += 1
    return k


def _literal_tables(fn: ast.AST) -> int:
    """T3c: a local bound once to a tuple of never-rebound names (`histories = (X, G)`) is that tuple wherever it is read;
    `zip(<literal tuple>, <literal tuple>, ..)` as a loop iterable is the tuple of the zipped items.  Both feed T3."""
    k = 0
    stores = _stores(fn)
    a = fn.args if isinstance(fn, (ast.FunctionDef, ast.AsyncFunctionDef)) else None
    params = {p_.arg for p_ in (a.posonlyargs + a.args + a.kwonlyargs)} if a else set()
    for body in _bodies(fn):
        for st in list(body):
            if not (isinstance(st, ast.Assign) and len(st.targets) == 1 and isinstance(st.targets[0], ast.Name) and isinstance(st.value, ast.Tuple)
                    and st.value.elts and all(isinstance(e, ast.Name) for e in st.value.elts)):
                continue
            nm = st.targets[0].id
            if len(stores.get(nm, [])) != 1 or nm in params:
                continue
            if any(len(stores.get(e.id, [])) > (0 if e.id in params else 1) for e in st.value.elts):
                continue
            # elements bound (at most once) before the tuple is built: only parameters and names assigned earlier in this block
            idx = body.index(st)
            earlier = {n.id for b_ in body[:idx] for n in ast.walk(b_) if isinstance(n, ast.Name) and isinstance(n.ctx, ast.Store)}
            if not all(e.id in params or e.id in earlier for e in st.value.elts):
                continue
            loads = _loads(fn, nm)
            if not loads or any(isinstance(n, (ast.FunctionDef, ast.Lambda)) and any(x is l_ for x in ast.walk(n) for l_ in loads)
                                for n in ast.walk(fn) if n is not fn):
                continue
            lit = st.value

            class R(ast.NodeTransformer):
                def visit_Name(self, n):
                    if n.id == nm and isinstance(n.ctx, ast.Load):
                        return ast.copy_location(copy.deepcopy(lit), n)
                    return n
            for i_, b_ in enumerate(body):
                if b_ is not st:
                    body[i_] = R().visit(b_)
            body.remove(st)
            k += 1
    for n in ast.walk(fn):
        if isinstance(n, ast.Call) and any(isinstance(a_, ast.Starred) and isinstance(a_.value, (ast.Tuple, ast.List)) for a_ in n.args):
            # f(a, *(b, c)) -> f(a, b, c)
            flat_: List[ast.expr] = []
            for a_ in n.args:
                if isinstance(a_, ast.Starred) and isinstance(a_.value, (ast.Tuple, ast.List)) and not any(isinstance(e_, ast.Starred) for e_ in a_.value.elts):
                    flat_ += list(a_.value.elts)
                else:
                    flat_.append(a_)
            n.args = flat_
            k += 1
    for n in ast.walk(fn):
        if isinstance(n, ast.For) and isinstance(n.iter, ast.Call) and isinstance(n.iter.func, ast.Name) and n.iter.func.id == "zip" \
                and len(n.iter.args) >= 2 and not n.iter.keywords and all(isinstance(x, (ast.Tuple, ast.List)) for x in n.iter.args) \
                and len({len(x.elts) for x in n.iter.args}) == 1 and all(_is_pure(e) and not isinstance(e, ast.Starred) for x in n.iter.args for e in x.elts):
            rows = [ast.Tuple(elts=[x.elts[j] for x in n.iter.args], ctx=ast.Load()) for j in range(len(n.iter.args[0].elts))]
            n.iter = ast.copy_location(ast.Tuple(elts=rows, ctx=ast.Load()), n.iter)
            ast.fix_missing_locations(n)
            k += 1
    return k


def _unroll_search(fn: ast.AST) -> int:
    """T3b: a first-match search over a literal table
           [T = ((a0, b0), (a1, b1), ..)]
           for a, b in T:  if <test>: <S>; break   [else: <E>]
    is the chain  if test0: S0  else: if test1: S1 else: .. E.  A table entry may be a parameterless lambda when its loop
    variable is only ever called (`a()`): the call is the lambda's body, evaluated at the same moment"""
    k = 0
    for body in _bodies(fn):
        i = 0
        while i < len(body):
            s = body[i]
            i += 1
            if not (isinstance(s, ast.For) and len(s.body) == 1 and isinstance(s.body[0], ast.If) and not s.body[0].orelse
                    and s.body[0].body and isinstance(s.body[0].body[-1], ast.Break)):
                continue
            iff = s.body[0]
            then = iff.body[:-1]
            if _contains(then, (ast.Break, ast.Continue, ast.Return, ast.For, ast.While, ast.FunctionDef, ast.Lambda, ast.Try, ast.With)) or \
                    _contains(s.orelse, (ast.Break, ast.Continue)) or _contains([ast.Expr(iff.test)], (ast.Lambda, ast.NamedExpr)):
                continue
            table, tdef = s.iter, None
            if isinstance(table, ast.Name):
                sts = _stores(fn).get(table.id, [])
                lds = _loads(fn, table.id)
                j = i - 2
                if len(sts) == 1 and len(lds) == 1 and j >= 0 and isinstance(body[j], (ast.Assign, ast.AnnAssign)) and getattr(body[j], "value", None) is not None:
                    tg = body[j].targets[0] if isinstance(body[j], ast.Assign) and len(body[j].targets) == 1 else getattr(body[j], "target", None)
                    if isinstance(tg, ast.Name) and tg.id == table.id:
                        table, tdef = body[j].value, body[j]
            if not (isinstance(table, (ast.Tuple, ast.List)) and 1 <= len(table.elts) <= 8):
                continue
            tnames = [s.target.id] if isinstance(s.target, ast.Name) else \
                [e.id for e in s.target.elts] if isinstance(s.target, ast.Tuple) and all(isinstance(e, ast.Name) for e in s.target.elts) else None
            if tnames is None:
                continue
            # how each loop variable is used
            called_only = {}
            for v in tnames:
                uses = [n for b_ in s.body + s.orelse for n in ast.walk(b_) if isinstance(n, ast.Name) and n.id == v]
                calls = [c for b_ in s.body for c in ast.walk(b_) if isinstance(c, ast.Call) and isinstance(c.func, ast.Name) and c.func.id == v
                         and not c.args and not c.keywords]
                called_only[v] = bool(uses) and len(uses) == len(calls)
            stored = {n.id for b_ in s.body for n in ast.walk(b_) if isinstance(n, ast.Name) and isinstance(n.ctx, ast.Store)}
            later = {n.id for t in body[i:] for n in ast.walk(t) if isinstance(n, ast.Name)}
            if (stored & set(tnames)) or (later & set(tnames)):
                continue
            items = []
            ok = True
            for it in table.elts:
                parts = [it] if isinstance(s.target, ast.Name) else list(it.elts) if isinstance(it, (ast.Tuple, ast.List)) else None
                if parts is None or len(parts) != len(tnames):
                    ok = False
                    break
                m = {}
                for v, p_ in zip(tnames, parts):
                    if isinstance(p_, ast.Lambda):
                        a_ = p_.args
                        if not called_only[v] or a_.args or a_.posonlyargs or a_.kwonlyargs or a_.vararg or a_.kwarg or \
                                any(isinstance(x, (ast.Lambda, ast.NamedExpr)) for x in ast.walk(p_.body)):
                            ok = False
                            break
                        m[v] = ("thunk", p_.body)
                    elif _is_pure(p_) and not isinstance(p_, ast.Starred) and not (_free(p_) & stored):
                        m[v] = ("value", p_)
                    else:
                        ok = False
                        break
                if not ok:
                    break
                items.append(m)
            if not ok:
                continue

            def inst(node, m):
                node = copy.deepcopy(node)

                class R(ast.NodeTransformer):
                    def visit_Call(self, c):
                        if isinstance(c.func, ast.Name) and c.func.id in m and m[c.func.id][0] == "thunk" and not c.args and not c.keywords:
                            return copy.deepcopy(m[c.func.id][1])
                        return self.generic_visit(c)

                    def visit_Name(self, n):
                        if isinstance(n.ctx, ast.Load) and n.id in m and m[n.id][0] == "value":
                            return copy.deepcopy(m[n.id][1])
                        return n
                return R().visit(node)
            tail = [copy.deepcopy(x) for x in s.orelse]
            for m in reversed(items):
                node = ast.If(test=inst(iff.test, m), body=[inst(x, m) for x in then] or [ast.Pass()], orelse=tail)
                ast.copy_location(node, s)
                tail = [node]
            for x in tail:
                ast.fix_missing_locations(x)
            at = body.index(s)
            body[at:at + 1] = tail
            if tdef is not None:
                body.remove(tdef)
            k += 1
            i = body.index(tail[0]) + 1 if tail else at
    return k


class _AttrCalls(ast.NodeTransformer):
    """getattr(o, "k") -> o.k ; statement setattr(o, "k", e) -> o.k = e (constant, identifier-like names only);
    statement np.copyto(dst, src, where=mask) with array-valued src -> dst[mask] = (src)[mask]"""

    def visit_Expr(self, s: ast.Expr):
        self.generic_visit(s)
        c = s.value
        if isinstance(c, ast.Call) and isinstance(c.func, ast.Attribute) and c.func.attr == "copyto" and isinstance(c.func.value, ast.Name) \
                and c.func.value.id in ("np", "numpy") and len(c.args) == 2 and len(c.keywords) == 1 and c.keywords[0].arg == "where" \
                and isinstance(c.args[0], ast.Name) and not isinstance(c.args[1], ast.Constant):
            m = c.keywords[0].value
            tgt = ast.Subscript(value=c.args[0], slice=copy.deepcopy(m), ctx=ast.Store())
            val = ast.Subscript(value=c.args[1], slice=copy.deepcopy(m), ctx=ast.Load())
            a = ast.copy_location(ast.Assign(targets=[tgt], value=val), s)
            ast.fix_missing_locations(a)
            return a
        if isinstance(c, ast.Call) and isinstance(c.func, ast.Name) and c.func.id == "setattr" and len(c.args) == 3 and not c.keywords \
                and isinstance(c.args[1], ast.Constant) and isinstance(c.args[1].value, str) and c.args[1].value.isidentifier():
            tgt = ast.Attribute(value=c.args[0], attr=c.args[1].value, ctx=ast.Store())
            a = ast.copy_location(ast.Assign(targets=[tgt], value=c.args[2]), s)
            ast.fix_missing_locations(a)
            return a
        return s

    @staticmethod
    def _unrolled(e):
        """[E(v) for v in (a, b)] -> [E(a), E(b)] (literal items, pure, no filter)"""
        if len(e.generators) != 1:
            return None
        g = e.generators[0]
        if g.ifs or g.is_async or not isinstance(g.target, ast.Name) or not isinstance(g.iter, (ast.Tuple, ast.List)) \
                or not (1 <= len(g.iter.elts) <= 8) or not all(_is_pure(x) and not isinstance(x, ast.Starred) for x in g.iter.elts):
            return None
        if any(isinstance(x, (ast.Lambda, ast.ListComp, ast.GeneratorExp, ast.NamedExpr)) for x in ast.walk(e.elt)):
            return None
        return [_Subst({g.target.id: it}).visit(copy.deepcopy(e.elt)) for it in g.iter.elts]

    def visit_ListComp(self, e: ast.ListComp):
        self.generic_visit(e)
        items = self._unrolled(e)
        if items is None:
            return e
        n = ast.copy_location(ast.List(elts=items, ctx=ast.Load()), e)
        ast.fix_missing_locations(n)
        return n

    def visit_Assign(self, s: ast.Assign):
        self.generic_visit(s)
        # a, b = (E(v) for v in (p, q)): the generator is consumed on the spot by the unpacking
        if len(s.targets) == 1 and isinstance(s.targets[0], (ast.Tuple, ast.List)) and isinstance(s.value, ast.GeneratorExp):
            items = self._unrolled(s.value)
            if items is not None and len(items) == len(s.targets[0].elts):
                s.value = ast.copy_location(ast.Tuple(elts=items, ctx=ast.Load()), s.value)
                ast.fix_missing_locations(s)
        return s

    def visit_Call(self, c: ast.Call):
        self.generic_visit(c)
        if isinstance(c.func, ast.Name) and c.func.id == "getattr" and len(c.args) == 2 and not c.keywords \
                and isinstance(c.args[1], ast.Constant) and isinstance(c.args[1].value, str) and c.args[1].value.isidentifier():
            a = ast.copy_location(ast.Attribute(value=c.args[0], attr=c.args[1].value, ctx=ast.Load()), c)
            ast.fix_missing_locations(a)
            return a
        return c


# ---------------------------------------------------------------------------------------------- T1
def _splat(fn: ast.AST) -> int:
    k = 0
    stores = _stores(fn)
    for body in _bodies(fn):
        for i, s in enumerate(list(body)):
            if not (isinstance(s, ast.Assign) and len(s.targets) == 1 and isinstance(s.targets[0], ast.Name)):
                continue
            nm = s.targets[0].id
            if len(stores.get(nm, [])) != 1:
                continue
            v = s.value
            kind = None
            if isinstance(v, ast.Dict) and all(isinstance(kk, ast.Constant) and isinstance(kk.value, str) for kk in v.keys):
                kind = "dict"
                kws = [(kk.value, vv) for kk, vv in zip(v.keys, v.values)]
            elif isinstance(v, ast.Call) and isinstance(v.func, ast.Name) and v.func.id == "dict" and not v.args and all(q.arg for q in v.keywords):
                kind = "dict"
                kws = [(q.arg, q.value) for q in v.keywords]
            elif isinstance(v, (ast.Tuple, ast.List)):
                kind = "seq"
                elts = list(v.elts)
            if kind is None:
                continue
            loads = _loads(fn, nm)
            if not loads:
                continue
            # follow-up stores d["k"] = e directly after the creation, in the same block
            j = body.index(s) + 1
            extra_stmts = []
            while kind == "dict" and j < len(body) and isinstance(body[j], ast.Assign) and len(body[j].targets) == 1 \
                    and isinstance(body[j].targets[0], ast.Subscript) and isinstance(body[j].targets[0].value, ast.Name) \
                    and body[j].targets[0].value.id == nm and isinstance(body[j].targets[0].slice, ast.Constant) \
                    and isinstance(body[j].targets[0].slice.value, str) and nm not in _free(body[j].value):
                kws = [(a, b) for a, b in kws if a != body[j].targets[0].slice.value] + [(body[j].targets[0].slice.value, body[j].value)]
                extra_stmts.append(body[j])
                j += 1
            # every use of the name must be a splat at a call (or the follow-up stores above)
            uses_ok = True
            splats = []
            for c in ast.walk(fn):
                if isinstance(c, ast.Call):
                    for q in c.keywords:
                        if q.arg is None and isinstance(q.value, ast.Name) and q.value.id == nm and kind == "dict":
                            splats.append((c, q))
                    for a in c.args:
                        if isinstance(a, ast.Starred) and isinstance(a.value, ast.Name) and a.value.id == nm and kind == "seq":
                            splats.append((c, a))
            accounted = len(splats) + len(extra_stmts)
            if not splats or accounted != len(loads):
                continue
            vals = [b for _, b in kws] if kind == "dict" else elts
            pure = all(_is_pure(x) for x in vals)
            adjacent = len(splats) == 1 and j < len(body) and any(splats[0][0] is n_ for n_ in ast.walk(body[j])) and \
                isinstance(body[j], (ast.Assign, ast.Expr, ast.Return, ast.AnnAssign)) and body[j].value is splats[0][0]
            hoist_needed = False
            if adjacent:
                pass      # created and consumed back to back: nothing can change in between
            elif not pure or any(isinstance(n_, ast.Attribute) and ast.unparse(n_) in _attr_stores(fn) for x in vals for n_ in ast.walk(x)) or \
                    any(st_.lineno > s.lineno for n_ in (set().union(*[_free(x) for x in vals]) if vals else set())
                        for st_ in stores.get(n_, []) if hasattr(st_, "lineno")):
                # the values are evaluated once, where the dict / tuple is built: keep that by binding each value that
                # is not a plain never-reassigned name to a temporary there, then pass the temporaries
                hoist_needed = True
            elif pure:
                # the values may be re-evaluated at each call: what they read must never change after the creation
                fr = set().union(*[_free(x) for x in vals]) if vals else set()
                astores = _attr_stores(fn)
                changed = any(st_.lineno > s.lineno for n_ in fr for st_ in stores.get(n_, []) if hasattr(st_, "lineno")) or \
                    any(isinstance(n_, ast.Attribute) and ast.unparse(n_) in astores for x in vals for n_ in ast.walk(x))
                if changed:
                    continue
            else:
                # values with calls: only when the single splat is the very next statement of the same block
                if len(splats) != 1 or j >= len(body) or not any(splats[0][0] is n_ for n_ in ast.walk(body[j])):
                    continue
                # nothing else in that statement may be evaluated before the call's arguments
                host = body[j]
                call_ = splats[0][0]
                first = host.value if isinstance(host, (ast.Assign, ast.Expr, ast.Return, ast.AnnAssign)) else None
                if first is not call_:
                    continue
            if hoist_needed:
                taken_ = {n_.id for n_ in ast.walk(fn) if isinstance(n_, ast.Name)}
                pre_ = []
                def _tmp(label, val):
                    if isinstance(val, ast.Constant) or (isinstance(val, ast.Name) and len(stores.get(val.id, [])) <= 1
                                                         and not any(getattr(st_, "lineno", 0) > s.lineno for st_ in stores.get(val.id, []))):
                        return val
                    nm_ = f"{nm}__{label}"
                    while nm_ in taken_:
                        nm_ += "_"
                    taken_.add(nm_)
                    _HOISTED.setdefault(id(fn), set()).add(nm_)
                    a_ = ast.copy_location(ast.Assign(targets=[ast.Name(id=nm_, ctx=ast.Store())], value=val), s)
                    ast.fix_missing_locations(a_)
                    pre_.append(a_)
                    return ast.Name(id=nm_, ctx=ast.Load())
                if kind == "dict":
                    kws = [(a, _tmp(a, b)) for a, b in kws]
                else:
                    elts = [_tmp(str(i_), e_) if not isinstance(e_, ast.Starred) else e_ for i_, e_ in enumerate(elts)]
                pos_ = body.index(s)
                body[pos_:pos_] = pre_
            for c, where in splats:
                if kind == "dict":
                    idx = c.keywords.index(where)
                    c.keywords[idx:idx + 1] = [ast.copy_location(ast.keyword(arg=a, value=copy.deepcopy(b)), c) for a, b in kws]
                else:
                    idx = c.args.index(where)
                    c.args[idx:idx + 1] = [copy.deepcopy(e) for e in elts]
                ast.fix_missing_locations(c)
            for t in [s] + extra_stmts:
                body.remove(t)
            if not body:
                body.append(ast.copy_location(ast.Pass(), s))
            k += 1
    return k


# ---------------------------------------------------------------------------------------------- T4
def _inline_tests(fn: ast.AST) -> int:
    k = 0
    stores = _stores(fn)
    astores = _attr_stores(fn)
    params = set()
    if isinstance(fn, (ast.FunctionDef, ast.AsyncFunctionDef)):
        a = fn.args
        params = {p.arg for p in a.posonlyargs + a.args + a.kwonlyargs}
    cands: Dict[str, ast.expr] = {}
    for n in _own_nodes(fn):
        if isinstance(n, (ast.Assign, ast.AnnAssign)) and n.value is not None:
            t = n.targets[0] if isinstance(n, ast.Assign) and len(n.targets) == 1 else getattr(n, "target", None)
            is_test = isinstance(n.value, (ast.Compare, ast.BoolOp)) or \
                (isinstance(n.value, ast.UnaryOp) and isinstance(n.value.op, ast.Not))
            if isinstance(t, ast.Name) and len(stores.get(t.id, [])) == 1 and t.id not in params and is_test:
                v = n.value
                if not _is_pure(v):
                    continue
                fr = _free(v)
                if any(stores.get(x) for x in fr):
                    continue        # reads something that is (re)assigned in this function
                if any(isinstance(x, ast.Attribute) and ast.unparse(x) in astores for x in ast.walk(v)):
                    continue
                if any(isinstance(x, ast.Subscript) for x in ast.walk(v)):
                    continue
                cands[t.id] = v
    if not cands:
        return 0

    def in_test(test: ast.expr) -> ast.expr:
        nonlocal k
        if isinstance(test, ast.Name) and test.id in cands:
            k += 1
            return ast.copy_location(copy.deepcopy(cands[test.id]), test)
        if isinstance(test, ast.UnaryOp) and isinstance(test.op, ast.Not):
            test.operand = in_test(test.operand)
        elif isinstance(test, ast.BoolOp):
            test.values = [in_test(x) for x in test.values]
        return test
    for n in _own_nodes(fn):
        if isinstance(n, (ast.If, ast.While, ast.IfExp, ast.Assert)):
            n.test = in_test(n.test)
            ast.fix_missing_locations(n)
    return k


# ---------------------------------------------------------------------------------------------- T10 / T11
def _count_loops(fn: ast.AST) -> int:
    """i = a ; while i < b: <body without continue, i only incremented by the last statement> ; i += 1
       ->  for i in range(a, b): <body>           (b pure and not written in the body, i dead after the loop)"""
    k = 0
    for body in _bodies(fn):
        j = 0
        while j < len(body):
            s = body[j]
            if not (isinstance(s, ast.While) and not s.orelse and isinstance(s.test, ast.Compare) and len(s.test.ops) == 1 and s.body):
                j += 1
                continue
            t = s.test
            if isinstance(t.ops[0], ast.Lt) and isinstance(t.left, ast.Name):
                iv, bound = t.left.id, t.comparators[0]
            elif isinstance(t.ops[0], ast.Gt) and isinstance(t.comparators[0], ast.Name):
                iv, bound = t.comparators[0].id, t.left
            else:
                j += 1
                continue
            last = s.body[-1]
            inc_ok = isinstance(last, ast.AugAssign) and isinstance(last.op, ast.Add) and isinstance(last.target, ast.Name) \
                and last.target.id == iv and isinstance(last.value, ast.Constant) and last.value.value == 1
            if not inc_ok and isinstance(last, ast.Assign) and len(last.targets) == 1 and isinstance(last.targets[0], ast.Name) \
                    and last.targets[0].id == iv and isinstance(last.value, ast.BinOp) and isinstance(last.value.op, ast.Add) \
                    and {ast.dump(last.value.left), ast.dump(last.value.right)} == {ast.dump(ast.Name(id=iv, ctx=ast.Load())), ast.dump(ast.Constant(value=1))}:
                inc_ok = True
            # the initialisation: the closest preceding statement of the block assigning the counter
            init = None
            for q in range(j - 1, -1, -1):
                b_ = body[q]
                if isinstance(b_, ast.Assign) and len(b_.targets) == 1 and isinstance(b_.targets[0], ast.Name) and b_.targets[0].id == iv:
                    init = (q, b_)
                    break
                if any(isinstance(n, ast.Name) and n.id == iv for n in ast.walk(b_)):
                    break
            inner = s.body[:-1]
            stored_inner = {n.id for b_ in inner for n in ast.walk(b_) if isinstance(n, ast.Name) and isinstance(n.ctx, (ast.Store, ast.Del))}
            bound_ok = _is_pure(bound) or (isinstance(bound, ast.Call) and isinstance(bound.func, ast.Name) and bound.func.id == "len"
                                           and len(bound.args) == 1 and isinstance(bound.args[0], ast.Name) and not bound.keywords)
            ok = inc_ok and init is not None and bound_ok and _is_pure(init[1].value) \
                and iv not in stored_inner and not (_free(bound) & (stored_inner | {iv})) \
                and not any(isinstance(n, ast.Continue) for b_ in inner for n in ast.walk(b_)
                            if not isinstance(b_, (ast.For, ast.While))) \
                and not any(isinstance(n, (ast.FunctionDef, ast.Lambda)) for b_ in inner for n in ast.walk(b_)) \
                and not any(isinstance(n, ast.Name) and n.id == iv for b_ in body[j + 1:] for n in ast.walk(b_)) \
                and not any(isinstance(n, ast.Call) and isinstance(n.func, ast.Name) and n.func.id == "len" and n.args
                            and isinstance(n.args[0], ast.Name) and _mutated_in(inner, n.args[0].id) for n in ast.walk(bound)) \
                and not any(isinstance(n, ast.Attribute) for n in ast.walk(bound) if False)
            # nested loops may contain their own `continue`; one that belongs to THIS loop is only at nesting depth 0
            if ok and _own_continue(inner):
                ok = False
            if ok:
                args = [copy.deepcopy(bound)] if isinstance(init[1].value, ast.Constant) and init[1].value.value == 0 else \
                    [copy.deepcopy(init[1].value), copy.deepcopy(bound)]
                f_ = ast.For(target=ast.Name(id=iv, ctx=ast.Store()), iter=ast.Call(func=ast.Name(id="range", ctx=ast.Load()), args=args, keywords=[]),
                             body=inner or [ast.Pass()], orelse=[])
                ast.copy_location(f_, s)
                ast.fix_missing_locations(f_)
                body[j] = f_
                del body[init[0]]
                k += 1
                continue
            j += 1
    return k


def _own_continue(stmts) -> bool:
    for s in stmts:
        if isinstance(s, ast.Continue):
            return True
        if isinstance(s, (ast.For, ast.While, ast.FunctionDef)):
            continue
        for fld in ("body", "orelse", "finalbody"):
            if _own_continue(getattr(s, fld, []) or []):
                return True
        if isinstance(s, ast.Try):
            for h in s.handlers:
                if _own_continue(h.body):
                    return True
    return False


def _mutated_in(stmts, name: str) -> bool:
    for b_ in stmts:
        for n in ast.walk(b_):
            if isinstance(n, ast.Call) and isinstance(n.func, ast.Attribute) and isinstance(n.func.value, ast.Name) and n.func.value.id == name \
                    and n.func.attr in ("append", "appendleft", "pop", "popleft", "extend", "insert", "remove", "clear"):
                return True
            if isinstance(n, ast.Name) and n.id == name and isinstance(n.ctx, (ast.Store, ast.Del)):
                return True
    return False


def _index_loops(fn: ast.AST) -> int:
    """(a) for k in range(len(S)): .. S[k] ..   (k used only as S[k], S a name not written in the body)
             ->  for S_item in S: .. S_item ..
       (b) for v in S: .. v[0] .. v[1] ..   with S bound once to tuple(zip(A, B)) / list(zip(..)) / zip(..), v used only as v[<const>]
             ->  for (v_0, v_1) in S: .. v_0 .. v_1 ..
       (c) for t in S: a = t  /  a, b = t   as first statement  ->  for a in S / for a, b in S"""
    k = 0
    stores = _stores(fn)
    for body in _bodies(fn):
        for s in body:
            if not (isinstance(s, ast.For) and not s.orelse and isinstance(s.target, ast.Name)):
                continue
            # ---- (a)
            it = s.iter
            if isinstance(it, ast.Call) and isinstance(it.func, ast.Name) and it.func.id == "range" and len(it.args) == 1 and not it.keywords \
                    and isinstance(it.args[0], ast.Call) and isinstance(it.args[0].func, ast.Name) and it.args[0].func.id == "len" \
                    and len(it.args[0].args) == 1 and isinstance(it.args[0].args[0], ast.Name):
                seq, iv = it.args[0].args[0].id, s.target.id
                loads = [n for b_ in s.body for n in ast.walk(b_) if isinstance(n, ast.Name) and n.id == iv]
                subs = [n for b_ in s.body for n in ast.walk(b_) if isinstance(n, ast.Subscript) and isinstance(n.value, ast.Name)
                        and n.value.id == seq and isinstance(n.slice, ast.Name) and n.slice.id == iv and isinstance(n.ctx, ast.Load)]
                taken = {n.id for n in ast.walk(fn) if isinstance(n, ast.Name)}
                if loads and len(loads) == len(subs) and not _mutated_in(s.body, seq) and all(isinstance(n.ctx, ast.Load) for n in loads) \
                        and not any(isinstance(n, (ast.FunctionDef, ast.Lambda)) for b_ in s.body for n in ast.walk(b_)):
                    item = f"{seq}_item"
                    while item in taken:
                        item += "_"

                    class R(ast.NodeTransformer):
                        def visit_Subscript(self, n):
                            if n in subs:
                                return ast.copy_location(ast.Name(id=item, ctx=ast.Load()), n)
                            return self.generic_visit(n)
                    s.body = [R().visit(b_) for b_ in s.body]
                    s.target = ast.copy_location(ast.Name(id=item, ctx=ast.Store()), s.target)
                    s.iter = ast.copy_location(ast.Name(id=seq, ctx=ast.Load()), s.iter)
                    ast.fix_missing_locations(s)
                    k += 1
            # ---- (c)
            first = s.body[0] if s.body else None
            if isinstance(s.target, ast.Name) and isinstance(first, ast.Assign) and len(first.targets) == 1 and isinstance(first.value, ast.Name) \
                    and first.value.id == s.target.id and len(s.body) > 1:
                v = s.target.id
                rest = s.body[1:]
                if not any(isinstance(n, ast.Name) and n.id == v for b_ in rest for n in ast.walk(b_)) and \
                        not any(isinstance(n, ast.Name) and n.id == v for n in ast.walk(first.targets[0])):
                    s.target = first.targets[0]
                    s.body = rest
                    ast.fix_missing_locations(s)
                    k += 1
            # ---- (b)
            if isinstance(s.target, ast.Name):
                v = s.target.id
                src_ = s.iter
                if isinstance(src_, ast.Name) and len(stores.get(src_.id, [])) == 1:
                    defs = [x for x in _own_nodes(fn) if isinstance(x, (ast.Assign, ast.AnnAssign)) and getattr(x, "value", None) is not None
                            and isinstance((x.targets[0] if isinstance(x, ast.Assign) else x.target), ast.Name)
                            and (x.targets[0] if isinstance(x, ast.Assign) else x.target).id == src_.id]
                    src_ = defs[0].value if len(defs) == 1 else None
                while isinstance(src_, ast.Call) and isinstance(src_.func, ast.Name) and src_.func.id in ("tuple", "list", "iter") and len(src_.args) == 1:
                    src_ = src_.args[0]
                if isinstance(src_, ast.Call) and isinstance(src_.func, ast.Name) and src_.func.id == "zip" and not src_.keywords and 2 <= len(src_.args) <= 4:
                    arity = len(src_.args)
                    loads = [n for b_ in s.body for n in ast.walk(b_) if isinstance(n, ast.Name) and n.id == v]
                    subs = [n for b_ in s.body for n in ast.walk(b_) if isinstance(n, ast.Subscript) and isinstance(n.value, ast.Name) and n.value.id == v
                            and isinstance(n.slice, ast.Constant) and isinstance(n.slice.value, int) and 0 <= n.slice.value < arity
                            and isinstance(n.ctx, ast.Load)]
                    if loads and len(loads) == len(subs) and not any(isinstance(n, (ast.FunctionDef, ast.Lambda)) for b_ in s.body for n in ast.walk(b_)) \
                            and not any(isinstance(n, ast.Name) and n.id == v for b2 in body[body.index(s) + 1:] for n in ast.walk(b2)):
                        taken = {n.id for n in ast.walk(fn) if isinstance(n, ast.Name)}
                        names = []
                        for c in range(arity):
                            nm = f"{v}_{c}"
                            while nm in taken:
                                nm += "_"
                            names.append(nm)

                        class R2(ast.NodeTransformer):
                            def visit_Subscript(self, n):
                                if n in subs:
                                    return ast.copy_location(ast.Name(id=names[n.slice.value], ctx=ast.Load()), n)
                                return self.generic_visit(n)
                        s.body = [R2().visit(b_) for b_ in s.body]
                        s.target = ast.copy_location(ast.Tuple(elts=[ast.Name(id=nm, ctx=ast.Store()) for nm in names], ctx=ast.Store()), s.target)
                        ast.fix_missing_locations(s)
                        k += 1
    return k


# ---------------------------------------------------------------------------------------------- T9
class _Numpy(ast.NodeTransformer):
    """one spelling for a few numpy idioms that have exact equivalents on arrays:
    E.max() / E.min() -> np.max(E) / np.min(E);  E.clip(lo, hi), np.clip(E, a_min=lo, a_max=hi) -> np.clip(E, lo, hi);
    np.array(E, copy=True) -> np.copy(E);  np.matmul(a, b) -> a @ b"""

    def __init__(self):
        self.k = 0

    def visit_Attribute(self, a: ast.Attribute):
        self.generic_visit(a)
        if isinstance(a.value, ast.Name) and a.value.id == "math" and a.attr in ("inf", "pi", "e", "nan") and isinstance(a.ctx, ast.Load):
            self.k += 1
            return ast.copy_location(ast.Attribute(value=ast.Name(id="np", ctx=ast.Load()), attr=a.attr, ctx=ast.Load()), a)
        return a

    def visit_Call(self, c: ast.Call):
        self.generic_visit(c)
        f = c.func
        r = None
        if isinstance(f, ast.Name) and f.id == "float" and len(c.args) == 1 and isinstance(c.args[0], ast.Constant) and \
                str(c.args[0].value).lower() in ("inf", "+inf", "infinity"):
            self.k += 1
            return ast.copy_location(ast.Attribute(value=ast.Name(id="np", ctx=ast.Load()), attr="inf", ctx=ast.Load()), c)
        if isinstance(f, ast.Attribute) and f.attr in ("max", "min") and not c.args and not c.keywords \
                and not (isinstance(f.value, ast.Name) and f.value.id in ("np", "numpy", "math")):
            r = ast.Call(func=ast.Attribute(value=ast.Name(id="np", ctx=ast.Load()), attr=f.attr, ctx=ast.Load()), args=[f.value], keywords=[])
        elif isinstance(f, ast.Attribute) and f.attr == "clip" and not (isinstance(f.value, ast.Name) and f.value.id in ("np", "numpy")) \
                and len(c.args) == 2 and not c.keywords:
            r = ast.Call(func=ast.Attribute(value=ast.Name(id="np", ctx=ast.Load()), attr="clip", ctx=ast.Load()),
                         args=[f.value] + list(c.args), keywords=[])
        elif isinstance(f, ast.Attribute) and f.attr == "clip" and isinstance(f.value, ast.Name) and f.value.id in ("np", "numpy") \
                and len(c.args) == 1 and {k.arg for k in c.keywords} in ({"a_min", "a_max"}, {"min", "max"}):
            kws = {k.arg.replace("a_", ""): k.value for k in c.keywords}
            r = ast.Call(func=f, args=[c.args[0], kws["min"], kws["max"]], keywords=[])
        elif isinstance(f, ast.Attribute) and f.attr == "array" and isinstance(f.value, ast.Name) and f.value.id in ("np", "numpy") \
                and len(c.args) == 1 and len(c.keywords) == 1 and c.keywords[0].arg == "copy" \
                and isinstance(c.keywords[0].value, ast.Constant) and c.keywords[0].value.value is True:
            r = ast.Call(func=ast.Attribute(value=f.value, attr="copy", ctx=ast.Load()), args=[c.args[0]], keywords=[])
        elif isinstance(f, ast.Attribute) and f.attr == "nonzero" and isinstance(f.value, ast.Name) and f.value.id in ("np", "numpy") \
                and len(c.args) == 1 and not c.keywords:
            r = ast.Call(func=ast.Attribute(value=c.args[0], attr="nonzero", ctx=ast.Load()), args=[], keywords=[])
        elif isinstance(f, ast.Attribute) and f.attr == "isin" and isinstance(f.value, ast.Name) and f.value.id in ("np", "numpy") \
                and len(c.args) == 2 and len(c.keywords) == 1 and c.keywords[0].arg == "invert" \
                and isinstance(c.keywords[0].value, ast.Constant) and c.keywords[0].value.value is True:
            r = ast.UnaryOp(op=ast.Invert(), operand=ast.Call(func=f, args=list(c.args), keywords=[]))
        elif isinstance(f, ast.Attribute) and f.attr == "matmul" and isinstance(f.value, ast.Name) and f.value.id in ("np", "numpy") \
                and len(c.args) == 2 and not c.keywords:
            r = ast.BinOp(left=c.args[0], op=ast.MatMult(), right=c.args[1])
        if r is not None:
            self.k += 1
            return ast.fix_missing_locations(ast.copy_location(r, c))
        return c


# ---------------------------------------------------------------------------------------------- T14
def _terminal(stmts) -> bool:
    return bool(stmts) and isinstance(stmts[-1], (ast.Break, ast.Return, ast.Continue, ast.Raise))


def _nest_guards(fn: ast.AST) -> int:
    """if A and B: S; <break|return|continue|raise>          if A:
       if A: R                                        ->         if B: S; <break|...>
       else: N                                                   R
                                                             else: N
    (A pure: evaluating it once instead of twice changes nothing; when the second `if` is reached either A or B was false)"""
    k = 0
    for body in _bodies(fn):
        i = 0
        while i + 1 < len(body):
            s1, s2 = body[i], body[i + 1]
            if isinstance(s1, ast.If) and not s1.orelse and _terminal(s1.body) and isinstance(s1.test, ast.BoolOp) \
                    and isinstance(s1.test.op, ast.And) and len(s1.test.values) >= 2 and isinstance(s2, ast.If):
                A = s1.test.values[0]
                if _is_pure(A) and ast.dump(A) == ast.dump(s2.test):
                    rest = s1.test.values[1:]
                    B = rest[0] if len(rest) == 1 else ast.BoolOp(op=ast.And(), values=rest)
                    inner = ast.copy_location(ast.If(test=B, body=s1.body, orelse=[]), s1)
                    outer = ast.copy_location(ast.If(test=s2.test, body=[inner] + s2.body, orelse=s2.orelse), s1)
                    ast.fix_missing_locations(outer)
                    body[i:i + 2] = [outer]
                    k += 1
                    continue
            i += 1
    return k


# ---------------------------------------------------------------------------------------------- T12
READONLY_PARAMS = {"mats"}    # objects the solver kernels only read (rule MATSOWN: their fields are assigned in bfgsmats.py only)


def _attr_aliases(fn: ast.AST, modname: str) -> int:
    """t = mats.attr (bound once, mats a parameter the function never writes through)  ->  mats.attr at the uses of t"""
    if modname == "bfgsmats" or not isinstance(fn, (ast.FunctionDef, ast.AsyncFunctionDef)):
        return 0
    a = fn.args
    params = {p.arg for p in a.posonlyargs + a.args + a.kwonlyargs}
    roots = params & READONLY_PARAMS
    if not roots:
        return 0
    stores = _stores(fn)
    if any(stores.get(r) for r in roots):
        return 0
    for n in ast.walk(fn):
        if isinstance(n, (ast.Attribute, ast.Subscript)) and isinstance(n.ctx, (ast.Store, ast.Del)):
            b = n
            while isinstance(b, (ast.Attribute, ast.Subscript)):
                b = b.value
            if isinstance(b, ast.Name) and b.id in roots:
                return 0
    k = 0
    m: Dict[str, ast.expr] = {}
    drop = []
    for s in fn.body:
        if isinstance(s, (ast.Assign, ast.AnnAssign)) and getattr(s, "value", None) is not None:
            t = s.targets[0] if isinstance(s, ast.Assign) and len(s.targets) == 1 else getattr(s, "target", None)
            v = s.value
            b = v
            while isinstance(b, ast.Attribute):
                b = b.value
            if isinstance(t, ast.Name) and isinstance(v, ast.Attribute) and isinstance(b, ast.Name) and b.id in roots \
                    and len(stores.get(t.id, [])) == 1 and t.id not in params:
                m[t.id] = v
                drop.append(s)
    if not m:
        return 0
    for s in drop:
        fn.body.remove(s)
    _Subst2(m).visit(fn)
    ast.fix_missing_locations(fn)
    return len(m)


class _Subst2(ast.NodeTransformer):
    """like _Subst but also inside nested functions / lambdas (closures read the same object)"""

    def __init__(self, m):
        self.m = m

    def visit_Name(self, n):
        if isinstance(n.ctx, ast.Load) and n.id in self.m:
            return ast.copy_location(copy.deepcopy(self.m[n.id]), n)
        return n


# ---------------------------------------------------------------------------------------------- T15
def _is_platform_constant(e: ast.expr) -> bool:
    """np.finfo(float).eps and its spellings: a value fixed by the floating-point format, as good as a literal"""
    try:
        t = ast.unparse(e).replace(" ", "")
    except Exception:
        return False
    return t in ("np.finfo(float).eps", "np.finfo(np.float64).eps", "np.finfo(np.double).eps", "numpy.finfo(float).eps",
                 "sys.float_info.epsilon", "np.finfo(float).tiny", "np.finfo(float).max", "sys.float_info.max", "sys.float_info.min")


def _module_constants(tree: ast.Module) -> int:
    """NAME = <literal str / number> at module level (bound once, never declared global, not shadowed)  ->  the literal
    at its uses inside the module's functions"""
    consts: Dict[str, ast.expr] = {}
    counts: Dict[str, int] = {}
    for s in tree.body:
        tg = s.targets if isinstance(s, ast.Assign) else [s.target] if isinstance(s, (ast.AnnAssign, ast.AugAssign)) else []
        for t in tg:
            for n in ast.walk(t):
                if isinstance(n, ast.Name):
                    counts[n.id] = counts.get(n.id, 0) + 1
        if isinstance(s, (ast.Assign, ast.AnnAssign)) and getattr(s, "value", None) is not None and len(tg) == 1 and isinstance(tg[0], ast.Name) \
                and ((isinstance(s.value, ast.Constant) and isinstance(s.value.value, (str, int, float)) and not isinstance(s.value.value, bool))
                     or _is_platform_constant(s.value)) \
                and not tg[0].id.startswith("__"):
            consts[tg[0].id] = s.value
    for n in ast.walk(tree):
        if isinstance(n, (ast.Global, ast.Nonlocal)):
            for k in n.names:
                consts.pop(k, None)
    consts = {k: v for k, v in consts.items() if counts.get(k) == 1}
    if not consts:
        return 0
    k = 0
    for fn in [n for n in ast.walk(tree) if isinstance(n, (ast.FunctionDef, ast.AsyncFunctionDef))]:
        local = set(_stores(fn)) | {a.arg for a in fn.args.posonlyargs + fn.args.args + fn.args.kwonlyargs}
        m = {k_: v for k_, v in consts.items() if k_ not in local}
        for n in list(_own_nodes(fn)):
            pass
        # default values are evaluated in the module scope
        for lst in (fn.args.defaults, fn.args.kw_defaults):
            for i_, d_ in enumerate(lst):
                if isinstance(d_, ast.Name) and d_.id in consts:
                    lst[i_] = ast.copy_location(copy.deepcopy(consts[d_.id]), d_)
                    k += 1
        before = sum(1 for n in _own_nodes(fn) if isinstance(n, ast.Name) and n.id in m and isinstance(n.ctx, ast.Load))
        if before:
            # do not descend into nested functions that shadow the name: _Subst skips nested defs, they are visited on their own
            for fld in ("body",):
                fn.body = [_Subst(m).visit(b_) for b_ in fn.body]
            ast.fix_missing_locations(fn)
            k += before
    return k


# ---------------------------------------------------------------------------------------------- T20
def _dict_attributes(tree: ast.Module) -> int:
    """self.A = {"k1": v1, "k2": v2}  (only assignment of A in the class; A only ever read as self.A["<const>"])
         ->  self.A__k1 = v1; self.A__k2 = v2   and   self.A["k1"]  ->  self.A__k1"""
    k = 0
    for cls in [n for n in tree.body if isinstance(n, ast.ClassDef)]:
        stores, loads = {}, {}
        parents = {id(c): p for p in ast.walk(cls) for c in ast.iter_child_nodes(p)}
        for n in ast.walk(cls):
            if isinstance(n, ast.Attribute) and isinstance(n.value, ast.Name) and n.value.id == "self":
                (stores if isinstance(n.ctx, (ast.Store, ast.Del)) else loads).setdefault(n.attr, []).append(n)
        for attr, sts in stores.items():
            if len(sts) != 1:
                continue
            asg = parents.get(id(sts[0]))
            if not (isinstance(asg, ast.Assign) and len(asg.targets) == 1 and isinstance(asg.value, ast.Dict) and asg.value.keys
                    and all(isinstance(kk, ast.Constant) and isinstance(kk.value, str) and kk.value.isidentifier() for kk in asg.value.keys)):
                continue
            keys = [kk.value for kk in asg.value.keys]
            uses = loads.get(attr, [])
            ok = bool(uses)
            for u in uses:
                par = parents.get(id(u))
                if not (isinstance(par, ast.Subscript) and par.value is u and isinstance(par.slice, ast.Constant) and par.slice.value in keys
                        and isinstance(par.ctx, ast.Load)):
                    ok = False
            if not ok or any(f"{attr}__{kk}" in stores or f"{attr}__{kk}" in loads for kk in keys):
                continue
            # rewrite the uses
            class R(ast.NodeTransformer):
                def visit_Subscript(self, n):
                    self.generic_visit(n)
                    if isinstance(n.value, ast.Attribute) and isinstance(n.value.value, ast.Name) and n.value.value.id == "self" \
                            and n.value.attr == attr and isinstance(n.slice, ast.Constant):
                        return ast.copy_location(ast.Attribute(value=n.value.value, attr=f"{attr}__{n.slice.value}", ctx=ast.Load()), n)
                    return n
            R().visit(cls)
            # rewrite the assignment
            for body in [b for f_ in ast.walk(cls) if isinstance(f_, ast.FunctionDef) for b in _bodies(f_)]:
                if asg in body:
                    i = body.index(asg)
                    new = [ast.copy_location(ast.Assign(targets=[ast.Attribute(value=ast.Name(id="self", ctx=ast.Load()), attr=f"{attr}__{kk.value}", ctx=ast.Store())],
                                                        value=vv), asg) for kk, vv in zip(asg.value.keys, asg.value.values)]
                    for n_ in new:
                        ast.fix_missing_locations(n_)
                    body[i:i + 1] = new
                    k += 1
                    break
            ast.fix_missing_locations(cls)
    return k


# ---------------------------------------------------------------------------------------------- T19
def _namedtuples(tree: ast.Module) -> Dict[str, dict]:
    """module-level `class X(NamedTuple)`: field order, @property bodies and one-expression methods"""
    out = {}
    for c in tree.body:
        frozen_dc = isinstance(c, ast.ClassDef) and not c.bases and any(
            isinstance(d, ast.Call) and (isinstance(d.func, ast.Name) and d.func.id == "dataclass" or isinstance(d.func, ast.Attribute) and d.func.attr == "dataclass")
            and any(k.arg == "frozen" and isinstance(k.value, ast.Constant) and k.value.value is True for k in d.keywords)
            and not any(k.arg in ("init", "kw_only") for k in d.keywords) for d in c.decorator_list) and len(c.decorator_list) == 1 \
            and not any(isinstance(m_, ast.FunctionDef) and m_.name.startswith("__") for m_ in c.body)
        if isinstance(c, ast.ClassDef) and (frozen_dc or any((isinstance(b, ast.Name) and b.id == "NamedTuple") or
                                                            (isinstance(b, ast.Attribute) and b.attr == "NamedTuple") for b in c.bases)):
            fields, props, meths, lifted, ok = [], {}, {}, {}, True
            for st in c.body:
                if isinstance(st, ast.AnnAssign) and isinstance(st.target, ast.Name):
                    fields.append((st.target.id, st.value))
                elif isinstance(st, ast.Expr) and isinstance(st.value, ast.Constant):
                    continue
                elif isinstance(st, ast.FunctionDef):
                    body = [b for b in st.body if not (isinstance(b, ast.Expr) and isinstance(b.value, ast.Constant))]
                    is_prop = any(isinstance(d, ast.Name) and d.id == "property" for d in st.decorator_list)
                    if len(body) == 1 and isinstance(body[0], ast.Return) and body[0].value is not None and st.args.args and st.args.args[0].arg == "self" \
                            and (is_prop or not st.decorator_list) and not st.args.vararg and not st.args.kwarg:
                        (props if is_prop else meths)[st.name] = (st, body[0].value)
                    elif not st.decorator_list and st.args.args and st.args.args[0].arg == "self" and not st.args.vararg and not st.args.kwarg:
                        lifted[st.name] = st
                    else:
                        ok = ok and any(isinstance(d, ast.Name) and d.id in ("classmethod", "staticmethod") for d in st.decorator_list)
                else:
                    ok = False
            if fields and ok:
                out[c.name] = {"fields": fields, "props": props, "meths": meths, "lifted": lifted}
    return out


def _lift_methods(tree: ast.Module, nts: Dict[str, dict]) -> int:
    """T19b: a several-statement method m of a NamedTuple class C becomes the module-level function C__m(self, ..); calls
    v.m(..) on a local that only ever holds a C built in that function (and C(..).m(..)) become C__m(v, ..): the inliner
    then treats it like any helper"""
    k = 0
    have = {n.name for n in tree.body if isinstance(n, ast.FunctionDef)}
    for cname, info in nts.items():
        for m, mdef in info.get("lifted", {}).items():
            nm = f"{cname}__{m}"
            if nm not in have:
                d = copy.deepcopy(mdef)
                d.name = nm
                idx = next(i for i, n in enumerate(tree.body) if isinstance(n, ast.ClassDef) and n.name == cname)
                tree.body.insert(idx + 1, d)
                have.add(nm)
    for fn in [n for n in ast.walk(tree) if isinstance(n, ast.FunctionDef)]:
        stores = _stores(fn)
        typ = {}
        for n in _own_nodes(fn):
            if isinstance(n, (ast.Assign, ast.AnnAssign)) and getattr(n, "value", None) is not None:
                t = n.targets[0] if isinstance(n, ast.Assign) and len(n.targets) == 1 else getattr(n, "target", None)
                v = n.value
                if isinstance(t, ast.Name) and isinstance(v, ast.Call) and isinstance(v.func, ast.Name) and v.func.id in nts:
                    typ.setdefault(t.id, []).append(v.func.id)
        typ = {v: cs[0] for v, cs in typ.items() if len(set(cs)) == 1 and len(cs) == len(stores.get(v, []))}
        for c in ast.walk(fn):
            if isinstance(c, ast.Call) and isinstance(c.func, ast.Attribute):
                o = c.func.value
                cn = typ.get(o.id) if isinstance(o, ast.Name) else \
                    o.func.id if isinstance(o, ast.Call) and isinstance(o.func, ast.Name) and o.func.id in nts else None
                if cn and c.func.attr in nts[cn].get("lifted", {}):
                    c.args = [o] + list(c.args)
                    c.func = ast.copy_location(ast.Name(f"{cn}__{c.func.attr}", ast.Load()), c.func)
                    k += 1
    if k:
        ast.fix_missing_locations(tree)
    return k


def _sroa(fn: ast.AST, nts: Dict[str, dict]) -> int:
    """locals that only ever hold a NamedTuple X built in this function (X(..), v._replace(..), copies of such locals) are
    replaced by one local per field; v.field / v.prop / v.meth(..) / *v / `a, b = v` are rewritten accordingly"""
    if not nts:
        return 0
    stores = _stores(fn)
    assigns: Dict[str, List[ast.stmt]] = {}
    for n in _own_nodes(fn):
        if isinstance(n, (ast.Assign, ast.AnnAssign)) and getattr(n, "value", None) is not None:
            t = n.targets[0] if isinstance(n, ast.Assign) and len(n.targets) == 1 else getattr(n, "target", None)
            if isinstance(t, ast.Name):
                assigns.setdefault(t.id, []).append(n)
    a = fn.args if isinstance(fn, (ast.FunctionDef, ast.AsyncFunctionDef)) else None
    params = {p.arg for p in (a.posonlyargs + a.args + a.kwonlyargs)} if a else set()

    def ctor_of(v) -> Optional[str]:
        if isinstance(v, ast.Call) and isinstance(v.func, ast.Name) and v.func.id in nts and not any(isinstance(x, ast.Starred) for x in v.args) \
                and all(k.arg for k in v.keywords):
            return v.func.id
        return None
    # candidate variables and their type, to a fixpoint over copies / _replace
    typ: Dict[str, str] = {}
    changed = True
    while changed:
        changed = False
        for nm, sts in assigns.items():
            if nm in typ or nm in params or len(sts) != len(stores.get(nm, [])):
                continue
            kinds = set()
            for st in sts:
                v = st.value
                c = ctor_of(v)
                if c:
                    kinds.add(c)
                elif isinstance(v, ast.Name) and v.id in typ:
                    kinds.add(typ[v.id])
                elif isinstance(v, ast.Call) and isinstance(v.func, ast.Attribute) and v.func.attr == "_replace" and isinstance(v.func.value, ast.Name) \
                        and (v.func.value.id in typ or v.func.value.id == nm) and not v.args and all(k.arg for k in v.keywords):
                    kinds.add(typ.get(v.func.value.id, "?self"))
                else:
                    kinds.add("?")
            kinds.discard("?self")
            if len(kinds) == 1 and "?" not in kinds:
                typ[nm] = next(iter(kinds))
                changed = True
    if not typ:
        return 0
    # every load of a candidate must be one of the supported forms
    parent: Dict[int, ast.AST] = {}
    for p_ in ast.walk(fn):
        for ch in ast.iter_child_nodes(p_):
            parent[id(ch)] = p_
    bad: Set[str] = set()
    for n in ast.walk(fn):
        if isinstance(n, ast.Name) and n.id in typ and isinstance(n.ctx, ast.Load):
            par = parent.get(id(n))
            info = nts[typ[n.id]]
            fnames = [f for f, _ in info["fields"]]
            if isinstance(par, ast.Attribute) and par.value is n:
                if par.attr in fnames or par.attr in info["props"]:
                    continue
                gp = parent.get(id(par))
                if isinstance(gp, ast.Call) and gp.func is par and (par.attr in info["meths"] or par.attr == "_replace"):
                    continue
            if isinstance(par, ast.Starred):
                continue
            if isinstance(par, (ast.Assign, ast.AnnAssign)) and par.value is n:
                t = par.targets[0] if isinstance(par, ast.Assign) else par.target
                if isinstance(t, ast.Name) and t.id in typ:
                    continue
                if isinstance(t, (ast.Tuple, ast.List)) and len(t.elts) == len(fnames) and not any(isinstance(e, ast.Starred) for e in t.elts):
                    continue
            bad.add(n.id)
    # nested functions reading the variable: not handled
    for n in ast.walk(fn):
        if isinstance(n, (ast.FunctionDef, ast.Lambda)) and n is not fn:
            for x in ast.walk(n):
                if isinstance(x, ast.Name) and x.id in typ:
                    bad.add(x.id)
    # copies must stay within the surviving set
    changed = True
    while changed:
        changed = False
        for nm in list(typ):
            if nm in bad:
                continue
            for st in assigns[nm]:
                v = st.value
                src_nm = v.id if isinstance(v, ast.Name) else v.func.value.id if (isinstance(v, ast.Call) and isinstance(v.func, ast.Attribute)
                                                                                 and isinstance(v.func.value, ast.Name)) else None
                if src_nm is not None and src_nm in bad:
                    bad.add(nm)
                    changed = True
    typ = {k: v for k, v in typ.items() if k not in bad}
    if not typ:
        return 0
    taken = {n.id for n in ast.walk(fn) if isinstance(n, ast.Name)}

    def fld(v: str, f: str) -> str:
        return f"{v}__{f}"
    if any(fld(v, f) in taken for v in typ for f, _ in nts[typ[v]]["fields"]):
        return 0

    def field_values(v: ast.expr, cur_name: Optional[str]) -> Optional[List[ast.expr]]:
        """the expressions of the fields, in order, of a constructor call / copy / _replace"""
        c = ctor_of(v)
        if c:
            fs = nts[c]["fields"]
            vals: Dict[str, ast.expr] = {}
            for (f, dflt), a_ in zip(fs, v.args):
                vals[f] = a_
            for k in v.keywords:
                vals[k.arg] = k.value
            out = []
            for f, dflt in fs:
                if f not in vals:
                    if dflt is None:
                        return None
                    vals[f] = dflt
                out.append(vals[f])
            return out
        if isinstance(v, ast.Name) and v.id in typ:
            return [ast.Name(id=fld(v.id, f), ctx=ast.Load()) for f, _ in nts[typ[v.id]]["fields"]]
        if isinstance(v, ast.Call) and isinstance(v.func, ast.Attribute) and v.func.attr == "_replace" and isinstance(v.func.value, ast.Name) \
                and v.func.value.id in typ:
            base = v.func.value.id
            rep = {k.arg: k.value for k in v.keywords}
            return [rep.get(f, ast.Name(id=fld(base, f), ctx=ast.Load())) for f, _ in nts[typ[base]]["fields"]]
        return None

    class R(ast.NodeTransformer):
        def visit_FunctionDef(self, n):
            if n is fn:
                self.generic_visit(n)
            return n

        def visit_Attribute(self, a_):
            if isinstance(a_.value, ast.Name) and a_.value.id in typ and isinstance(a_.ctx, ast.Load):
                info = nts[typ[a_.value.id]]
                v = a_.value.id
                if a_.attr in [f for f, _ in info["fields"]]:
                    return ast.copy_location(ast.Name(id=fld(v, a_.attr), ctx=ast.Load()), a_)
                if a_.attr in info["props"]:
                    body = copy.deepcopy(info["props"][a_.attr][1])
                    return ast.copy_location(_SelfSubst(v, [f for f, _ in info["fields"]], fld).visit(body), a_)
            return self.generic_visit(a_)

        def visit_Call(self, c):
            f = c.func
            if isinstance(f, ast.Attribute) and isinstance(f.value, ast.Name) and f.value.id in typ and f.attr in nts[typ[f.value.id]]["meths"]:
                info = nts[typ[f.value.id]]
                mdef, body = info["meths"][f.attr]
                ps = [p.arg for p in mdef.args.args[1:]]
                if len(c.args) <= len(ps) and all(k.arg in ps for k in c.keywords):
                    m = dict(zip(ps, c.args))
                    m.update({k.arg: k.value for k in c.keywords})
                    dflts = dict(zip(ps[len(ps) - len(mdef.args.defaults):], mdef.args.defaults))
                    for p_ in ps:
                        m.setdefault(p_, dflts.get(p_))
                    if all(v is not None for v in m.values()):
                        e = _SelfSubst(f.value.id, [x for x, _ in info["fields"]], fld).visit(copy.deepcopy(body))
                        e = _Subst({k: self.visit(v) for k, v in m.items()}).visit(e)
                        return ast.copy_location(e, c)
            c = self.generic_visit(c)
            new_args = []
            for a_ in c.args:
                if isinstance(a_, ast.Starred) and isinstance(a_.value, ast.Name) and a_.value.id in typ:
                    new_args += [ast.Name(id=fld(a_.value.id, f_), ctx=ast.Load()) for f_, _ in nts[typ[a_.value.id]]["fields"]]
                else:
                    new_args.append(a_)
            c.args = new_args
            return c
    k = 0
    for body in _bodies(fn):
        i = 0
        while i < len(body):
            st = body[i]
            if isinstance(st, (ast.Assign, ast.AnnAssign)) and getattr(st, "value", None) is not None:
                t = st.targets[0] if isinstance(st, ast.Assign) and len(st.targets) == 1 else getattr(st, "target", None)
                if isinstance(t, ast.Name) and t.id in typ:
                    vals = field_values(st.value, t.id)
                    if vals is None:
                        return 0      # cannot happen after the checks above; leave the tree consistent by giving up early
                    fs = [f for f, _ in nts[typ[t.id]]["fields"]]
                    vals = [R().visit(copy.deepcopy(v)) for v in vals]
                    tgt = ast.Tuple(elts=[ast.Name(id=fld(t.id, f), ctx=ast.Store()) for f in fs], ctx=ast.Store())
                    new = ast.copy_location(ast.Assign(targets=[tgt], value=ast.Tuple(elts=vals, ctx=ast.Load())), st)
                    ast.fix_missing_locations(new)
                    body[i] = new
                    k += 1
                    i += 1
                    continue
                if isinstance(t, (ast.Tuple, ast.List)) and isinstance(st.value, ast.Name) and st.value.id in typ:
                    vals = field_values(st.value, None)
                    new = ast.copy_location(ast.Assign(targets=[t], value=ast.Tuple(elts=vals, ctx=ast.Load())), st)
                    ast.fix_missing_locations(new)
                    body[i] = new
                    i += 1
                    continue
            body[i] = R().visit(st)
            ast.fix_missing_locations(body[i])
            i += 1
    return k


class _SelfSubst(ast.NodeTransformer):
    def __init__(self, var: str, fields: List[str], fld):
        self.var, self.fields, self.fld = var, fields, fld

    def visit_Attribute(self, a_):
        if isinstance(a_.value, ast.Name) and a_.value.id == "self" and a_.attr in self.fields:
            return ast.copy_location(ast.Name(id=self.fld(self.var, a_.attr), ctx=ast.Load()), a_)
        return self.generic_visit(a_)


class _CtorField(ast.NodeTransformer):
    """X(a, b).field -> the argument;  X(a, b).prop -> the property body on the arguments"""

    def __init__(self, nts):
        self.nts, self.k = nts, 0

    def visit_Attribute(self, a_):
        self.generic_visit(a_)
        v = a_.value
        if isinstance(v, ast.Call) and isinstance(v.func, ast.Name) and v.func.id in self.nts and isinstance(a_.ctx, ast.Load) \
                and not any(isinstance(x, ast.Starred) for x in v.args) and all(k.arg for k in v.keywords):
            info = self.nts[v.func.id]
            fs = [f for f, _ in info["fields"]]
            vals = dict(zip(fs, v.args))
            vals.update({k.arg: k.value for k in v.keywords})
            if all(f in vals for f in fs) and all(_is_pure(x) or True for x in vals.values()):
                if a_.attr in fs and all(_is_effect_free(vals[f]) for f in fs if f != a_.attr):
                    self.k += 1
                    return vals[a_.attr]
                if a_.attr in info["props"] and all(_is_effect_free(x) for x in vals.values()):
                    body = copy.deepcopy(info["props"][a_.attr][1])

                    class S(ast.NodeTransformer):
                        def visit_Attribute(s_, x):
                            if isinstance(x.value, ast.Name) and x.value.id == "self" and x.attr in vals:
                                return copy.deepcopy(vals[x.attr])
                            return s_.generic_visit(x)
                    self.k += 1
                    return ast.copy_location(S().visit(body), a_)
        return a_


# ---------------------------------------------------------------------------------------------- T18
def _tuple_alias(fn: ast.AST) -> int:
    """t = f(..) ; a, b = t      ->   a, b = f(..)   and every later read of t becomes (a, b)
    (t, a, b bound once in the function: the tuple and its unpacked names denote the same values for good)"""
    k = 0
    stores = _stores(fn)
    for body in _bodies(fn):
        i = 0
        while i + 1 < len(body):
            s1, s2 = body[i], body[i + 1]
            if isinstance(s1, (ast.Assign, ast.AnnAssign)) and getattr(s1, "value", None) is not None and isinstance(s1.value, ast.Call) \
                    and isinstance(s2, ast.Assign) and len(s2.targets) == 1 and isinstance(s2.targets[0], ast.Tuple) \
                    and isinstance(s2.value, ast.Name):
                t1 = s1.targets[0] if isinstance(s1, ast.Assign) and len(s1.targets) == 1 else getattr(s1, "target", None)
                names = [e.id for e in s2.targets[0].elts if isinstance(e, ast.Name)]
                if isinstance(t1, ast.Name) and s2.value.id == t1.id and len(names) == len(s2.targets[0].elts) \
                        and len(stores.get(t1.id, [])) == 1 and all(len(stores.get(n, [])) == 1 for n in names) \
                        and not any(isinstance(x, (ast.FunctionDef, ast.Lambda)) and any(isinstance(y, ast.Name) and y.id == t1.id for y in ast.walk(x))
                                    for x in ast.walk(fn) if x is not fn):
                    new = ast.copy_location(ast.Assign(targets=[s2.targets[0]], value=s1.value), s1)
                    ast.fix_missing_locations(new)
                    body[i:i + 2] = [new]
                    tup = ast.Tuple(elts=[ast.Name(id=n, ctx=ast.Load()) for n in names], ctx=ast.Load())
                    for b_ in _bodies(fn):
                        for j_, st_ in enumerate(b_):
                            if st_ is new:
                                continue
                            b_[j_] = _Subst({t1.id: tup}).visit(st_)
                    ast.fix_missing_locations(fn)
                    k += 1
                    continue
            i += 1
    return k


# ---------------------------------------------------------------------------------------------- T17
COUNTER_ATTRS = {"nfev", "ngev", "nhev", "nit"}


def _counter_increments(fn: ast.AST) -> int:
    """c = c + <int literal>  ->  c += <int literal>   for integer counters only (a wrapper counter attribute, or a
    local whose other bindings are integer literals): for numbers the two are the same, for arrays they are not"""
    k = 0
    int_locals: Dict[str, bool] = {}
    for n in _own_nodes(fn):
        if isinstance(n, (ast.Assign, ast.AnnAssign)) and getattr(n, "value", None) is not None:
            for t in (n.targets if isinstance(n, ast.Assign) else [n.target]):
                if isinstance(t, ast.Name):
                    v = n.value
                    is_int = isinstance(v, ast.Constant) and isinstance(v.value, int) and not isinstance(v.value, bool)
                    is_self_inc = isinstance(v, ast.BinOp) and isinstance(v.op, (ast.Add, ast.Sub)) and \
                        any(isinstance(x, ast.Name) and x.id == t.id for x in (v.left, v.right)) and \
                        any(isinstance(x, ast.Constant) and isinstance(x.value, int) for x in (v.left, v.right))
                    int_locals[t.id] = int_locals.get(t.id, True) and (is_int or is_self_inc)
    for body in _bodies(fn):
        for i, s in enumerate(body):
            if not (isinstance(s, ast.Assign) and len(s.targets) == 1 and isinstance(s.value, ast.BinOp) and isinstance(s.value.op, (ast.Add, ast.Sub))):
                continue
            t, v = s.targets[0], s.value
            counter = (isinstance(t, ast.Attribute) and t.attr in COUNTER_ATTRS) or (isinstance(t, ast.Name) and int_locals.get(t.id))
            if not counter:
                continue
            ts = ast.dump(ast.parse(ast.unparse(t), mode="eval").body)
            l, r = ast.dump(ast.parse(ast.unparse(v.left), mode="eval").body), ast.dump(ast.parse(ast.unparse(v.right), mode="eval").body)
            c = None
            if l == ts and isinstance(v.right, ast.Constant) and isinstance(v.right.value, int) and not isinstance(v.right.value, bool):
                c = v.right
            elif r == ts and isinstance(v.left, ast.Constant) and isinstance(v.left.value, int) and isinstance(v.op, ast.Add) and not isinstance(v.left.value, bool):
                c = v.left
            if c is None:
                continue
            tgt = copy.deepcopy(t)
            tgt.ctx = ast.Store()
            a = ast.copy_location(ast.AugAssign(target=tgt, op=v.op, value=c), s)
            ast.fix_missing_locations(a)
            body[i] = a
            k += 1
    return k


# ---------------------------------------------------------------------------------------------- T16
def _closure_roles(tree: ast.Module, modname: str) -> int:
    """the closures of ScalarFunction.__init__ are known to the rules by name; name them by what they do:
    stored in self._update_fun_impl / self._update_grad_impl -> update_fun / update_grad; the one calling the raw
    objective / gradient parameter -> fun_wrapped / grad_wrapped"""
    if modname != "scalar_function":
        return 0
    k = 0
    for cls in [n for n in tree.body if isinstance(n, ast.ClassDef) and n.name == "ScalarFunction"]:
        for init in [m for m in cls.body if isinstance(m, ast.FunctionDef) and m.name == "__init__"]:
            params = [a.arg for a in init.args.args]
            closures = [n for n in _own_nodes(init) if isinstance(n, ast.FunctionDef)]
            want: Dict[int, str] = {}
            for s_ in _own_nodes(init):
                if isinstance(s_, ast.Assign) and len(s_.targets) == 1 and isinstance(s_.targets[0], ast.Attribute) and isinstance(s_.value, ast.Name):
                    role = {"_update_fun_impl": "update_fun", "_update_grad_impl": "update_grad"}.get(s_.targets[0].attr)
                    if role:
                        # the closure of that name defined in the same block
                        for body in _bodies(init):
                            if s_ in body:
                                for c in body:
                                    if isinstance(c, ast.FunctionDef) and c.name == s_.value.id:
                                        want[id(c)] = role
            for c in closures:
                if id(c) in want:
                    continue
                for call in ast.walk(c):
                    if isinstance(call, ast.Call) and isinstance(call.func, ast.Name) and call.func.id in ("fun", "grad") and call.func.id in params:
                        want[id(c)] = f"{call.func.id}_wrapped"
            # a parameterless closure held in some other attribute of self and writing the cached value / gradient
            held = {s_.value.id for s_ in _own_nodes(init) if isinstance(s_, ast.Assign) and len(s_.targets) == 1 and isinstance(s_.targets[0], ast.Attribute)
                    and isinstance(s_.targets[0].value, ast.Name) and s_.targets[0].value.id == "self" and isinstance(s_.value, ast.Name)}
            for c in closures:
                if id(c) in want or c.name not in held or c.args.args:
                    continue
                wr = {t.attr for s_ in ast.walk(c) if isinstance(s_, ast.Assign) for t in s_.targets
                      if isinstance(t, ast.Attribute) and isinstance(t.value, ast.Name) and t.value.id == "self"}
                if "f" in wr and "g" not in wr:
                    want[id(c)] = "update_fun"
                elif "g" in wr and "f" not in wr:
                    want[id(c)] = "update_grad"
            # closures of one name defined in several branches (one per mode) and used after the branches: rename them together
            by_old: Dict[str, List[ast.FunctionDef]] = {}
            for c in closures:
                by_old.setdefault(c.name, []).append(c)
            for old_, cs in by_old.items():
                news = {want.get(id(c)) for c in cs}
                if len(cs) > 1 and len(news) == 1 and None not in news:
                    new = next(iter(news))
                    if new != old_ and not any(isinstance(n, ast.Name) and n.id == new for n in ast.walk(init)) \
                            and not any(isinstance(x, ast.FunctionDef) and x.name == new for x in ast.walk(init)):
                        for c in cs:
                            c.name = new
                        for n in ast.walk(init):
                            if isinstance(n, ast.Name) and n.id == old_:
                                n.id = new
                        k += 1
            for c in closures:
                new = want.get(id(c))
                if not new or new == c.name:
                    continue
                # the new name must be free in the block where the closure lives (other branches may reuse it)
                for body in _bodies(init):
                    if c in body:
                        if any(isinstance(x, ast.FunctionDef) and x.name == new and x is not c for x in body):
                            break
                        old = c.name
                        c.name = new
                        for b_ in body:
                            for n in ast.walk(b_):
                                if isinstance(n, ast.Name) and n.id == old:
                                    n.id = new
                        k += 1
                        break
    return k


def _list_builders(fn: ast.AST) -> int:
    """T22: `L = []`, then only `L.append(e)` statements in the same statement list, then a single read of L: the
    appended values become temporaries L__k and the read becomes the list literal of them"""
    k = 0
    for body in _bodies(fn):
        for i, s in enumerate(list(body)):
            if not (isinstance(s, (ast.Assign, ast.AnnAssign)) and getattr(s, "value", None) is not None):
                continue
            tg = s.targets[0] if isinstance(s, ast.Assign) and len(s.targets) == 1 else getattr(s, "target", None)
            v = s.value
            if not (isinstance(tg, ast.Name) and ((isinstance(v, ast.List) and not v.elts) or
                                                  (isinstance(v, ast.Call) and isinstance(v.func, ast.Name) and v.func.id == "list" and not v.args))):
                continue
            L = tg.id
            mentions = [n for n in ast.walk(fn) if isinstance(n, ast.Name) and n.id == L]
            apps = []
            j = body.index(s) + 1
            rest_start = None
            ok = True
            while j < len(body):
                t = body[j]
                names = [n for n in ast.walk(t) if isinstance(n, ast.Name) and n.id == L]
                if not names:
                    j += 1
                    continue
                if isinstance(t, ast.Expr) and isinstance(t.value, ast.Call) and isinstance(t.value.func, ast.Attribute) and t.value.func.attr == "append" \
                        and isinstance(t.value.func.value, ast.Name) and t.value.func.value.id == L and len(t.value.args) == 1 and not t.value.keywords \
                        and len(names) == 1:
                    apps.append(t)
                    j += 1
                    continue
                rest_start = j
                break
            if rest_start is None or not apps:
                continue
            reads = [n for t in body[rest_start:] for n in ast.walk(t) if isinstance(n, ast.Name) and n.id == L]
            if len(reads) != 1 or not isinstance(reads[0].ctx, ast.Load) or len(mentions) != 1 + len(apps) + 1:
                continue
            # the read must not sit in a loop of its own (it would then be evaluated more than once; still the same value,
            # but keep to the simple case) and must not be the object of a method call or subscript store
            tail = body[rest_start]
            bad = False
            for n in ast.walk(tail):
                if isinstance(n, (ast.Attribute, ast.Subscript)) and n.value is reads[0]:
                    bad = True
                if isinstance(n, (ast.For, ast.While, ast.FunctionDef, ast.Lambda, ast.ListComp, ast.GeneratorExp)):
                    bad = bad or any(m is reads[0] for m in ast.walk(n))
            if bad:
                continue
            temps = []
            for q, t in enumerate(apps):
                nm = f"{L}__{q}"
                temps.append(nm)
                body[body.index(t)] = ast.copy_location(ast.Assign(targets=[ast.Name(nm, ast.Store())], value=t.value.args[0]), t)
            lit = ast.List(elts=[ast.Name(nm, ast.Load()) for nm in temps], ctx=ast.Load())

            class R(ast.NodeTransformer):
                def visit_Name(self, n):
                    return ast.copy_location(lit, n) if n is reads[0] else n
            body[body.index(tail)] = R().visit(tail)
            body.remove(s)
            for t in body:
                ast.fix_missing_locations(t)
            k += 1
    return k


def _partials(tree: ast.Module) -> int:
    """T23: partial(F, k=v, ...) of a module-level function with parameters of the enclosing function (never rebound
    there) as bound values is the local closure `def F__p(rest): return F(rest, k=v, ...)`"""
    mod_funcs = {n.name: n for n in tree.body if isinstance(n, ast.FunctionDef)}
    k = 0
    for fn in [n for n in tree.body if isinstance(n, ast.FunctionDef)]:
        params = {a.arg for a in fn.args.posonlyargs + fn.args.args + fn.args.kwonlyargs}
        stored = set(_stores(fn))
        for body in _bodies(fn):
            i = 0
            while i < len(body):
                st = body[i]
                if isinstance(st, (ast.FunctionDef, ast.ClassDef)):
                    i += 1
                    continue
                made = []
                hdr = [st] if not isinstance(st, (ast.If, ast.While, ast.For, ast.With, ast.Try)) else \
                    [st.test] if isinstance(st, (ast.If, ast.While)) else [st.iter] if isinstance(st, ast.For) else \
                    [it.context_expr for it in st.items] if isinstance(st, ast.With) else []
                for h in hdr:
                    for c in list(ast.walk(h)):
                        if not (isinstance(c, ast.Call) and (dotted_name(c.func) in ("partial", "functools.partial")) and c.args
                                and isinstance(c.args[0], ast.Name) and c.args[0].id in mod_funcs and len(c.args) == 1 and c.keywords):
                            continue
                        F = mod_funcs[c.args[0].id]
                        if F.args.vararg or F.args.kwarg or F.args.kwonlyargs or F.args.posonlyargs:
                            continue
                        fpar = [a.arg for a in F.args.args]
                        if not all(kw_.arg in fpar and isinstance(kw_.value, ast.Name) and kw_.value.id in params and kw_.value.id not in stored
                                   for kw_ in c.keywords):
                            continue
                        bound = {kw_.arg for kw_ in c.keywords}
                        rest = [a for a in fpar if a not in bound]
                        nm = f"{F.name}__p{k}"
                        if isinstance(st, ast.Assign) and len(st.targets) == 1 and isinstance(st.targets[0], ast.Name) and st.value is c \
                                and len(_stores(fn).get(st.targets[0].id, [])) == 1:
                            nm = st.targets[0].id      # g = partial(F, ..): the closure takes the name g and the assignment goes
                        call = ast.Call(func=ast.Name(F.name, ast.Load()), args=[ast.Name(a, ast.Load()) for a in rest],
                                        keywords=[ast.keyword(arg=kw_.arg, value=ast.Name(kw_.value.id, ast.Load())) for kw_ in c.keywords])
                        d = ast.FunctionDef(name=nm, args=ast.arguments(posonlyargs=[], args=[ast.arg(arg=a) for a in rest], vararg=None,
                                                                        kwonlyargs=[], kw_defaults=[], kwarg=None, defaults=[]),
                                            body=[ast.Return(value=call)], decorator_list=[], returns=None, type_params=[])
                        ast.copy_location(d, st)
                        made.append((c, d, nm))
                        k += 1
                if made:
                    ids = {id(c): nm for c, _, nm in made}

                    class R(ast.NodeTransformer):
                        def visit_Call(self, c):
                            self.generic_visit(c)
                            if id(c) in ids:
                                return ast.copy_location(ast.Name(ids[id(c)], ast.Load()), c)
                            return c
                    for h in hdr:
                        R().visit(h)
                    for _, d, _ in made:
                        ast.fix_missing_locations(d)
                        body.insert(i, d)
                        i += 1
                    ast.fix_missing_locations(st)
                    if isinstance(st, ast.Assign) and isinstance(st.value, ast.Name) and isinstance(st.targets[0], ast.Name) and st.value.id == st.targets[0].id:
                        body.remove(st)
                        i -= 1
                i += 1
    return k


def _partials_general(tree: ast.Module) -> int:
    """T23b: `g = partial(F, a.., k=v.., **d)` (g bound once; F, a, v names that are not rebound afterwards or constants; d a
    dict that is not written after this statement) is the closure
    `def g(*args, **kwargs): return F(a.., *args, k=v.., **d, **kwargs)` -- partial binds the values it is given, the
    closure reads the same, unchanged, names when it is called"""
    k = 0
    hosts = [n for n in tree.body if isinstance(n, ast.FunctionDef)] + \
        [m_ for c_ in tree.body if isinstance(c_, ast.ClassDef) for m_ in c_.body if isinstance(m_, ast.FunctionDef)]
    for fn in hosts:
        stores = _stores(fn)
        for body in _bodies(fn):
            for i, st in enumerate(list(body)):
                if not (isinstance(st, ast.Assign) and len(st.targets) == 1 and isinstance(st.targets[0], ast.Name) and isinstance(st.value, ast.Call)
                        and dotted_name(st.value.func) in ("partial", "functools.partial") and st.value.args and isinstance(st.value.args[0], ast.Name)):
                    continue
                g, c = st.targets[0].id, st.value
                if len(stores.get(g, [])) != 1:
                    continue
                line = st.lineno

                def stable(e) -> bool:
                    if isinstance(e, ast.Constant):
                        return True
                    if not isinstance(e, ast.Name):
                        return False
                    later = [x for x in stores.get(e.id, []) if getattr(x, "lineno", 0) > line]
                    defs_later = [x for x in ast.walk(fn) if isinstance(x, ast.FunctionDef) and x.name == e.id and x.lineno > line]
                    return not later and not defs_later
                pos = c.args[1:]
                if any(isinstance(a, ast.Starred) for a in pos) or not all(stable(a) for a in [c.args[0]] + list(pos)):
                    continue
                kws = [k_ for k_ in c.keywords if k_.arg is not None]
                dd = [k_.value for k_ in c.keywords if k_.arg is None]
                if not all(stable(k_.value) for k_ in kws) or not all(isinstance(d_, ast.Name) and stable(d_) for d_ in dd):
                    continue
                okd = True
                for d_ in dd:
                    for x in ast.walk(fn):
                        if getattr(x, "lineno", 0) <= line:
                            continue
                        if isinstance(x, ast.Subscript) and isinstance(x.ctx, (ast.Store, ast.Del)) and isinstance(x.value, ast.Name) and x.value.id == d_.id:
                            okd = False
                        if isinstance(x, ast.Call) and isinstance(x.func, ast.Attribute) and isinstance(x.func.value, ast.Name) and x.func.value.id == d_.id \
                                and x.func.attr in ("update", "pop", "clear", "setdefault", "popitem", "__setitem__"):
                            okd = False
                if not okd:
                    continue
                taken = {n.id for n in ast.walk(fn) if isinstance(n, ast.Name)}
                va, ka = "args__p", "kwargs__p"
                if va in taken or ka in taken:
                    continue
                call = ast.Call(func=ast.Name(c.args[0].id, ast.Load()),
                                args=[copy.deepcopy(a) for a in pos] + [ast.Starred(value=ast.Name(va, ast.Load()), ctx=ast.Load())],
                                keywords=[ast.keyword(arg=k_.arg, value=copy.deepcopy(k_.value)) for k_ in kws] +
                                [ast.keyword(arg=None, value=copy.deepcopy(d_)) for d_ in dd] + [ast.keyword(arg=None, value=ast.Name(ka, ast.Load()))])
                d = ast.FunctionDef(name=g, args=ast.arguments(posonlyargs=[], args=[], vararg=ast.arg(arg=va), kwonlyargs=[], kw_defaults=[],
                                                               kwarg=ast.arg(arg=ka), defaults=[]),
                                    body=[ast.Return(value=call)], decorator_list=[], returns=None, type_params=[])
                ast.copy_location(d, st)
                ast.fix_missing_locations(d)
                body[body.index(st)] = d
                k += 1
    return k


def dotted_name(e: ast.AST) -> Optional[str]:
    if isinstance(e, ast.Name):
        return e.id
    if isinstance(e, ast.Attribute):
        b = dotted_name(e.value)
        return f"{b}.{e.attr}" if b else None
    return None


def _known_none(fn: ast.AST, classes: Set[str]) -> int:
    """T24: an if-tree whose every fall-through leaf ends with `v = None` or `v = C(..)` (a call: never None for the
    classes and NamedTuples built here), directly followed by `if v is None: A else: B`: the test is decided in each
    leaf, so A resp. B moves into the leaves (a `v = None` that nothing reads any more is dropped).  A copy `w = v`
    between the two, with v read nowhere else, is coalesced first."""
    k = 0

    def leaves(block, out) -> bool:
        if not block:
            return False
        last = block[-1]
        if isinstance(last, ast.If):
            return bool(last.orelse) and leaves(last.body, out) and leaves(last.orelse, out)
        if isinstance(last, (ast.Return, ast.Raise)):
            return True
        out.append(block)
        return True

    def loads(node, name):
        return [n for n in ast.walk(node) if isinstance(n, ast.Name) and n.id == name and isinstance(n.ctx, ast.Load)]
    for body in _bodies(fn):
        i = 0
        while i + 1 < len(body):
            T = body[i]
            if not isinstance(T, ast.If):
                i += 1
                continue
            lv: List[list] = []
            if not leaves([T], lv) or not lv:
                i += 1
                continue
            names = set()
            okl = True
            for b in lv:
                st = b[-1]
                tg = st.targets[0] if isinstance(st, ast.Assign) and len(st.targets) == 1 else \
                    st.target if isinstance(st, ast.AnnAssign) and st.value is not None else None
                if not isinstance(tg, ast.Name) or not ((isinstance(st.value, ast.Constant) and st.value.value is None) or
                                                        (isinstance(st.value, ast.Call) and isinstance(st.value.func, ast.Name)
                                                         and st.value.func.id in classes)):
                    okl = False
                    break
                names.add(tg.id)
            if not okl or len(names) != 1:
                i += 1
                continue
            v = next(iter(names))
            nxt = body[i + 1]
            # coalesce `w = v`
            if isinstance(nxt, ast.Assign) and len(nxt.targets) == 1 and isinstance(nxt.targets[0], ast.Name) and isinstance(nxt.value, ast.Name) \
                    and nxt.value.id == v and len(loads(fn, v)) == 1 and nxt.targets[0].id not in {n.id for n in ast.walk(T) if isinstance(n, ast.Name)}:
                w = nxt.targets[0].id
                for b in lv:
                    st = b[-1]
                    (st.targets[0] if isinstance(st, ast.Assign) else st.target).id = w
                del body[i + 1]
                v = w
                k += 1
                if i + 1 >= len(body):
                    break
                nxt = body[i + 1]
            if not (isinstance(nxt, ast.If) and isinstance(nxt.test, ast.Compare) and len(nxt.test.ops) == 1 and isinstance(nxt.test.ops[0], (ast.Is, ast.IsNot))
                    and isinstance(nxt.test.left, ast.Name) and nxt.test.left.id == v and isinstance(nxt.test.comparators[0], ast.Constant)
                    and nxt.test.comparators[0].value is None):
                i += 1
                continue
            none_body, some_body = (nxt.body, nxt.orelse) if isinstance(nxt.test.ops[0], ast.Is) else (nxt.orelse, nxt.body)
            if sum(len(list(ast.walk(x))) for x in nxt.body + nxt.orelse) > 400:
                i += 1
                continue
            for b in lv:
                st = b[-1]
                isnone = isinstance(st.value, ast.Constant)
                b.extend(copy.deepcopy(x) for x in (none_body if isnone else some_body))
            del body[i + 1]
            # dead `v = None`
            inside_some = set()
            for b in lv:
                if not isinstance([x for x in b if isinstance(x, (ast.Assign, ast.AnnAssign)) and
                                   isinstance((x.targets[0] if isinstance(x, ast.Assign) else x.target), ast.Name) and
                                   (x.targets[0] if isinstance(x, ast.Assign) else x.target).id == v][-1].value, ast.Constant):
                    for x in b:
                        inside_some |= {id(n) for n in ast.walk(x)}
            if all(id(n) in inside_some for n in loads(fn, v)):
                for b in lv:
                    for x in list(b):
                        if isinstance(x, (ast.Assign, ast.AnnAssign)) and isinstance(getattr(x, "value", None), ast.Constant) and x.value.value is None:
                            tg = x.targets[0] if isinstance(x, ast.Assign) else x.target
                            if isinstance(tg, ast.Name) and tg.id == v:
                                b.remove(x)
                    if not b:
                        b.append(ast.Pass())
            for x in body:
                ast.fix_missing_locations(x)
            k += 1
            i += 1
    return k


# ---------------------------------------------------------------------------------------------- T26 / T27
def _match_to_if(fn: ast.AST) -> int:
    """T26: `match S: case <literal | a | b | _ | (p, q)> [if g]: ...` -> if / elif chain (value, singleton, or-, wildcard and
    fixed-length tuple patterns over a tuple-literal subject; a bare capture only as the last, unguarded case).  Class,
    mapping and star patterns are left alone (the loader then refuses the construct)"""
    k = 0

    def test_of(pat, subj) -> Optional[ast.expr]:
        if isinstance(pat, ast.MatchValue):
            return ast.Compare(left=copy.deepcopy(subj), ops=[ast.Eq()], comparators=[pat.value])
        if isinstance(pat, ast.MatchSingleton):
            return ast.Compare(left=copy.deepcopy(subj), ops=[ast.Is()], comparators=[ast.Constant(pat.value)])
        if isinstance(pat, ast.MatchOr):
            ts = [test_of(p_, subj) for p_ in pat.patterns]
            if any(t is None or (isinstance(t, ast.Constant) and t.value is True) for t in ts):
                return None
            return ast.BoolOp(op=ast.Or(), values=ts)
        if isinstance(pat, ast.MatchAs) and pat.pattern is None and pat.name is None:
            return ast.Constant(True)
        if isinstance(pat, ast.MatchSequence) and isinstance(subj, ast.Tuple) and len(pat.patterns) == len(subj.elts) \
                and not any(isinstance(p_, ast.MatchStar) for p_ in pat.patterns):
            ts = []
            for p_, e_ in zip(pat.patterns, subj.elts):
                t = test_of(p_, e_)
                if t is None:
                    return None
                if not (isinstance(t, ast.Constant) and t.value is True):
                    ts.append(t)
            if not ts:
                return ast.Constant(True)
            return ts[0] if len(ts) == 1 else ast.BoolOp(op=ast.And(), values=ts)
        return None
    for body in _bodies(fn):
        i = 0
        while i < len(body):
            s = body[i]
            i += 1
            if not isinstance(s, ast.Match):
                continue
            subj = s.subject
            pre: List[ast.stmt] = []
            if not _is_pure(subj):
                nm = f"match__{s.lineno}"
                pre.append(ast.Assign(targets=[ast.Name(nm, ast.Store())], value=subj))
                subj = ast.Name(nm, ast.Load())
            elif isinstance(subj, ast.Tuple) and not all(_is_pure(e) for e in subj.elts):
                continue
            chain = []
            ok = True
            for j, c in enumerate(s.cases):
                pat = c.pattern
                if isinstance(pat, ast.MatchAs) and pat.pattern is None and pat.name is not None:
                    if j != len(s.cases) - 1 or c.guard is not None:
                        ok = False
                        break
                    bind = ast.Assign(targets=[ast.Name(pat.name, ast.Store())], value=copy.deepcopy(subj))
                    chain.append((ast.Constant(True), [bind] + c.body))
                    continue
                t = test_of(pat, subj)
                if t is None:
                    ok = False
                    break
                if c.guard is not None:
                    t = c.guard if isinstance(t, ast.Constant) and t.value is True else ast.BoolOp(op=ast.And(), values=[t, c.guard])
                chain.append((t, c.body))
            if not ok or not chain:
                continue
            tail: List[ast.stmt] = []
            for t, b in reversed(chain):
                if isinstance(t, ast.Constant) and t.value is True:
                    tail = list(b)
                else:
                    tail = [ast.If(test=t, body=list(b), orelse=tail)]
            new = pre + tail
            for x in new:
                ast.copy_location(x, s)
                ast.fix_missing_locations(x)
            at = body.index(s)
            body[at:at + 1] = new
            i = at
            k += 1
    return k


def _first_walrus(e: ast.expr) -> Optional[ast.NamedExpr]:
    """the assignment expression of e that is evaluated unconditionally and before anything with an effect, if any"""
    class Stop(Exception):
        pass
    found: List[ast.NamedExpr] = []

    def has_walrus(x) -> bool:
        return any(isinstance(y, ast.NamedExpr) for y in ast.walk(x))

    def cond(x):
        # evaluated only on some outcomes: a walrus in there cannot be hoisted, and nothing after it either
        if has_walrus(x):
            raise Stop()
        if not _is_effect_free(x):
            raise Stop()

    def go(x):
        if isinstance(x, ast.NamedExpr):
            if isinstance(x.target, ast.Name) and not has_walrus(x.value):
                found.append(x)
            raise Stop()
        if isinstance(x, (ast.Name, ast.Constant)):
            return
        if isinstance(x, ast.BoolOp):
            go(x.values[0])
            for v in x.values[1:]:
                cond(v)
            return
        if isinstance(x, ast.IfExp):
            go(x.test)
            cond(x.body)
            cond(x.orelse)
            return
        if isinstance(x, (ast.Lambda, ast.ListComp, ast.SetComp, ast.DictComp, ast.GeneratorExp)):
            cond(x)
            return
        if isinstance(x, ast.Call):
            go(x.func)
            for a_ in x.args:
                go(a_.value if isinstance(a_, ast.Starred) else a_)
            for k_ in x.keywords:
                go(k_.value)
            if not _is_effect_free(ast.Call(func=x.func, args=[], keywords=[])) and not _is_effect_free(x):
                raise Stop()       # the call itself runs now: nothing later may move in front of it
            return
        if isinstance(x, ast.Compare):
            go(x.left)
            if len(x.comparators) > 1:
                for c_ in x.comparators:
                    cond(c_)       # chained comparisons short-circuit
            else:
                go(x.comparators[0])
            return
        for ch in ast.iter_child_nodes(x):
            if isinstance(ch, ast.expr):
                go(ch)
    try:
        go(e)
    except Stop:
        pass
    return found[0] if found else None


def _walrus(fn: ast.AST) -> int:
    """T27: `if (n := E) ...:`, `y = (n := E) ...`, `return (n := E) ...` with the assignment expression evaluated first and
    unconditionally -> `n = E` in front of the statement"""
    k = 0
    for body in _bodies(fn):
        i = 0
        while i < len(body):
            s = body[i]
            host = s.test if isinstance(s, ast.If) else s.value if isinstance(s, (ast.Assign, ast.AnnAssign, ast.Expr, ast.Return, ast.AugAssign)) else None
            if host is None or (isinstance(s, ast.Assign) and not all(isinstance(t, ast.Name) for t in s.targets)) or \
                    (isinstance(s, (ast.AnnAssign, ast.AugAssign)) and not isinstance(s.target, ast.Name)):
                i += 1
                continue
            w = _first_walrus(host)
            if w is not None:
                pre = ast.copy_location(ast.Assign(targets=[ast.Name(w.target.id, ast.Store())], value=w.value), s)
                ast.fix_missing_locations(pre)
                rep = ast.copy_location(ast.Name(w.target.id, ast.Load()), w)

                class R(ast.NodeTransformer):
                    def visit_NamedExpr(self, n):
                        return rep if n is w else self.generic_visit(n)
                if isinstance(s, ast.If):
                    s.test = R().visit(s.test)
                else:
                    s.value = R().visit(s.value)
                body.insert(i, pre)
                k += 1
                i += 1          # look at the same statement again (another walrus may now be leftmost)
                continue
            i += 1
    return k


def _suppress_and_defaults(fn: ast.AST) -> int:
    """T30: `with [contextlib.]suppress(E..): B` -> `try: B except (E..): pass`; and `v = <constant>` directly followed by
    `try: ..; v = e  except E: pass` (v assigned only by the last statement of the try body, not read before) ->
    `try: ..; v = e  except E: v = <constant>` -- the default-first spelling of an except-branch default"""
    k = 0
    for body in _bodies(fn):
        i = 0
        while i < len(body):
            s = body[i]
            if isinstance(s, ast.With) and len(s.items) == 1 and s.items[0].optional_vars is None and isinstance(s.items[0].context_expr, ast.Call) \
                    and dotted_name(s.items[0].context_expr.func) in ("suppress", "contextlib.suppress") and s.items[0].context_expr.args \
                    and not s.items[0].context_expr.keywords and all(_is_pure(a) for a in s.items[0].context_expr.args):
                excs = s.items[0].context_expr.args
                typ = excs[0] if len(excs) == 1 else ast.Tuple(elts=list(excs), ctx=ast.Load())
                t = ast.Try(body=s.body, handlers=[ast.ExceptHandler(type=typ, name=None, body=[ast.Pass()])], orelse=[], finalbody=[])
                ast.copy_location(t, s)
                ast.fix_missing_locations(t)
                body[i] = t
                s = t
                k += 1
            if isinstance(s, ast.Try) and i > 0 and len(s.handlers) == 1 and not s.orelse and not s.finalbody \
                    and len(s.handlers[0].body) == 1 and isinstance(s.handlers[0].body[0], ast.Pass) and s.body:
                prev, last = body[i - 1], s.body[-1]
                if isinstance(prev, ast.Assign) and len(prev.targets) == 1 and isinstance(prev.targets[0], ast.Name) and _is_pure(prev.value) \
                        and not any(isinstance(x, ast.Name) for x in ast.walk(prev.value) if not (isinstance(x, ast.Name) and x.id in ("np", "math", "float"))) \
                        and isinstance(last, ast.Assign) and len(last.targets) == 1 and isinstance(last.targets[0], ast.Name) \
                        and last.targets[0].id == prev.targets[0].id:
                    v = prev.targets[0].id
                    if not any(isinstance(x, ast.Name) and x.id == v for b_ in s.body[:-1] for x in ast.walk(b_)) \
                            and not any(isinstance(x, ast.Name) and x.id == v for x in ast.walk(last.value)):
                        s.handlers[0].body = [ast.copy_location(ast.Assign(targets=[ast.Name(v, ast.Store())], value=prev.value), s.handlers[0])]
                        ast.fix_missing_locations(s)
                        del body[i - 1]
                        k += 1
                        continue
            i += 1
    return k


_HOISTED: Dict[int, Set[str]] = {}


def _forward_hoisted(fn: ast.AST) -> int:
    """T1b: a temporary that T1 itself introduced for a plain read (`d__nfev = sf.nfev`, `d__x = x`) is forwarded to its
    uses again when nothing between the read and the uses can change what it reads: no rebinding of a name it mentions, no
    store through its base, and no call that has its base as receiver or among its arguments"""
    names = _HOISTED.get(id(fn), set())
    if not names:
        _HOISTED.pop(id(fn), None)
        return 0
    k = 0
    for body in _bodies(fn):
        for st in list(body):
            if not (isinstance(st, ast.Assign) and len(st.targets) == 1 and isinstance(st.targets[0], ast.Name) and st.targets[0].id in names):
                continue
            t, E = st.targets[0].id, st.value
            if not (isinstance(E, (ast.Name, ast.Attribute)) and _is_pure(E)):
                continue
            base = E
            while isinstance(base, ast.Attribute):
                base = base.value
            if not isinstance(base, ast.Name):
                continue
            p_ = body.index(st)
            uses = [n for n in ast.walk(fn) if isinstance(n, ast.Name) and n.id == t and isinstance(n.ctx, ast.Load)]
            rest = body[p_ + 1:]
            inside = {id(n) for b_ in rest for n in ast.walk(b_)}
            if not uses or not all(id(u) in inside for u in uses):
                continue
            last = max(i for i, b_ in enumerate(rest) if any(id(u) in {id(n) for n in ast.walk(b_)} for u in uses))
            safe = True
            for b_ in rest[:last + 1]:
                for n in ast.walk(b_):
                    if isinstance(n, ast.Name) and isinstance(n.ctx, (ast.Store, ast.Del)) and n.id in (_free(E) | {t}):
                        safe = False
                    if isinstance(E, ast.Attribute):
                        if isinstance(n, ast.Attribute) and isinstance(n.ctx, (ast.Store, ast.Del)):
                            r_ = n
                            while isinstance(r_, ast.Attribute):
                                r_ = r_.value
                            if isinstance(r_, ast.Name) and r_.id == base.id:
                                safe = False
                        if isinstance(n, ast.Call):
                            r_ = n.func
                            while isinstance(r_, ast.Attribute):
                                r_ = r_.value
                            if isinstance(r_, ast.Name) and r_.id == base.id:
                                safe = False
                            if any(isinstance(x, ast.Name) and x.id == base.id for a_ in list(n.args) + [k_.value for k_ in n.keywords] for x in ast.walk(a_)
                                   if not (isinstance(a_, ast.Attribute) and _is_pure(a_))):
                                safe = False
                        if isinstance(n, (ast.FunctionDef, ast.Lambda)):
                            safe = False
            if not safe:
                continue

            class R(ast.NodeTransformer):
                def visit_Name(self, n):
                    if n.id == t and isinstance(n.ctx, ast.Load):
                        return ast.copy_location(copy.deepcopy(E), n)
                    return n
            for i_, b_ in enumerate(body):
                if b_ is not st:
                    body[i_] = R().visit(b_)
            body.remove(st)
            names.discard(t)
            k += 1
    _HOISTED.pop(id(fn), None)
    return k


def _coalesce_copies(fn: ast.AST) -> int:
    """T32: `a = b` where the local b is never mentioned afterwards and a never before (the result variable of an inlined
    helper, a renamed temporary): b is a from the start, the copy goes"""
    k = 0
    a_ = fn.args if isinstance(fn, (ast.FunctionDef, ast.AsyncFunctionDef)) else None
    params = {p_.arg for p_ in (a_.posonlyargs + a_.args + a_.kwonlyargs)} if a_ else set()
    if a_ and a_.vararg:
        params.add(a_.vararg.arg)
    if a_ and a_.kwarg:
        params.add(a_.kwarg.arg)
    if any(isinstance(n, (ast.Global, ast.Nonlocal)) for n in ast.walk(fn)):
        return 0
    changed = True
    while changed:
        changed = False
        for body in _bodies(fn):
            for i, st in enumerate(body):
                if not (isinstance(st, ast.Assign) and len(st.targets) == 1 and isinstance(st.targets[0], ast.Name) and isinstance(st.value, ast.Name)):
                    continue
                a, b = st.targets[0].id, st.value.id
                if a == b or b in params or a in params:
                    continue
                before = {id(n) for t in body[:i] for n in ast.walk(t)}
                after = {id(n) for t in body[i + 1:] for n in ast.walk(t)}
                own = {id(n) for n in ast.walk(st)}
                mb = [n for n in ast.walk(fn) if isinstance(n, ast.Name) and n.id == b and id(n) not in own]
                ma = [n for n in ast.walk(fn) if isinstance(n, ast.Name) and n.id == a and id(n) not in own]
                if not mb or not all(id(n) in before for n in mb) or not all(id(n) in after for n in ma):
                    continue
                # nested functions must not mention either name
                if any(isinstance(n, (ast.FunctionDef, ast.Lambda)) and n is not fn and any(isinstance(x, ast.Name) and x.id in (a, b) for x in ast.walk(n))
                       for n in ast.walk(fn)):
                    continue
                # b is bound by a plain top-level statement of this block before anything reads it
                first = next((t for t in body[:i] if any(isinstance(n, ast.Name) and n.id == b for n in ast.walk(t))), None)
                tg = first.targets[0] if isinstance(first, ast.Assign) and len(first.targets) == 1 else \
                    first.target if isinstance(first, ast.AnnAssign) and first.value is not None else None
                if not (isinstance(tg, ast.Name) and tg.id == b and not any(isinstance(n, ast.Name) and n.id == b for n in ast.walk(first.value))):
                    continue
                for n in mb:
                    n.id = a
                body.remove(st)
                k += 1
                changed = True
                break
            if changed:
                break
    return k


def _pair_lists(fn: ast.AST) -> int:
    """T33: a local list of fixed-arity tuples (`L = [(a, b)]`, `L.append((c, d))` or `L.append(t)` with t a tuple literal bound
    just before, `*L[-1]` / `L[-1][j]` reads, finally unzipped `A, B = (C(v) for v in zip(*reversed(L)))`) is one list per
    component (`L__0`, `L__1`), unzipped for free: `A = C(reversed(L__0))`.
    T34: a local list built by `[e]` and `.append`, read only as `M[-1]`, and finally turned into `D = deque(reversed(M))`
    is the deque D grown on the left: `D = deque([e])`, `D.appendleft(x)`, `D[0]`."""
    k = 0
    a_ = fn.args if isinstance(fn, (ast.FunctionDef, ast.AsyncFunctionDef)) else None
    params = {p_.arg for p_ in (a_.posonlyargs + a_.args + a_.kwonlyargs)} if a_ else set()
    parent = {id(c): p_ for p_ in ast.walk(fn) for c in ast.iter_child_nodes(p_)}

    def body_of(st):
        for b in _bodies(fn):
            if any(x is st for x in b):
                return b
        return None
    # ---- T33
    for st in [n for n in ast.walk(fn) if isinstance(n, (ast.Assign, ast.AnnAssign)) and getattr(n, "value", None) is not None]:
        tg = st.targets[0] if isinstance(st, ast.Assign) and len(st.targets) == 1 else getattr(st, "target", None)
        v = st.value
        if not (isinstance(tg, ast.Name) and tg.id not in params and isinstance(v, ast.List) and v.elts and all(isinstance(e, ast.Tuple) for e in v.elts)):
            continue
        L = tg.id
        r = len(v.elts[0].elts)
        if r < 2 or any(len(e.elts) != r for e in v.elts):
            continue
        if sum(1 for n in ast.walk(fn) if isinstance(n, ast.Name) and n.id == L and isinstance(n.ctx, ast.Store)) != 1:
            continue
        uses = [n for n in ast.walk(fn) if isinstance(n, ast.Name) and n.id == L and isinstance(n.ctx, ast.Load)]
        plan = []
        ok = True
        final = None
        for u in uses:
            p1 = parent.get(id(u))
            p2 = parent.get(id(p1)) if p1 is not None else None
            p3 = parent.get(id(p2)) if p2 is not None else None
            # L.append(T)
            if isinstance(p1, ast.Attribute) and p1.attr == "append" and isinstance(p2, ast.Call) and p2.func is p1 and len(p2.args) == 1 and isinstance(p3, ast.Expr):
                a0 = p2.args[0]
                if isinstance(a0, ast.Name):
                    # t = (c, d) bound by the statement just before, in the same block or the enclosing one
                    b_ = body_of(p3)
                    enc = None
                    for bb in _bodies(fn):
                        for x in bb:
                            if isinstance(x, ast.Assign) and len(x.targets) == 1 and isinstance(x.targets[0], ast.Name) and x.targets[0].id == a0.id \
                                    and isinstance(x.value, ast.Tuple) and len(x.value.elts) == r:
                                enc = x
                    nstores = sum(1 for n in ast.walk(fn) if isinstance(n, ast.Name) and n.id == a0.id and isinstance(n.ctx, ast.Store))
                    if enc is None or nstores != 1 or not all(_is_pure(e) for e in enc.value.elts):
                        ok = False
                        break
                    plan.append(("append", p3, list(enc.value.elts)))
                elif isinstance(a0, ast.Tuple) and len(a0.elts) == r:
                    plan.append(("append", p3, list(a0.elts)))
                else:
                    ok = False
                    break
                continue
            # *L[i]  /  L[i][j]
            if isinstance(p1, ast.Subscript) and p1.value is u and isinstance(p1.ctx, ast.Load):
                if isinstance(p2, ast.Starred) and isinstance(p3, ast.Call) and p2 in p3.args:
                    plan.append(("star", p3, p2, p1.slice))
                    continue
                if isinstance(p2, ast.Subscript) and p2.value is p1 and isinstance(p2.slice, ast.Constant) and isinstance(p2.slice.value, int) and 0 <= p2.slice.value < r:
                    plan.append(("item", p2, p1.slice, p2.slice.value))
                    continue
                ok = False
                break
            # zip(*reversed(L)) / zip(*L) as the iterable of a generator that is unpacked into r names
            rev = False
            z = p1
            if isinstance(p1, ast.Call) and isinstance(p1.func, ast.Name) and p1.func.id == "reversed" and len(p1.args) == 1:
                rev, z = True, parent.get(id(p1))
            else:
                z = u
                z = p1 if isinstance(p1, ast.Starred) else None
            star = z if isinstance(z, ast.Starred) else None
            zc = parent.get(id(star)) if star is not None else None
            if not (isinstance(zc, ast.Call) and isinstance(zc.func, ast.Name) and zc.func.id == "zip" and len(zc.args) == 1 and not zc.keywords):
                ok = False
                break
            comp = parent.get(id(zc))
            gen = parent.get(id(comp)) if isinstance(comp, ast.comprehension) else None
            asg = parent.get(id(gen)) if isinstance(gen, ast.GeneratorExp) else (parent.get(id(zc)) if isinstance(parent.get(id(zc)), ast.Assign) else None)
            if isinstance(gen, ast.GeneratorExp) and isinstance(asg, ast.Assign) and asg.value is gen and len(gen.generators) == 1 and not comp.ifs \
                    and isinstance(comp.target, ast.Name) and isinstance(asg.targets[0], ast.Tuple) and len(asg.targets[0].elts) == r \
                    and isinstance(gen.elt, ast.Call) and len(gen.elt.args) == 1 and isinstance(gen.elt.args[0], ast.Name) and gen.elt.args[0].id == comp.target.id \
                    and not gen.elt.keywords:
                final = ("gen", asg, gen.elt.func, rev)
            elif isinstance(asg, ast.Assign) and asg.value is zc and isinstance(asg.targets[0], ast.Tuple) and len(asg.targets[0].elts) == r:
                final = ("zip", asg, None, rev)
            else:
                ok = False
                break
        if not ok or final is None:
            continue
        names = [f"{L}__{j}" for j in range(r)]
        taken = {n.id for n in ast.walk(fn) if isinstance(n, ast.Name)}
        if any(nm in taken for nm in names):
            continue
        # creation
        b0 = body_of(st)
        i0 = next(i for i, x in enumerate(b0) if x is st)
        b0[i0:i0 + 1] = [ast.copy_location(ast.Assign(targets=[ast.Name(names[j], ast.Store())],
                                                       value=ast.List(elts=[e.elts[j] for e in v.elts], ctx=ast.Load())), st) for j in range(r)]
        for item in plan:
            if item[0] == "append":
                _, est, elts = item
                bb = body_of(est)
                ii = next(i for i, x in enumerate(bb) if x is est)
                bb[ii:ii + 1] = [ast.copy_location(ast.Expr(value=ast.Call(func=ast.Attribute(value=ast.Name(names[j], ast.Load()), attr="append", ctx=ast.Load()),
                                                                          args=[copy.deepcopy(elts[j])], keywords=[])), est) for j in range(r)]
            elif item[0] == "star":
                _, call, starred, idx = item
                at = call.args.index(starred)
                call.args[at:at + 1] = [ast.Subscript(value=ast.Name(names[j], ast.Load()), slice=copy.deepcopy(idx), ctx=ast.Load()) for j in range(r)]
            else:
                _, node, idx, j = item
                node.value = ast.Name(names[j], ast.Load())
                node.slice = copy.deepcopy(idx)
        kind, asg, ctor, rev = final
        bb = body_of(asg)
        ii = next(i for i, x in enumerate(bb) if x is asg)
        new = []
        for j, t_ in enumerate(asg.targets[0].elts):
            src_ = ast.Name(names[j], ast.Load())
            val = ast.Call(func=ast.Name("reversed", ast.Load()), args=[src_], keywords=[]) if rev else src_
            if ctor is not None:
                val = ast.Call(func=copy.deepcopy(ctor), args=[val], keywords=[])
            else:
                val = ast.Call(func=ast.Name("tuple", ast.Load()), args=[val], keywords=[])
            new.append(ast.copy_location(ast.Assign(targets=[t_], value=val), asg))
        bb[ii:ii + 1] = new
        for b in _bodies(fn):
            for x in b:
                ast.fix_missing_locations(x)
        k += 1
        parent = {id(c): p_ for p_ in ast.walk(fn) for c in ast.iter_child_nodes(p_)}
    # ---- T34
    for st in [n for n in ast.walk(fn) if isinstance(n, ast.Assign) and len(n.targets) == 1 and isinstance(n.targets[0], ast.Name)]:
        D = st.targets[0].id
        v = st.value
        if not (isinstance(v, ast.Call) and (dotted_name(v.func) or "").split(".")[-1] in ("deque", "Deque") and len(v.args) == 1 and not v.keywords
                and isinstance(v.args[0], ast.Call) and isinstance(v.args[0].func, ast.Name) and v.args[0].func.id == "reversed"
                and len(v.args[0].args) == 1 and isinstance(v.args[0].args[0], ast.Name)):
            continue
        M = v.args[0].args[0].id
        if M in params or D in params:
            continue
        creates = [n for n in ast.walk(fn) if isinstance(n, ast.Assign) and len(n.targets) == 1 and isinstance(n.targets[0], ast.Name)
                   and n.targets[0].id == M]
        if len(creates) != 1 or not (isinstance(creates[0].value, ast.List) and len(creates[0].value.elts) == 1):
            continue
        if sum(1 for n in ast.walk(fn) if isinstance(n, ast.Name) and n.id == D) != 1 + sum(
                1 for n in ast.walk(fn) if isinstance(n, ast.Name) and n.id == D and isinstance(n.ctx, ast.Load)):
            continue
        # D must not be used before this statement (by position in the enclosing block) -- require: D's only store is here and
        # every load of D comes after in the same block
        bD = body_of(st)
        iD = next(i for i, x in enumerate(bD) if x is st)
        after_ids = {id(n) for t in bD[iD + 1:] for n in ast.walk(t)}
        if any(isinstance(n, ast.Name) and n.id == D and isinstance(n.ctx, ast.Load) and id(n) not in after_ids for n in ast.walk(fn)):
            continue
        uses = [n for n in ast.walk(fn) if isinstance(n, ast.Name) and n.id == M and isinstance(n.ctx, ast.Load) and n is not v.args[0].args[0]]
        ok = True
        before_ids = {id(n) for t in bD[:iD] for n in ast.walk(t)}
        for u in uses:
            p1 = parent.get(id(u))
            p2 = parent.get(id(p1)) if p1 is not None else None
            if id(u) not in before_ids:
                ok = False
                break
            if isinstance(p1, ast.Attribute) and p1.attr == "append" and isinstance(p2, ast.Call) and p2.func is p1 and len(p2.args) == 1:
                continue
            if isinstance(p1, ast.Subscript) and p1.value is u and isinstance(p1.ctx, ast.Load) and isinstance(p1.slice, ast.UnaryOp) \
                    and isinstance(p1.slice.op, ast.USub) and isinstance(p1.slice.operand, ast.Constant) and p1.slice.operand.value == 1:
                continue
            ok = False
            break
        if not ok or body_of(creates[0]) is not bD:
            continue
        for u in uses:
            p1 = parent.get(id(u))
            u.id = D
            if isinstance(p1, ast.Attribute):
                p1.attr = "appendleft"
            else:
                p1.slice = ast.Constant(0)
        creates[0].targets[0].id = D
        creates[0].value = ast.Call(func=copy.deepcopy(v.func), args=[creates[0].value], keywords=[])
        bD.remove(st)
        for x in bD:
            ast.fix_missing_locations(x)
        k += 1
        parent = {id(c): p_ for p_ in ast.walk(fn) for c in ast.iter_child_nodes(p_)}
    return k


def _delegating_generators(tree: ast.Module) -> int:
    """T21: a module-level generator whose whole body is `yield from E` hands out exactly the items of E; when every
    call of it is the iterable of a `for` statement or of a comprehension (consumed at once, on the spot), the call
    stands for E itself: the generator becomes `return E` (and is then inlined like any other helper)"""
    k = 0
    for fn in list(tree.body):
        if not isinstance(fn, ast.FunctionDef) or fn.decorator_list:
            continue
        body = list(fn.body)
        if body and isinstance(body[0], ast.Expr) and isinstance(body[0].value, ast.Constant) and isinstance(body[0].value.value, str):
            body = body[1:]
        if not (len(body) == 1 and isinstance(body[0], ast.Expr) and isinstance(body[0].value, ast.YieldFrom)):
            continue
        iters = set()
        for n in ast.walk(tree):
            if isinstance(n, (ast.For, ast.comprehension)):
                iters.add(id(n.iter))
        uses = [n for n in ast.walk(tree) if isinstance(n, ast.Name) and n.id == fn.name and isinstance(n.ctx, ast.Load)]
        calls = [n for n in ast.walk(tree) if isinstance(n, ast.Call) and isinstance(n.func, ast.Name) and n.func.id == fn.name]
        if len(uses) != len(calls) or not calls or not all(id(c) in iters for c in calls):
            continue
        i = fn.body.index(body[0])
        fn.body[i] = ast.copy_location(ast.Return(value=body[0].value.value), body[0])
        fn.returns = None
        k += 1
    if k:
        ast.fix_missing_locations(tree)
    return k


def normalise(tree: ast.Module, modname: str = "") -> Dict[str, int]:
    stats = {"T1 splat": 0, "T2 parallel": 0, "T3 unroll": 0, "T4 tests": 0}
    stats["T21 delegating generator"] = _delegating_generators(tree)
    _fns0 = [n for n in ast.walk(tree) if isinstance(n, (ast.FunctionDef, ast.AsyncFunctionDef))]
    stats["T26 match statement"] = sum(_match_to_if(fn) for fn in _fns0)
    stats["T27 assignment expression"] = sum(_walrus(fn) for fn in _fns0)
    stats["T30 suppress / default first"] = sum(_suppress_and_defaults(fn) for fn in _fns0)
    stats["T23 partial application"] = _partials(tree) + _partials_general(tree)
    fns = [n for n in ast.walk(tree) if isinstance(n, (ast.FunctionDef, ast.AsyncFunctionDef))]
    for fn in fns:
        stats["T3 unroll"] += _literal_tables(fn)
        stats["T3 unroll"] += _unroll(fn)
        stats["T3 unroll"] += _unroll_search(fn)
    stats["T22 list builder"] = sum(_list_builders(fn) for fn in fns)
    stats["T33/T34 pair lists"] = sum(_pair_lists(fn) for fn in fns)
    _AttrCalls().visit(tree)
    nv = _Numpy()
    nv.visit(tree)
    stats["T9 numpy spelling"] = nv.k
    ast.fix_missing_locations(tree)
    stats["T12 read-only attribute alias"] = sum(_attr_aliases(fn, modname) for fn in fns)
    stats["T20 dict-valued attributes"] = _dict_attributes(tree)
    nts = _namedtuples(tree)
    classes = {c.name for c in tree.body if isinstance(c, ast.ClassDef)}
    stats["T24 known None"] = sum(_known_none(fn, classes) for fn in fns)
    stats["T19b NamedTuple methods"] = _lift_methods(tree, nts)
    stats["T19 NamedTuple locals"] = sum(_sroa(fn, nts) for fn in fns)
    if nts:
        cf = _CtorField(nts)
        cf.visit(tree)
        stats["T19 NamedTuple locals"] += cf.k
        ast.fix_missing_locations(tree)
    stats["T18 tuple alias"] = sum(_tuple_alias(fn) for fn in fns)
    stats["T17 counter increments"] = sum(_counter_increments(fn) for fn in fns)
    stats["T16 closure roles"] = _closure_roles(tree, modname)
    stats["T15 module constants"] = _module_constants(tree)
    stats["T14 nested guards"] = sum(_nest_guards(fn) for fn in fns)
    stats["T10 counting loop"] = sum(_count_loops(fn) for fn in fns)
    stats["T11 index loop"] = sum(_index_loops(fn) for fn in fns)
    for fn in fns:
        stats["T2 parallel"] += _split_parallel(fn)
        stats["T1 splat"] += _splat(fn)
        stats["T1 splat"] += _forward_hoisted(fn)
        stats["T4 tests"] += _inline_tests(fn)
    stats["T32 copy coalescing"] = sum(_coalesce_copies(fn) for fn in fns)
    return stats
