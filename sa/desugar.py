"""sa.desugar -- behaviour-preserving normalisation of the parsed tree, applied by the loader before any rule
looks at it.  Each rewrite removes one *spelling* a maintainer may choose freely, so that the rules can be written
against one form; each has a side condition under which it is exactly semantics-preserving, and is skipped (the
tree is left as written) when the condition cannot be established syntactically.

  T1  f(**d) / f(*t) where d / t is a local bound once to a dict / tuple literal (optionally completed by
      d["k"] = v stores in the same block)        ->  f(k=v, ...) / f(a, b, ...)
  T2  a, b = e1, e2  (no later e reads an earlier target)   ->  a = e1; b = e2
  T3  for v in (<literal items>): <simple body>             ->  the body unrolled, v replaced by each item;
      setattr(o, "k", e) / getattr(o, "k") with a constant name  ->  o.k = e / o.k
  T4  c = <pure test over never-reassigned names>; ... if c: ->  the test inlined where c is used as a condition

Nodes created by a rewrite carry the position of the statement they come from."""
from __future__ import annotations

import ast
import copy
from typing import Dict, List, Optional, Set

PURE = (ast.Name, ast.Constant, ast.Attribute, ast.Tuple, ast.List, ast.BinOp, ast.UnaryOp, ast.Compare, ast.BoolOp,
        ast.IfExp, ast.Subscript, ast.Slice, ast.Load, ast.operator, ast.unaryop, ast.cmpop, ast.boolop, ast.expr_context,
        ast.Starred)


def _is_pure(e: ast.AST) -> bool:
    return all(isinstance(n, PURE) for n in ast.walk(e))


def _free(e: ast.AST) -> Set[str]:
    return {n.id for n in ast.walk(e) if isinstance(n, ast.Name)}


def _own_nodes(fn: ast.AST):
    """nodes of a function body, not descending into nested functions / classes / lambdas"""
    stack = list(ast.iter_child_nodes(fn))
    while stack:
        n = stack.pop()
        yield n
        if isinstance(n, (ast.FunctionDef, ast.AsyncFunctionDef, ast.ClassDef, ast.Lambda)):
            continue
        stack.extend(ast.iter_child_nodes(n))


def _stores(fn: ast.AST) -> Dict[str, List[ast.AST]]:
    """name -> nodes storing it (assignment targets, loop targets, with/except names, aug-assign, del, global)"""
    out: Dict[str, List[ast.AST]] = {}
    for n in _own_nodes(fn):
        if isinstance(n, ast.Name) and isinstance(n.ctx, (ast.Store, ast.Del)):
            out.setdefault(n.id, []).append(n)
        elif isinstance(n, ast.ExceptHandler) and n.name:
            out.setdefault(n.name, []).append(n)
        elif isinstance(n, (ast.Global, ast.Nonlocal)):
            for k in n.names:
                out.setdefault(k, []).append(n)
        elif isinstance(n, (ast.FunctionDef, ast.ClassDef)):
            out.setdefault(n.name, []).append(n)
    # names written by nested closures through nonlocal
    for n in ast.walk(fn):
        if isinstance(n, ast.Nonlocal):
            for k in n.names:
                out.setdefault(k, []).append(n)
    return out


def _attr_stores(fn: ast.AST) -> Set[str]:
    out = set()
    for n in ast.walk(fn):
        if isinstance(n, ast.Attribute) and isinstance(n.ctx, (ast.Store, ast.Del)):
            try:
                out.add(ast.unparse(n))
            except Exception:
                pass
    return out


def _loads(fn: ast.AST, name: str) -> List[ast.Name]:
    return [n for n in ast.walk(fn) if isinstance(n, ast.Name) and n.id == name and isinstance(n.ctx, ast.Load)]


def _bodies(fn: ast.AST):
    """every statement list of the function (not of nested functions)"""
    for n in [fn] + [x for x in _own_nodes(fn)]:
        for fld in ("body", "orelse", "finalbody"):
            b = getattr(n, fld, None)
            if isinstance(b, list) and b and isinstance(b[0], ast.stmt):
                yield b
        if isinstance(n, ast.Try):
            for h in n.handlers:
                yield h.body


class _Subst(ast.NodeTransformer):
    def __init__(self, m: Dict[str, ast.expr]):
        self.m = m

    def visit_Name(self, n: ast.Name):
        if isinstance(n.ctx, ast.Load) and n.id in self.m:
            return ast.copy_location(copy.deepcopy(self.m[n.id]), n)
        return n

    def visit_FunctionDef(self, n):
        return n

    def visit_Lambda(self, n):
        return n


# ---------------------------------------------------------------------------------------------- T2
def _split_parallel(fn: ast.AST) -> int:
    k = 0
    for body in _bodies(fn):
        i = 0
        while i < len(body):
            s = body[i]
            if isinstance(s, ast.Assign) and len(s.targets) == 1 and isinstance(s.targets[0], (ast.Tuple, ast.List)) \
                    and isinstance(s.value, (ast.Tuple, ast.List)) and len(s.targets[0].elts) == len(s.value.elts) \
                    and not any(isinstance(e, ast.Starred) for e in list(s.targets[0].elts) + list(s.value.elts)):
                tg, vs = s.targets[0].elts, s.value.elts
                ok = True
                for a in range(len(tg)):
                    written = _free(tg[a])       # names stored or objects written through
                    for b in range(a + 1, len(vs)):
                        if written & _free(vs[b]):
                            ok = False
                    # a subscript / attribute target whose index is computed from an earlier target
                    for b in range(a + 1, len(tg)):
                        if not isinstance(tg[b], ast.Name) and (written & _free(tg[b])) and isinstance(tg[a], ast.Name):
                            ok = False
                # calls on the right may observe an earlier store (through an object): only split pure right sides,
                # or calls when every target is a plain local name
                if not all(_is_pure(v) for v in vs) and not all(isinstance(t, ast.Name) for t in tg):
                    ok = False
                if ok:
                    new = [ast.copy_location(ast.Assign(targets=[t], value=v), s) for t, v in zip(tg, vs)]
                    for n_ in new:
                        ast.fix_missing_locations(n_)
                    body[i:i + 1] = new
                    i += len(new)
                    k += 1
                    continue
            i += 1
    return k


# ---------------------------------------------------------------------------------------------- T3
def _contains(stmts, kinds) -> bool:
    return any(isinstance(n, kinds) for s in stmts for n in ast.walk(s))


def _unroll(fn: ast.AST) -> int:
    k = 0
    for body in _bodies(fn):
        i = 0
        while i < len(body):
            s = body[i]
            if isinstance(s, ast.For) and not s.orelse and isinstance(s.iter, (ast.Tuple, ast.List)) and 1 <= len(s.iter.elts) <= 8 \
                    and not _contains(s.body, (ast.Break, ast.Continue, ast.Return, ast.For, ast.While, ast.FunctionDef, ast.Lambda,
                                               ast.Try, ast.With)):
                tnames = [s.target.id] if isinstance(s.target, ast.Name) else \
                    [e.id for e in s.target.elts] if isinstance(s.target, ast.Tuple) and all(isinstance(e, ast.Name) for e in s.target.elts) else None
                items = []
                ok = tnames is not None
                for it in s.iter.elts if ok else []:
                    parts = [it] if isinstance(s.target, ast.Name) else list(it.elts) if isinstance(it, (ast.Tuple, ast.List)) else None
                    if parts is None or len(parts) != len(tnames) or not all(_is_pure(p) and not isinstance(p, ast.Starred) for p in parts):
                        ok = False
                        break
                    items.append(dict(zip(tnames, parts)))
                # the loop variables must not be stored in the body nor read after the loop
                if ok:
                    st = {n.id for b_ in s.body for n in ast.walk(b_) if isinstance(n, ast.Name) and isinstance(n.ctx, ast.Store)}
                    later = {n.id for t in body[i + 1:] for n in ast.walk(t) if isinstance(n, ast.Name)}
                    if (st & set(tnames)) or (later & set(tnames)):
                        ok = False
                    # what the items read must not be written by the body
                    if ok and any(_free(p) & st for m in items for p in m.values()):
                        ok = False
                if ok:
                    new: List[ast.stmt] = []
                    for m in items:
                        for b_ in s.body:
                            c = _Subst(m).visit(copy.deepcopy(b_))
                            ast.copy_location(c, s)
                            new.append(c)
                    for n_ in new:
                        ast.fix_missing_locations(n_)
                    body[i:i + 1] = new
                    i += len(new)
                    k += 1
                    continue
            i += 1
    return k


class _AttrCalls(ast.NodeTransformer):
    """getattr(o, "k") -> o.k ; statement setattr(o, "k", e) -> o.k = e (constant, identifier-like names only)"""

    def visit_Expr(self, s: ast.Expr):
        self.generic_visit(s)
        c = s.value
        if isinstance(c, ast.Call) and isinstance(c.func, ast.Name) and c.func.id == "setattr" and len(c.args) == 3 and not c.keywords \
                and isinstance(c.args[1], ast.Constant) and isinstance(c.args[1].value, str) and c.args[1].value.isidentifier():
            tgt = ast.Attribute(value=c.args[0], attr=c.args[1].value, ctx=ast.Store())
            a = ast.copy_location(ast.Assign(targets=[tgt], value=c.args[2]), s)
            ast.fix_missing_locations(a)
            return a
        return s

    def visit_Call(self, c: ast.Call):
        self.generic_visit(c)
        if isinstance(c.func, ast.Name) and c.func.id == "getattr" and len(c.args) == 2 and not c.keywords \
                and isinstance(c.args[1], ast.Constant) and isinstance(c.args[1].value, str) and c.args[1].value.isidentifier():
            a = ast.copy_location(ast.Attribute(value=c.args[0], attr=c.args[1].value, ctx=ast.Load()), c)
            ast.fix_missing_locations(a)
            return a
        return c


# ---------------------------------------------------------------------------------------------- T1
def _splat(fn: ast.AST) -> int:
    k = 0
    stores = _stores(fn)
    for body in _bodies(fn):
        for i, s in enumerate(list(body)):
            if not (isinstance(s, ast.Assign) and len(s.targets) == 1 and isinstance(s.targets[0], ast.Name)):
                continue
            nm = s.targets[0].id
            if len(stores.get(nm, [])) != 1:
                continue
            v = s.value
            kind = None
            if isinstance(v, ast.Dict) and all(isinstance(kk, ast.Constant) and isinstance(kk.value, str) for kk in v.keys):
                kind = "dict"
                kws = [(kk.value, vv) for kk, vv in zip(v.keys, v.values)]
            elif isinstance(v, ast.Call) and isinstance(v.func, ast.Name) and v.func.id == "dict" and not v.args and all(q.arg for q in v.keywords):
                kind = "dict"
                kws = [(q.arg, q.value) for q in v.keywords]
            elif isinstance(v, (ast.Tuple, ast.List)):
                kind = "seq"
                elts = list(v.elts)
            if kind is None:
                continue
            loads = _loads(fn, nm)
            if not loads:
                continue
            # follow-up stores d["k"] = e directly after the creation, in the same block
            j = body.index(s) + 1
            extra_stmts = []
            while kind == "dict" and j < len(body) and isinstance(body[j], ast.Assign) and len(body[j].targets) == 1 \
                    and isinstance(body[j].targets[0], ast.Subscript) and isinstance(body[j].targets[0].value, ast.Name) \
                    and body[j].targets[0].value.id == nm and isinstance(body[j].targets[0].slice, ast.Constant) \
                    and isinstance(body[j].targets[0].slice.value, str) and nm not in _free(body[j].value):
                kws = [(a, b) for a, b in kws if a != body[j].targets[0].slice.value] + [(body[j].targets[0].slice.value, body[j].value)]
                extra_stmts.append(body[j])
                j += 1
            # every use of the name must be a splat at a call (or the follow-up stores above)
            uses_ok = True
            splats = []
            for c in ast.walk(fn):
                if isinstance(c, ast.Call):
                    for q in c.keywords:
                        if q.arg is None and isinstance(q.value, ast.Name) and q.value.id == nm and kind == "dict":
                            splats.append((c, q))
                    for a in c.args:
                        if isinstance(a, ast.Starred) and isinstance(a.value, ast.Name) and a.value.id == nm and kind == "seq":
                            splats.append((c, a))
            accounted = len(splats) + len(extra_stmts)
            if not splats or accounted != len(loads):
                continue
            vals = [b for _, b in kws] if kind == "dict" else elts
            pure = all(_is_pure(x) for x in vals)
            if pure:
                # the values may be re-evaluated at each call: what they read must never change after the creation
                fr = set().union(*[_free(x) for x in vals]) if vals else set()
                astores = _attr_stores(fn)
                changed = any(st_.lineno > s.lineno for n_ in fr for st_ in stores.get(n_, []) if hasattr(st_, "lineno")) or \
                    any(isinstance(n_, ast.Attribute) and ast.unparse(n_) in astores for x in vals for n_ in ast.walk(x))
                if changed:
                    continue
            else:
                # values with calls: only when the single splat is the very next statement of the same block
                if len(splats) != 1 or j >= len(body) or not any(splats[0][0] is n_ for n_ in ast.walk(body[j])):
                    continue
                # nothing else in that statement may be evaluated before the call's arguments
                host = body[j]
                call_ = splats[0][0]
                first = host.value if isinstance(host, (ast.Assign, ast.Expr, ast.Return, ast.AnnAssign)) else None
                if first is not call_:
                    continue
            for c, where in splats:
                if kind == "dict":
                    idx = c.keywords.index(where)
                    c.keywords[idx:idx + 1] = [ast.copy_location(ast.keyword(arg=a, value=copy.deepcopy(b)), c) for a, b in kws]
                else:
                    idx = c.args.index(where)
                    c.args[idx:idx + 1] = [copy.deepcopy(e) for e in elts]
                ast.fix_missing_locations(c)
            for t in [s] + extra_stmts:
                body.remove(t)
            if not body:
                body.append(ast.copy_location(ast.Pass(), s))
            k += 1
    return k


# ---------------------------------------------------------------------------------------------- T4
def _inline_tests(fn: ast.AST) -> int:
    k = 0
    stores = _stores(fn)
    astores = _attr_stores(fn)
    params = set()
    if isinstance(fn, (ast.FunctionDef, ast.AsyncFunctionDef)):
        a = fn.args
        params = {p.arg for p in a.posonlyargs + a.args + a.kwonlyargs}
    cands: Dict[str, ast.expr] = {}
    for n in _own_nodes(fn):
        if isinstance(n, (ast.Assign, ast.AnnAssign)) and n.value is not None:
            t = n.targets[0] if isinstance(n, ast.Assign) and len(n.targets) == 1 else getattr(n, "target", None)
            is_test = isinstance(n.value, (ast.Compare, ast.BoolOp)) or \
                (isinstance(n.value, ast.UnaryOp) and isinstance(n.value.op, ast.Not))
            if isinstance(t, ast.Name) and len(stores.get(t.id, [])) == 1 and t.id not in params and is_test:
                v = n.value
                if not _is_pure(v):
                    continue
                fr = _free(v)
                if any(stores.get(x) for x in fr):
                    continue        # reads something that is (re)assigned in this function
                if any(isinstance(x, ast.Attribute) and ast.unparse(x) in astores for x in ast.walk(v)):
                    continue
                if any(isinstance(x, ast.Subscript) for x in ast.walk(v)):
                    continue
                cands[t.id] = v
    if not cands:
        return 0

    def in_test(test: ast.expr) -> ast.expr:
        nonlocal k
        if isinstance(test, ast.Name) and test.id in cands:
            k += 1
            return ast.copy_location(copy.deepcopy(cands[test.id]), test)
        if isinstance(test, ast.UnaryOp) and isinstance(test.op, ast.Not):
            test.operand = in_test(test.operand)
        elif isinstance(test, ast.BoolOp):
            test.values = [in_test(x) for x in test.values]
        return test
    for n in _own_nodes(fn):
        if isinstance(n, (ast.If, ast.While, ast.IfExp, ast.Assert)):
            n.test = in_test(n.test)
            ast.fix_missing_locations(n)
    return k


def normalise(tree: ast.Module) -> Dict[str, int]:
    stats = {"T1 splat": 0, "T2 parallel": 0, "T3 unroll": 0, "T4 tests": 0}
    fns = [n for n in ast.walk(tree) if isinstance(n, (ast.FunctionDef, ast.AsyncFunctionDef))]
    for fn in fns:
        stats["T3 unroll"] += _unroll(fn)
    _AttrCalls().visit(tree)
    ast.fix_missing_locations(tree)
    for fn in fns:
        stats["T2 parallel"] += _split_parallel(fn)
        stats["T1 splat"] += _splat(fn)
        stats["T4 tests"] += _inline_tests(fn)
    return stats
