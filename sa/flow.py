"""sa.flow -- generic forward dataflow on a CFG, definitions/uses, reaching definitions."""
from __future__ import annotations

import ast
from typing import Callable, Dict, FrozenSet, Iterable, List, Optional, Set, Tuple

from .cfg import CFG, Node
from .core import dotted, walk_no_nested


# ------------------------------------------------------------ defs and uses
def target_keys(t: ast.expr) -> List[Tuple[str, ast.expr, str]]:
    """(key, target node, how) for an assignment target.
    how: 'bind' (name or attribute chain rebound), 'store' (subscript store
    into the object named key)."""
    out: List[Tuple[str, ast.expr, str]] = []
    if isinstance(t, (ast.Tuple, ast.List)):
        for e in t.elts:
            out += target_keys(e)
    elif isinstance(t, ast.Starred):
        out += target_keys(t.value)
    elif isinstance(t, ast.Subscript):
        d = base_key(t.value)
        if d:
            out.append((d, t, "store"))
    else:
        d = dotted(t)
        if d:
            out.append((d, t, "bind"))
    return out


def base_key(e: ast.expr) -> Optional[str]:
    """name/attribute chain under subscripts and .flat/.T views: x[i].T -> x"""
    while True:
        if isinstance(e, ast.Subscript):
            e = e.value
        elif isinstance(e, ast.Attribute) and e.attr in ("flat", "T"):
            e = e.value
        else:
            break
    return dotted(e)


def node_defs(n: Node) -> List[Tuple[str, Optional[ast.expr], str]]:
    """(key, value expression or None, how) defined at node n.
    how in bind / store / aug / for / with / def / import / handler"""
    s = n.ast
    out: List[Tuple[str, Optional[ast.expr], str]] = []
    if n.kind == "stmt":
        if isinstance(s, ast.Assign):
            for t in s.targets:
                if isinstance(t, (ast.Tuple, ast.List)) and isinstance(s.value, (ast.Tuple, ast.List)) \
                        and len(t.elts) == len(s.value.elts):
                    for te, ve in zip(t.elts, s.value.elts):
                        for k, _, how in target_keys(te):
                            out.append((k, ve, how))
                else:
                    for k, _, how in target_keys(t):
                        out.append((k, s.value, how))
        elif isinstance(s, ast.AnnAssign):
            if s.value is not None:
                for k, _, how in target_keys(s.target):
                    out.append((k, s.value, how))
        elif isinstance(s, ast.AugAssign):
            for k, _, how in target_keys(s.target):
                out.append((k, s.value, "aug" if how == "bind" else "store"))
        elif isinstance(s, (ast.FunctionDef, ast.ClassDef)):
            out.append((s.name, None, "def"))
        elif isinstance(s, (ast.Import, ast.ImportFrom)):
            for a in s.names:
                out.append(((a.asname or a.name).split(".")[0], None, "import"))
        elif isinstance(s, ast.Delete):
            for t in s.targets:
                for k, _, how in target_keys(t):
                    out.append((k, None, "bind"))
    elif n.kind == "for":
        for k, _, how in target_keys(s.target):
            out.append((k, s.iter, "for"))
    elif n.kind == "with":
        for it in s.items:
            if it.optional_vars is not None:
                for k, _, how in target_keys(it.optional_vars):
                    out.append((k, it.context_expr, "with"))
    elif n.kind == "handler":
        if s.name:
            out.append((s.name, None, "handler"))
    return out


def node_exprs(n: Node) -> List[ast.AST]:
    """expressions evaluated at node n (no nested function bodies)"""
    s = n.ast
    if s is None:
        return []
    if n.kind == "test":
        return [s]
    if n.kind == "for":
        return [s.iter]
    if n.kind == "with":
        return [it.context_expr for it in s.items]
    if n.kind == "handler":
        return [s.type] if s.type is not None else []
    if isinstance(s, (ast.FunctionDef, ast.ClassDef)):
        return list(s.decorator_list)
    return [s]


def node_uses(n: Node) -> Set[str]:
    """keys (names and attribute chains) read at n"""
    out: Set[str] = set()
    for e in node_exprs(n):
        for sub in walk_no_nested(e):
            if isinstance(sub, ast.Name) and isinstance(sub.ctx, ast.Load):
                out.add(sub.id)
            elif isinstance(sub, ast.Attribute):
                d = dotted(sub)
                if d and isinstance(sub.ctx, ast.Load):
                    out.add(d)
    s = n.ast
    if n.kind == "stmt" and isinstance(s, ast.AugAssign):
        d = base_key(s.target) if isinstance(s.target, ast.Subscript) else dotted(s.target)
        if d:
            out.add(d)
    return out


def node_calls(n: Node) -> List[ast.Call]:
    out: List[ast.Call] = []
    for e in node_exprs(n):
        for sub in walk_no_nested(e):
            if isinstance(sub, ast.Call):
                out.append(sub)
    return out


# ------------------------------------------------------------- generic solver
def forward(cfg: CFG, init, transfer: Callable, join: Callable,
            refine: Optional[Callable] = None, follow_exc: bool = True):
    """Forward dataflow. `transfer(node, state_in) -> state_out`;
    `join(a, b) -> state`; `refine(node, label, state_out) -> state or None`
    (None = edge infeasible). States must support ==. Returns (IN, OUT)."""
    IN: Dict[Node, object] = {cfg.entry: init}
    OUT: Dict[Node, object] = {}
    work = [cfg.entry]
    inwork = {cfg.entry}
    guard = 0
    while work:
        guard += 1
        if guard > 200000:
            raise RuntimeError("dataflow did not converge")
        n = work.pop(0)
        inwork.discard(n)
        out = transfer(n, IN[n])
        OUT[n] = out
        for b, lab in cfg.succ[n]:
            if lab == "exc" and not follow_exc:
                continue
            st = out if refine is None else refine(n, lab, out)
            if lab == "exc":
                # the statement may have failed part-way: join with its input too
                st = join(st, IN[n]) if st is not None else IN[n]
            if st is None:
                continue
            new = st if b not in IN else join(IN[b], st)
            if b not in IN or new != IN[b]:
                IN[b] = new
                if b not in inwork:
                    work.append(b)
                    inwork.add(b)
    return IN, OUT


# --------------------------------------------------------- reaching definitions
class ReachingDefs:
    """IN[node][key] = frozenset of defining nodes (cfg.entry = parameter /
    free variable)."""

    def __init__(self, cfg: CFG):
        self.cfg = cfg

        def transfer(n: Node, st: Dict[str, FrozenSet[Node]]):
            defs = node_defs(n)
            if not defs:
                return st
            st = dict(st)
            for k, _, how in defs:
                if how in ("store",):
                    # element store: weak update (object keeps its identity)
                    st[k] = st.get(k, frozenset([cfg.entry])) | {n}
                else:
                    st[k] = frozenset([n])
                    # rebinding a base name invalidates attribute chains on it
                    pre = k + "."
                    for k2 in [x for x in st if x.startswith(pre)]:
                        del st[k2]
            return st

        E = frozenset([cfg.entry])

        def join(a, b):
            if a is b:
                return a
            return {k: a.get(k, E) | b.get(k, E) for k in set(a) | set(b)}

        self.IN, self.OUT = forward(cfg, {}, transfer, join)

    def defs_at(self, n: Node, key: str) -> FrozenSet[Node]:
        st = self.IN.get(n, {})
        if key in st:
            return st[key]
        return frozenset([self.cfg.entry])

    def value_exprs(self, n: Node, key: str) -> List[Tuple[Node, Optional[ast.expr], str]]:
        """(def node, value expr, how) for each definition of key reaching n"""
        out = []
        for d in self.defs_at(n, key):
            if d is self.cfg.entry:
                out.append((d, None, "param"))
                continue
            for k, v, how in node_defs(d):
                if k == key:
                    out.append((d, v, how))
        return out


# ------------------------------------------------------------- expression expansion
class _Subst(ast.NodeTransformer):
    def __init__(self, m):
        self.m = m

    def visit_Name(self, node):
        if isinstance(node.ctx, ast.Load) and node.id in self.m:
            import copy as _c
            return _c.deepcopy(self.m[node.id])
        return node


class Expander:
    """Rewrites an expression so that local temporaries are replaced by their defining expressions
    and calls of small straight-line package helpers by their (argument-substituted) return
    expression.  A name is only replaced when exactly one plain binding reaches the use and every
    name occurring in that binding has the same reaching definitions at the binding and at the use
    (so the value is the same).  Used by the shape rules so that `t = e; f(t)` and `f(e)` look alike."""

    def __init__(self, ctx, f, depth: int = 8, only=None, inline_calls: bool = True):
        """only: optional predicate on the defining expression; names whose definition does not
        satisfy it are left alone (e.g. inline masks and selections but not whole computations)"""
        self.ctx, self.f, self.depth, self.only = ctx, f, depth, only
        self.inline_calls = inline_calls      # False: calls of package helpers stay calls (value numbering by call)
        self.cfg = ctx.cfg(f)
        self.rd = ctx.rd(f)
        # names whose object is written in place somewhere in the function are never replaced
        # (their defining expression no longer describes them after the write)
        self.mutated = set()
        from . import tables as _T
        for x in walk_no_nested(f.node):
            if isinstance(x, ast.Call) and isinstance(x.func, ast.Attribute) and isinstance(x.func.value, ast.Name) \
                    and x.func.attr in _T.MUTATING_METHODS:
                self.mutated.add(x.func.value.id)
            if isinstance(x, (ast.Assign, ast.AugAssign)):
                for t in (x.targets if isinstance(x, ast.Assign) else [x.target]):
                    if isinstance(t, ast.Subscript):
                        b = base_key(t.value)
                        if b:
                            self.mutated.add(b.split(".")[0])
                    if isinstance(x, ast.AugAssign) and isinstance(t, ast.Name):
                        self.mutated.add(t.id)

    def expand_at(self, site: ast.AST, e: ast.expr) -> ast.expr:
        try:
            n = self.cfg.node_of(site)
        except Exception:
            # e.g. `not a < b`: the CFG keeps the atoms of a condition, look for one of them
            n = None
            inside = {id(x) for x in ast.walk(site)}
            for m in self.cfg.nodes:
                if m.ast is not None and id(m.ast) in inside:
                    n = m
                    break
            if n is None:
                return e
        return self.expand(n, e, self.depth)

    def expand(self, n: Node, e: ast.expr, depth: int) -> ast.expr:
        import copy as _c
        if depth <= 0:
            return e
        exp = self

        class T(ast.NodeTransformer):
            def visit_Name(self, node):
                if not isinstance(node.ctx, ast.Load) or node.id in exp.mutated:
                    return node
                vals = exp.rd.value_exprs(n, node.id)
                if len(vals) > 1 and all(v_ is not None and how_ == "bind" for _, v_, how_ in vals) and \
                        len({ast.dump(v_) for _, v_, _ in vals}) == 1 and not isinstance(vals[0][1], (ast.Tuple, ast.List)) and \
                        all(isinstance(d_.ast, (ast.Assign, ast.AnnAssign)) and isinstance(
                            (d_.ast.targets[0] if isinstance(d_.ast, ast.Assign) else d_.ast.target), ast.Name) for d_, _, _ in vals):
                    # the same expression bound on every path (e.g. recomputed at the end of each loop cycle): it describes
                    # the name at the use if, from each binding, the use is reached without any of its operands being rebound
                    v0 = vals[0][1]
                    if exp.only is not None and not exp.only(v0):
                        return node
                    opnames = {x.id for x in ast.walk(v0) if isinstance(x, ast.Name) and isinstance(x.ctx, ast.Load)}
                    if node.id in opnames or (opnames & exp.mutated):
                        return node
                    redefs = [m for m in exp.cfg.nodes if any(k in opnames for k, _, _ in node_defs(m))]
                    own = {d_ for d_, _, _ in vals}
                    for d_, _, _ in vals:
                        after_d = exp.cfg.reachable(d_, follow_exc=False, avoid=lambda m: m in own and m is not d_)
                        for m in redefs:
                            if m in after_d and m is not d_:
                                # is the use reachable from m without passing a binding of the name again?
                                if n in exp.cfg.reachable(m, follow_exc=False, avoid=lambda q: q in own) or m is n:
                                    return node
                    return _c.deepcopy(v0)
                if len(vals) != 1:
                    return node
                d, v, how = vals[0]
                if how != "bind" or v is None or isinstance(v, (ast.Tuple, ast.List)):
                    return node
                is_unpack = isinstance(d.ast, ast.Assign) and isinstance(d.ast.targets[0], ast.Tuple)
                if exp.only is not None and not is_unpack and not exp.only(v):
                    return node
                # the statement must bind this name alone (not a tuple unpacking of a call)
                s = d.ast
                tg = s.targets[0] if isinstance(s, ast.Assign) and len(s.targets) == 1 else getattr(s, "target", None)
                if isinstance(tg, ast.Tuple) and isinstance(s, ast.Assign):
                    # a, b = <helper returning a tuple>(...)  -> the matching element of the inlined return
                    names = [t.id if isinstance(t, ast.Name) else None for t in tg.elts]
                    if node.id not in names:
                        return node
                    rhs = s.value
                    if isinstance(rhs, ast.Call):
                        rhs = exp._inline_call(rhs, depth - 1)
                    if isinstance(rhs, ast.Tuple) and len(rhs.elts) == len(names):
                        v = rhs.elts[names.index(node.id)]
                        for sub in ast.walk(v):
                            if isinstance(sub, ast.Name) and isinstance(sub.ctx, ast.Load):
                                if sub.id in names or exp.rd.defs_at(d, sub.id) != exp.rd.defs_at(n, sub.id):
                                    return node
                        return exp.expand(d, _c.deepcopy(v), depth - 1)
                    return node
                if not isinstance(tg, ast.Name) or tg.id != node.id:
                    return node
                for sub in ast.walk(v):
                    if isinstance(sub, ast.Name) and isinstance(sub.ctx, ast.Load) and sub.id != node.id:
                        if exp.rd.defs_at(d, sub.id) != exp.rd.defs_at(n, sub.id):
                            return node
                    if isinstance(sub, ast.Name) and sub.id == node.id:
                        return node
                return exp.expand(d, _c.deepcopy(v), depth - 1)

            def _is_object(self, name_node):
                """a name bound to the result of a call (constructor, factory): an object reference, not a formula"""
                vals = exp.rd.value_exprs(n, name_node.id)
                if len(vals) != 1 or vals[0][1] is None:
                    return True
                v_ = vals[0][1]
                if isinstance(v_, ast.Call):
                    from .core import dotted as _d
                    # the result of a numpy / scipy function is a value (an array), not an object with identity of its own
                    return not (_d(v_.func) or "").startswith(("np.", "numpy.", "sp.", "scipy."))
                return False

            def visit_Attribute(self, node):
                # `obj.attr`: an object reference is not replaced by the call that created it
                if isinstance(node.value, ast.Name) and self._is_object(node.value):
                    return node
                return self.generic_visit(node)

            def visit_Call(self, node):
                if isinstance(node.func, ast.Attribute) and isinstance(node.func.value, ast.Name) and self._is_object(node.func.value):
                    # method call on a named object: expand the arguments only
                    node.args = [self.visit(a) for a in node.args]
                    for k in node.keywords:
                        k.value = self.visit(k.value)
                    return node
                node = self.generic_visit(node)
                r = exp._inline_call(node, depth) if exp.inline_calls else None
                return r if r is not None else node
        return T().visit(_c.deepcopy(e))

    def _inline_call(self, c: ast.Call, depth: int) -> Optional[ast.expr]:
        from .core import bind_args, AnalysisError, dotted
        if depth <= 0 or not isinstance(c.func, ast.Name):
            return None
        repo = self.ctx.repo
        q = repo.resolve_callee(self.f, c)
        g = repo.funcs.get(q) if q else None
        if g is None or g.cls is not None:
            return None
        body = [s for s in g.node.body if not (isinstance(s, ast.Expr) and isinstance(s.value, ast.Constant))]
        if not body or not isinstance(body[-1], ast.Return) or body[-1].value is None:
            return None
        if not all(isinstance(s, (ast.Assign, ast.AnnAssign)) for s in body[:-1]) or len(body) > 6:
            return None
        if any(isinstance(s, ast.Assign) and not isinstance(s.targets[0], ast.Name) for s in body[:-1]):
            return None
        try:
            b = bind_args(c, g.node)
        except AnalysisError:
            return None
        if set(b) != set(g.params) - set(g.defaults()) and not set(g.params) - set(g.defaults()) <= set(b):
            return None
        ge = Expander(self.ctx, g, depth - 1)
        ret = ge.expand_at(body[-1], body[-1].value)
        m = dict(b)
        for p, dflt in g.defaults().items():
            m.setdefault(p, dflt)
        return _Subst(m).visit(ret)


def selection_like(v: ast.expr) -> bool:
    """masks, selections and aliases: d != 0, d[mask], a & b, ~m, other_name"""
    if isinstance(v, (ast.Subscript, ast.Compare, ast.Name)):
        return True
    if isinstance(v, ast.BinOp) and isinstance(v.op, (ast.BitAnd, ast.BitOr)):
        return True
    if isinstance(v, ast.UnaryOp) and isinstance(v.op, ast.Invert):
        return True
    if isinstance(v, ast.Attribute):
        return True
    return False


def bound_ratio_like(v: ast.expr) -> bool:
    """selection_like, or a difference / quotient that mentions a bound: (ub - x)[m] / d[m], ub - x ... (the two
    branches of a bound ratio bound to names before the np.where)"""
    if selection_like(v):
        return True
    if isinstance(v, ast.BinOp) and isinstance(v.op, (ast.Sub, ast.Div)):
        return any(isinstance(x, ast.Name) and x.id in ("lb", "ub") for x in ast.walk(v)) and \
            not any(isinstance(x, ast.Call) for x in ast.walk(v))
    return False
