"""sa.flow -- generic forward dataflow on a CFG, definitions/uses, reaching definitions."""
from __future__ import annotations

import ast
from typing import Callable, Dict, FrozenSet, Iterable, List, Optional, Set, Tuple

from .cfg import CFG, Node
from .core import dotted, walk_no_nested


# ------------------------------------------------------------ defs and uses
def target_keys(t: ast.expr) -> List[Tuple[str, ast.expr, str]]:
    """(key, target node, how) for an assignment target.
    how: 'bind' (name or attribute chain rebound), 'store' (subscript store
    into the object named key)."""
    out: List[Tuple[str, ast.expr, str]] = []
    if isinstance(t, (ast.Tuple, ast.List)):
        for e in t.elts:
            out += target_keys(e)
    elif isinstance(t, ast.Starred):
        out += target_keys(t.value)
    elif isinstance(t, ast.Subscript):
        d = base_key(t.value)
        if d:
            out.append((d, t, "store"))
    else:
        d = dotted(t)
        if d:
            out.append((d, t, "bind"))
    return out


def base_key(e: ast.expr) -> Optional[str]:
    """name/attribute chain under subscripts and .flat/.T views: x[i].T -> x"""
    while True:
        if isinstance(e, ast.Subscript):
            e = e.value
        elif isinstance(e, ast.Attribute) and e.attr in ("flat", "T"):
            e = e.value
        else:
            break
    return dotted(e)


def node_defs(n: Node) -> List[Tuple[str, Optional[ast.expr], str]]:
    """(key, value expression or None, how) defined at node n.
    how in bind / store / aug / for / with / def / import / handler"""
    s = n.ast
    out: List[Tuple[str, Optional[ast.expr], str]] = []
    if n.kind == "stmt":
        if isinstance(s, ast.Assign):
            for t in s.targets:
                if isinstance(t, (ast.Tuple, ast.List)) and isinstance(s.value, (ast.Tuple, ast.List)) \
                        and len(t.elts) == len(s.value.elts):
                    for te, ve in zip(t.elts, s.value.elts):
                        for k, _, how in target_keys(te):
                            out.append((k, ve, how))
                else:
                    for k, _, how in target_keys(t):
                        out.append((k, s.value, how))
        elif isinstance(s, ast.AnnAssign):
            if s.value is not None:
                for k, _, how in target_keys(s.target):
                    out.append((k, s.value, how))
        elif isinstance(s, ast.AugAssign):
            for k, _, how in target_keys(s.target):
                out.append((k, s.value, "aug" if how == "bind" else "store"))
        elif isinstance(s, (ast.FunctionDef, ast.ClassDef)):
            out.append((s.name, None, "def"))
        elif isinstance(s, (ast.Import, ast.ImportFrom)):
            for a in s.names:
                out.append(((a.asname or a.name).split(".")[0], None, "import"))
        elif isinstance(s, ast.Delete):
            for t in s.targets:
                for k, _, how in target_keys(t):
                    out.append((k, None, "bind"))
    elif n.kind == "for":
        for k, _, how in target_keys(s.target):
            out.append((k, s.iter, "for"))
    elif n.kind == "with":
        for it in s.items:
            if it.optional_vars is not None:
                for k, _, how in target_keys(it.optional_vars):
                    out.append((k, it.context_expr, "with"))
    elif n.kind == "handler":
        if s.name:
            out.append((s.name, None, "handler"))
    return out


def node_exprs(n: Node) -> List[ast.AST]:
    """expressions evaluated at node n (no nested function bodies)"""
    s = n.ast
    if s is None:
        return []
    if n.kind == "test":
        return [s]
    if n.kind == "for":
        return [s.iter]
    if n.kind == "with":
        return [it.context_expr for it in s.items]
    if n.kind == "handler":
        return [s.type] if s.type is not None else []
    if isinstance(s, (ast.FunctionDef, ast.ClassDef)):
        return list(s.decorator_list)
    return [s]


def node_uses(n: Node) -> Set[str]:
    """keys (names and attribute chains) read at n"""
    out: Set[str] = set()
    for e in node_exprs(n):
        for sub in walk_no_nested(e):
            if isinstance(sub, ast.Name) and isinstance(sub.ctx, ast.Load):
                out.add(sub.id)
            elif isinstance(sub, ast.Attribute):
                d = dotted(sub)
                if d and isinstance(sub.ctx, ast.Load):
                    out.add(d)
    s = n.ast
    if n.kind == "stmt" and isinstance(s, ast.AugAssign):
        d = base_key(s.target) if isinstance(s.target, ast.Subscript) else dotted(s.target)
        if d:
            out.add(d)
    return out


def node_calls(n: Node) -> List[ast.Call]:
    out: List[ast.Call] = []
    for e in node_exprs(n):
        for sub in walk_no_nested(e):
            if isinstance(sub, ast.Call):
                out.append(sub)
    return out


# ------------------------------------------------------------- generic solver
def forward(cfg: CFG, init, transfer: Callable, join: Callable,
            refine: Optional[Callable] = None, follow_exc: bool = True):
    """Forward dataflow. `transfer(node, state_in) -> state_out`;
    `join(a, b) -> state`; `refine(node, label, state_out) -> state or None`
    (None = edge infeasible). States must support ==. Returns (IN, OUT)."""
    IN: Dict[Node, object] = {cfg.entry: init}
    OUT: Dict[Node, object] = {}
    work = [cfg.entry]
    inwork = {cfg.entry}
    guard = 0
    while work:
        guard += 1
        if guard > 200000:
            raise RuntimeError("dataflow did not converge")
        n = work.pop(0)
        inwork.discard(n)
        out = transfer(n, IN[n])
        OUT[n] = out
        for b, lab in cfg.succ[n]:
            if lab == "exc" and not follow_exc:
                continue
            st = out if refine is None else refine(n, lab, out)
            if lab == "exc":
                # the statement may have failed part-way: join with its input too
                st = join(st, IN[n]) if st is not None else IN[n]
            if st is None:
                continue
            new = st if b not in IN else join(IN[b], st)
            if b not in IN or new != IN[b]:
                IN[b] = new
                if b not in inwork:
                    work.append(b)
                    inwork.add(b)
    return IN, OUT


# --------------------------------------------------------- reaching definitions
class ReachingDefs:
    """IN[node][key] = frozenset of defining nodes (cfg.entry = parameter /
    free variable)."""

    def __init__(self, cfg: CFG):
        self.cfg = cfg

        def transfer(n: Node, st: Dict[str, FrozenSet[Node]]):
            defs = node_defs(n)
            if not defs:
                return st
            st = dict(st)
            for k, _, how in defs:
                if how in ("store",):
                    # element store: weak update (object keeps its identity)
                    st[k] = st.get(k, frozenset([cfg.entry])) | {n}
                else:
                    st[k] = frozenset([n])
                    # rebinding a base name invalidates attribute chains on it
                    pre = k + "."
                    for k2 in [x for x in st if x.startswith(pre)]:
                        del st[k2]
            return st

        E = frozenset([cfg.entry])

        def join(a, b):
            if a is b:
                return a
            return {k: a.get(k, E) | b.get(k, E) for k in set(a) | set(b)}

        self.IN, self.OUT = forward(cfg, {}, transfer, join)

    def defs_at(self, n: Node, key: str) -> FrozenSet[Node]:
        st = self.IN.get(n, {})
        if key in st:
            return st[key]
        return frozenset([self.cfg.entry])

    def value_exprs(self, n: Node, key: str) -> List[Tuple[Node, Optional[ast.expr], str]]:
        """(def node, value expr, how) for each definition of key reaching n"""
        out = []
        for d in self.defs_at(n, key):
            if d is self.cfg.entry:
                out.append((d, None, "param"))
                continue
            for k, v, how in node_defs(d):
                if k == key:
                    out.append((d, v, how))
        return out
