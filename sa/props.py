"""sa.props -- which rules decide which property, and what is (not) decided."""
import importlib
import pkgutil
import os

for _m in sorted(pkgutil.iter_modules([os.path.join(os.path.dirname(__file__), "rules")])):
    importlib.import_module(f"{__package__}.rules.{_m.name}")

PROPS = {}


def P(pid, rules, explanation, not_decided, assumptions=()):
    PROPS[pid] = dict(rules=list(rules), explanation=explanation, not_decided=not_decided,
                      assumptions=list(assumptions))


P("C20", ["EXC"],
  "Static decision of the structural clauses of C20: (EXC) the set U of functions that may transitively "
  "run a user callable is computed as a least fixpoint over the resolved call graph from the seven "
  "user-callable parameters of minimize_lbfgsb; every call site of U must lie outside every try body "
  "whose handlers do more than re-raise, every jumping finally and every non-transparent context manager, "
  "so an exception raised by user code reaches the caller of minimize_lbfgsb unchanged on every path.",
  "nothing numerical; re-entrancy of numpy/scipy is trusted")
