"""sa.props -- which rules decide which property, and what is (not) decided."""
import importlib
import os
import pkgutil

for _m in sorted(pkgutil.iter_modules([os.path.join(os.path.dirname(__file__), "rules")])):
    importlib.import_module(f"{__package__}.rules.{_m.name}")

from .runner import RULES  # noqa: E402

PROPS = {}
PENDING = {}


def P(pid, rules, explanation, not_decided, assumptions=(), design="3"):
    have = [r for r in rules if r in RULES]
    missing = [r for r in rules if r not in RULES]
    if missing:
        PENDING[pid] = missing
    if have:
        PROPS[pid] = dict(rules=have, explanation=explanation, not_decided=not_decided,
                          assumptions=list(assumptions), design=f"DESIGN.md section {design}")


P("C01", ["IDX", "RETRY", "SIGN", "FREE", "CPFORM", "ARGNAME", "DIRECTION", "RATIOFORM", "PGFORM", "SUBFORM", "SHARED", "GETB", "SF4", "ESC", "BPWALK", "EXIT", "SF6", "BOX"],
  "(BOX) every iterate handed to the Cauchy search is a projection onto the box: get_cauchy_point has no guard of its own, an iterate one ulp outside a bound gets a negative breakpoint, the Cauchy point leaves the box and the run aborts far from a KKT point; (SF6) the user's objective and gradient each receive a private copy of the point, so that a callable working in place on its argument cannot move the point at which the other value is then computed (f and g handed to the solver belong to the same x); (EXIT) a projected-gradient message is only reported when the projected gradient of the returned (x, jac) was just tested against gtol; (BPWALK) the breakpoint walk skips variables already on a bound, stops as soon as the segment holds its minimiser and examines the breakpoints in sorted order; (SF4, ESC) the wrapper hands out a new array for every gradient, never its memo or the user's own buffer, so the stored gradients stay distinct objects (otherwise y = 0 and the solver stalls); (GETB) the box the solver works in is the caller's box (a side becomes infinite only when it is None); (SHARED, conservative) the kernels keep no module-level state between calls, so an iteration depends on this run only; Structural necessary conditions of C01, decided on every path of the source: (IDX) index-space typing of "
  "get_cauchy_point shows the sorted breakpoint list is filtered and walked in its own rank space, so variables "
  "resting on a bound with the gradient pushing outward (t = 0) cannot scramble the breakpoint order -- the "
  "defect behind the stalls the property names; (RETRY) a failed line search aborts only after a retry from a "
  "memory cut to its newest point; (SIGN) breakpoints / step bounds are non-negative on both branches; (FREE) "
  "the free set is symmetric in both bounds and computed from the current Cauchy point; (CPFORM) the Cauchy-point "
  "formulas incl. d = 0 on variables resting on a bound with the gradient pushing outward; (ARGNAME, DIRECTION) the "
  "iteration pipeline x -> Cauchy point -> subspace point -> direction is wired without crossed slots; (RATIOFORM) "
  "bound ratios are (bound - point)/direction.",
  "convergence to a KKT point, the level reached by the projected gradient, absence of stalls in general "
  "(floating-point trajectories over all convex objectives)", design="3/C01")
P("C02", ["BOX", "SIGN", "FDB", "SF6", "GETB", "EVALPT"],
  "(EVALPT) the package itself evaluates the objective at the cached (in-box) point only; every other evaluation goes through SciPy's approx_derivative, bounded by FDB; (GETB) get_bounds hands on the caller's box unchanged (None -> infinity only); (SF6) the user's callables receive private copies, so user code cannot write the projected arrays the provenance argument tracks; C02 is decided as a provenance property: (BOX) a must-dataflow shows that every argument of the wrapper's "
  "fun/grad/fun_and_grad (hence of the user's objective, gradient and of approx_derivative's x0), the callback's "
  "x and every returned x is the output of a projection onto the caller's [lb, ub] (np.clip / clip2bounds / "
  "min-max with the very lb, ub of get_bounds) or a copy of it, with no arithmetic in between; (SIGN) step "
  "bounds pick the bound the direction points to; (FDB) the caller's box is the box handed to the differencer.",
  "nothing of the statement is left out, under the assumptions np.clip is exact and SciPy's approx_derivative "
  "keeps its stencil inside `bounds`", design="3/C02")
P("C03", ["DOWNHILL", "ACCEPT", "KEEP", "LSCAP", "SCALEPOS", "UNITS", "SF1", "SF3", "RESTARTX", "SF4"],
  "(SF4) the wrapper applies the scaling factor when a value is read (accessors return memo * factor), so a factor set after the first evaluation also applies to the memoised start values: the start value f0 and the trial values the line search compares with it are in the same unit; (RESTARTX) a restarted run compares its first trials with the value of the very point it starts from; (SF1, SF3) the value the line search compares is the wrapper's value at the trial point: the cache is keyed on the point and written by the evaluation at that point only; (UNITS) the reference value and slope handed to the line search are in the same unit as the wrapper's evaluations it is compared with; (SCALEPOS) the packaged gradient scaler yields a positive factor -- a negative one turns descent into ascent; The selection logic only compares objective values, so its correctness is a dataflow fact: (DOWNHILL) an "
  "order-fact analysis of line_search proves the returned step is None or a step whose evaluated value is "
  "strictly below the (never overwritten) start value, NaN trial values never qualify; (ACCEPT) inside the main loop "
  "the iterate is only ever redefined as the projection of x + s*d with s the step returned by this iteration's "
  "line search; (KEEP) the failed-search branch does not touch "
  "(x, fun, jac); (LSCAP) the per-iteration evaluation cap is min(.., maxfun - nfev).",
  "monotonicity under non-determinism or rounding of the user's objective itself", design="3/C03")
P("C04", ["EXIT", "RET", "NITB", "LSCAP", "ONCE", "PGFORM", "LSBUD", "GETB", "FDFIXED", "CHOLGUARD"],
  "(CHOLGUARD) the factorisation of the middle matrix in the memory update sits under a handler of LinAlgError, so that a singular matrix (linearly dependent steps) leads to a documented outcome and not to an exception; (FDFIXED) a variable fixed by lb == ub is treated before the box is handed to SciPy's approx_derivative, whose step for it is 0 (gradient component 0/0 = nan, all projected-gradient tests false, the transient message START returned); (GETB) the projected gradient the report speaks of is taken in the caller's box, which get_bounds hands on unchanged; (LSBUD) the line search spends at most the budget it is given, so that nfev stays within maxfun plus one line search; C04 is a control-flow property and all its clauses are decided: (EXIT) path-sensitive exploration of "
  "minimize_lbfgsb over (message, success flag, comparison knowledge, facts) shows every state reaching a return "
  "carries a documented terminal message that is true of the returned state and success is False exactly for the "
  "abnormal message; (RET) every return is a result built at the return from the internal state and the wrapper's "
  "counters; (NITB) guard conjuncts and the single per-cycle increment bound nit, the loop holds one capped line "
  "search plus one re-evaluation; (LSCAP) cap is min(.., maxfun - nfev); (ONCE) ftarget()/gtol() have one call "
  "site each outside loops; (PGFORM) the quantity compared with gtol is max|P(x - g) - x| and the "
  "relative-reduction quantity is (f_old - f)/max(|f_old|, |f|, 1), up to algebraic equivalence.",
  "arithmetic inside the comparisons is abstracted to orderings of syntactically identical operands; NaN "
  "projected gradients are outside the property's smooth-objective premise", design="3/C04")
P("C05", ["COH", "CNT", "FIELDS", "SF1", "SF3", "SF5", "SF6", "ESC", "SF4", "RESTARTX"],
  "(RESTARTX) a restart accepts a start point only if it is exactly checkpoint.x, whose fun and jac it then reports; (ESC) no live buffer escapes into a result or callback state, (SF4) the scaling factor multiplies a fresh product at return time; Under the premise that the user's functions are deterministic, bit-equality reduces to a typestate: (COH) a "
  "must-dataflow over minimize_lbfgsb shows each result / callback state is built where fun and jac are the "
  "wrapper's outputs for the reported x with no rebinding or in-place write in between; (CNT) counters are "
  "reported from and restored into the wrapper only, restores precede every evaluation; (FIELDS) writer/reader "
  "field agreement; the wrapper's own counting / caching rules are those of C15.",
  "bit-equality of the user's arithmetic between two calls (trusted: same call); determinism of user code",
  design="3/C05")
P("C06", ["ORIENT", "FIELDS", "MEM", "OWN", "FDB", "BIND", "SFREAD", "UNITS", "MAXLEN", "RESTARTX", "BFGSFORM", "REBUILD", "STEPINIT", "ANCHOR", "CARRIED", "MATSOWN"],
  "(MATSOWN) the fields of the limited-memory matrices (theta, W, the factors) are assigned only inside bfgsmats.py, where BFGSFORM shows them to be a function of the stored pairs: a restart rebuilds the matrices from the pairs alone, so a field set from anything else (a scaling kept across a reset of the memory) is lost by a checkpoint; (CARRIED) every quantity computed from its own previous value (iteration counter, streaks, running extrema; attributes of the state object and locals of the main loop) is initialised from the checkpoint on a restart; (ANCHOR) the restoration anchors the retained points at checkpoint.x, so every path of the per-iteration memory update must store the new point -- otherwise the state emitted after a rejected pair restarts with another memory than the live run holds; (STEPINIT) the first trial step never exceeds the largest feasible step, so that a last-bit difference in the direction of a restarted run cannot abort its first line search; (REBUILD) a restart turns the restored history into matrices before its first iteration; (RESTARTX) the continuation starts at exactly the checkpoint's point; (BFGSFORM) the limited-memory matrices are rebuilt from the restored history X, G alone, so nothing but the checkpoint determines the continuation; (MAXLEN) a history deque built with maxlen= is bounded by exactly maxcor + 1; (UNITS) values read back from a checkpoint are used in the unit they were stored in (writer/reader agreement on the scaling factor); (OWN) decoding a checkpoint does not write into it, (FDB) differencing options depend on the caller's arguments only, (BIND) the line search sees the global iteration number, (SFREAD) the solver reads no evaluation history of the wrapper, which a restart cannot reproduce; (ORIENT) orientation typing of the checkpoint decoder: increments accumulated from the newest pair backwards, "
  "subtracted from the newest point, appended oldest-first, identical shape for X and G -- the inverse of the "
  "encoder fixed by SIB; (FIELDS) every field a restart reads is written by every result and lands in the live "
  "variable it came from; (MEM) the refill is bounded by maxcor+1 points and drops from the left, so reducing "
  "maxcor keeps the most recent pairs.",
  "agreement 'up to rounding' of the continued iterates with the uninterrupted run (arithmetic)", design="3/C06")
P("C07", ["ESC", "NITOFF", "SIB", "CBUSE", "CNT", "FIELDS", "ORIENT", "DOWNHILL", "BIND", "SFREAD", "LSCAP", "SHARED", "STEPINIT", "RETRY", "FDB", "ANCHOR", "CARRIED", "MATSOWN", "OWN"],
  "(OWN) no write of the package reaches an array taken out of the point / gradient history: those arrays are the jac of states already handed to the callback (and, after a restart, a copy of the checkpoint's), so recycling an evicted buffer changes a state the user retained; (MATSOWN) the fields of the limited-memory matrices are assigned only inside bfgsmats.py as a function of the stored pairs, which is all a retained state carries of them; (CARRIED) every quantity computed from its own previous value (iteration counter, streaks, running extrema; attributes of the state object and locals of the main loop) is initialised from the checkpoint on a restart; (ANCHOR) the restoration anchors the retained points at checkpoint.x, so every path of the per-iteration memory update must store the new point -- otherwise the state emitted after a rejected pair restarts with another memory than the live run holds; (FDB) the finite-difference options are the caller's values, not quantities derived from the point at which the wrapper happens to be built (a restarted run builds it elsewhere); (RETRY) the decision to abort after a failed search depends only on the memory length, which the callback state carries; (STEPINIT) the first trial step never exceeds the largest feasible step, so that a last-bit difference in the direction of a restarted run cannot abort its first line search; (SHARED) no solver state lives outside what the callback state carries (no module-level state written by the package); (LSCAP) the line-search cap is computed from the counters at the time of use, so a restart sees the same cap as the uninterrupted run; (SFREAD, DOWNHILL, BIND) the line search depends only on quantities a checkpoint carries: start value, global iteration number, evaluators; (ESC) may-alias origins of everything handed to the callback are disjoint from the targets of every in-place "
  "write reachable afterwards; (NITOFF) counter-offset analysis: the state's nit equals the nit of a run stopped "
  "at that iteration; (SIB) the state and the final result bind the same keywords to the same expressions; "
  "(CBUSE) the callback's result only decides the user-callback stop and nothing else depends on the presence "
  "of a callback; for the restart-from-a-retained-state clause the restore side is decided too: (CNT) counters "
  "restored into the wrapper from the right fields before any evaluation, (FIELDS) writer/reader field agreement, "
  "(ORIENT) the history decoder inverts the encoder.",
  "numerical equality of the continuation with the uninterrupted run", design="3/C07")
P("C08", ["IDX", "SIGN", "PIN", "CPFORM", "RATIOFORM", "BFGSFORM", "OWN", "INVMFORM", "BPWALK", "INVMSYM", "USEFACT", "BPVAL", "F2FLOOR"],
  "(F2FLOOR) the curvature along the path is floored at machine precision times its initial value, as in Algorithm 778, so that the auxiliary vector stays W'(x_cp - x) when only zero-gradient variables remain free; (BPVAL) every store into the breakpoint vector writes a breakpoint ((x - bound)/g, or inf where g = 0): no floor, snap or cap moves the point of the projected path where a variable meets its bound; (USEFACT) a non-empty memory is never mistaken for an empty one (exact test in use_factor); (INVMSYM) the two triangular factors multiply to the inverse middle matrix of the stored pairs, and bmv applies them in the right order; (BPWALK) the breakpoint walk skips variables already on a bound, stops as soon as the segment holds its minimiser and examines the breakpoints in sorted order; (INVMFORM) the factors of the middle matrix are computed from D, L, S'S, theta by exact algebra (no floor or clamp); (BFGSFORM) the model handed to the kernel is the consistent compact form, (OWN) the kernel does not write the model it is given; (IDX) index-space typing of the breakpoint bookkeeping (the property's named defect); (SIGN) breakpoints "
  "t >= 0 on both branches, pinned bound on the side of d, f' <= 0, f'' >= 0 at their definitions; (PIN) "
  "variables reaching a bound are pinned by copying the bound, not by arithmetic; (CPFORM) the initialisation, "
  "the per-breakpoint updates of c, f', f'', p, dt_min and the final segment are symbolically executed into a "
  "linear-algebra normal form and equal Algorithm CP of Byrd-Lu-Nocedal up to algebraic equivalence, with and "
  "without a limited-memory matrix; (RATIOFORM) breakpoint times are (x - bound)/g componentwise.",
  "floating-point error of these formulas; that the loop visits breakpoints until the first local minimiser "
  "(control structure beyond IDX); model decrease as a numerical fact",
  design="3/C08")
P("C09", ["SIGN", "ALPHA", "FREE", "RATIOFORM", "SUBFORM", "KFACT", "SHARED", "OWN", "KFORM", "KSOLVE", "BFGSFORM", "INVMFORM", "INVMSYM", "SCALEPOS", "USEFACT", "F2FLOOR"],
  "(F2FLOOR) the curvature along the path is floored at machine precision times its initial value, as in Algorithm 778, so that the auxiliary vector stays W'(x_cp - x) when only zero-gradient variables remain free; (USEFACT) a non-empty memory is never mistaken for an empty one (exact test in use_factor); (SCALEPOS) the scaling factor is positive, so the direction is a descent direction of the user's objective too; (INVMSYM) the two triangular factors multiply to the inverse middle matrix of the stored pairs, and bmv applies them in the right order; (INVMFORM) the factors of the middle matrix are computed from D, L, S'S, theta by exact algebra (no floor or clamp); (BFGSFORM) the matrices W, M, theta the subspace step uses are those of the stored pairs; (KSOLVE) the reduced system is solved as LK^-T E LK^-1 with E = diag(-I, I), with the factor of this call; (KFORM) the four blocks of K are -D - Y'ZZ'Y/theta, L_A - R_Z, its transpose and theta S'AA'S, decided in an algebra of triangular parts; (KFACT) the LEL^T factor of K has the reference block form on its only non-trivial path, (SHARED, OWN; conservative) the kernel keeps no state between calls and does not write its inputs; The three places where the subspace step touches the box: (SIGN) truncation ratios non-negative on both "
  "branches; (ALPHA) the truncation factor is min(1, nonneg) and multiplies the whole step once; (FREE) free set = "
  "strictly interior variables of the Cauchy point, active set its complement, step enters only through Z; "
  "(RATIOFORM) ratios are (bound - x_c)/dHat; (SUBFORM) reduced gradient r = g + theta(x_c - x) - W M c and step "
  "dHat = -(1/theta)(rHat + (1/theta) Z^T W v) match the direct primal method up to algebraic equivalence.",
  "the solve of the reduced system itself (K, LEL^T, Sherman-Morrison-Woodbury), model decrease, descent direction", design="3/C09")
P("C10", ["MEM", "BFGSFORM", "OFFER", "RETRY", "MATSOWN", "BIND", "MAXLEN", "INVMFORM", "REBUILD", "INVMSYM", "SF4", "ESC", "OWN", "USEFACT", "CHOLGUARD"],
  "(CHOLGUARD) a middle matrix that is not numerically positive definite is an event the run handles (the reference refreshes the memory), not an exception; (USEFACT) a non-empty memory is never mistaken for an empty one (exact test in use_factor); (SF4, ESC) the gradients stored in the history are private arrays, never the wrapper's memo or the user's buffer; (OWN) no function writes the matrices it is handed (a rejected pair leaves them untouched); (INVMSYM) the two triangular factors multiply to the inverse middle matrix of the stored pairs, and bmv applies them in the right order; (REBUILD) a restart turns the restored history into matrices before its first iteration; (INVMFORM) the factors of the middle matrix are computed from D, L, S'S, theta by exact algebra (no floor or clamp); (MAXLEN) idem; (BIND) the memory update is given the curvature threshold eps_SY (not another epsilon), so every stored pair satisfies s.y > eps_SY y.y; (MATSOWN) the fields of the compact representation are assigned only inside bfgsmats.py, where BFGSFORM checks them; (RETRY) the retry branch cuts the stored points to one when it resets the matrices, so matrices and stored pairs agree; The four memory-discipline clauses of C10 are decided package-wide over every insertion / removal / rebinding "
  "of the point and gradient histories (MEM): guarded by the strict curvature test on the inserted pair, "
  "reject-no-touch for history and matrices, bounded FIFO (<= maxcor pairs, oldest dropped), lock-step of X and G; "
  "(BFGSFORM) theta = y.y/s.y of the newest pair and S, Y, L, D, W, the middle-matrix factors assembled from the "
  "histories as in the compact representation (normalised matrix expressions); (OFFER) every accepted step is "
  "offered to the memory.",
  "equality of the compact representation with dense BFGS, positive definiteness, secant equation (matrix "
  "identities in floating point)", design="3/C10")
P("C11", ["BOX", "DOWNHILL", "LSBUD", "SIGN", "RATIOFORM", "FDB", "LSPROTO", "EVALPT", "SF6", "FIELDS", "UNITS"],
  "(SF6) the user's callables receive a copy of the point, so they cannot move the cached (in-box) point; (FIELDS, UNITS) a restarted search compares values in the units of the checkpoint it starts from; (EVALPT) the package itself evaluates the objective at the cached (in-box) point only; every other evaluation goes through SciPy's approx_derivative, bounded by FDB; (LSPROTO) the trial evaluated is the step DCSRCH asked for (bounded by the maximum feasible step it was given); (FDB) the stencil of a finite-difference gradient evaluated at a trial point is bounded by the caller's box; (BOX) the three trial-point sites of line_search are projections onto [lb, ub]; (DOWNHILL) returned step is "
  "None or strictly downhill w.r.t. the start value (a zero step can never be returned under it); (LSBUD) one "
  "evaluation per loop iteration, counter guard `< max_iter`, SciPy's DCSRCH._iterate calls no user function "
  "(checked on SciPy's source); (SIGN) the maximum step is non-negative.",
  "step in (0, stpmax] inside SciPy's DCSRCH (trusted contract)", design="3/C11")
P("C12", ["CONST", "BIND", "ARGNAME", "DIRECTION", "OFFER", "STEPINIT", "BFGSFORM", "CPFORM", "ESC", "SF4", "NITOFF", "ORIENT", "FILTERWALK", "LSPROTO", "SF1", "STPCAP", "F2FLOOR"],
  "(F2FLOOR) the curvature along the path is floored at machine precision times its initial value, as in Algorithm 778, so that the auxiliary vector stays W'(x_cp - x) when only zero-gradient variables remain free; (STPCAP) the step cap given to DCSRCH is max_allowed_steplength(..) and nothing else (single reaching definition), so the trial steps are those of the reference; (SF1) the wrapper serves a stored value only for exactly the point it was computed at, so the values the line search interpolates are those of the trial points of the reference run; (LSPROTO) DCSRCH is driven as in Algorithm 778: the step it returned is fed back with the value and slope evaluated at that step, FG means evaluate, anything else ends the search; (FILTERWALK) with an update function installed the curvature filter visits every stored point (an identity hook must not change the run); (ORIENT) a run continued through a checkpoint restores the pairs in order; (CONST) the evaluated defaults of the line-search / curvature constants equal those of Algorithm 778 at every "
  "sibling signature; (BIND) each constant reaches its consumer in the right slot (minimize -> line_search -> "
  "DCSRCH / dcsrch; eps_SY -> update_lbfgs_matrices / filter -> is_update_X_and_G); structural faithfulness of "
  "the iteration: (ARGNAME) no crossed argument slots at any internal call, (DIRECTION) d = subspace point - x from "
  "the Cauchy point of the current (x, g), (OFFER) every accepted step is offered to the memory, (STEPINIT) initial "
  "step / slope / failure classification of the line search incl. the documented first-iteration cap, (BFGSFORM) "
  "theta and the compact matrices assembled as in the reference, (CPFORM) Cauchy-point formulas, (ESC)+(SF4) stored "
  "gradients are private copies so correction pairs are genuine differences, (NITOFF) the iteration index that "
  "selects the first-iteration policy is the same in a retained state and in a run stopped there.",
  "iterate-by-iterate agreement with the Fortran reference in floating point; the subspace solve; SciPy's dcsrch",
  design="3/C12")
P("C13", ["FILT", "SEED", "FLOW", "MEM", "FILTERWALK", "DOWNHILL", "STEPINIT", "SIB", "BFGSFORM", "SF2", "ANCHOR"],
  "(ANCHOR) every normal path through the per-iteration memory update stores the new point, so that the newest point is always retained -- also when a rewritten gradient sequence makes the newest pair fail the curvature test; (BFGSFORM) after the objective is redefined the matrices are rebuilt from the rewritten history; (SF2) the wrapper remembers one point only and forgets it on every move, so no value of the old objective is served at another point; (SIB) the pairs carried by states and results are differences of the histories as they are at the construction (not of a copy taken before the rewrite); (STEPINIT) the line search starts from the caller's (possibly redefined) f0, not from a value memoised by the wrapper; (FILT) must-pass-through with path-correlation pruning: from every call of the user's update function every "
  "path to a consumer of G (matrix update, callback state, returned result) passes the curvature filter whose "
  "result rebinds X, G; (SEED) the filter seeds its output with the newest element and only grows on the left; "
  "(FLOW) argument / target order of both calls; (MEM) the filter's insertions are guarded by the curvature test "
  "against the retained neighbour; (FILTERWALK) the filter visits every older point, newest to oldest; (DOWNHILL) "
  "the line search measures progress against the f0 handed in by the caller (which the update function has "
  "rewritten), never against a value cached before the redefinition.",
  "bit-identity under the identity update function, equality with a restart on the new objective", design="3/C13")
P("C14", ["OWN", "SHARED", "LOGNI", "NONDET"],
  "The schedule quantifier is reduced to confinement: (OWN) interprocedural may-alias analysis shows no in-place "
  "write can reach an object owned by the caller (x0, bounds, args, checkpoint.*) nor an array parameter of any "
  "internal function except documented accumulators; (SHARED) no default-argument, class-level or module-level "
  "object is written, no global statement, no caching decorator; (LOGNI) taint from iprint/logger reaches only "
  "logging calls and tests of logging-only branches; (NONDET) no nondeterminism source.",
  "re-entrancy of numpy / scipy routines themselves", design="3/C14")
P("C15", ["SF1", "SF2", "SF3", "SF4", "SF5", "SF6", "SF7", "SHARED", "SFREAD"],
  "(SHARED) two wrappers share no state; (SFREAD) nobody but the wrapper writes its memo; The wrapper is a 3-flag typestate machine over one cached point; its transition invariants are decided from "
  "the 120 lines of ScalarFunction: exact-comparison guard dominating every accessor (SF1), fresh private key "
  "(SF2), flags set only after the matching evaluation and reset with the key (SF3), scaling applied at return "
  "(SF4), one increment per user call (SF5), who-may-call the raw user functions (SF6), the differencer gets the "
  "counting wrapper, x0=self.x, f0=self.f after _update_fun (SF7).", "nothing (clause-complete under 2.1)",
  design="3/C15")
P("C16", ["FDB", "MODES", "BOX", "SF7", "CNT", "SF5", "EVALPT", "SHARED", "BIND", "ARRLIKE", "FDFIXED"],
  "(FDFIXED) a variable fixed by lb == ub is treated before the box is handed to SciPy's approx_derivative, whose step for it is 0 (gradient component 0/0 = nan, all projected-gradient tests false, the transient message START returned); (SHARED) the options of one differencer are not visible to another wrapper; (BIND) the finite-difference step reaches the differencer only; (ARRLIKE) the packaged objectives stay complex-analytic (no cast to a real dtype), which the complex-step mode relies on; (EVALPT) the package itself evaluates the objective at the cached (in-box) point only; every other evaluation goes through SciPy's approx_derivative, bounded by FDB; (CNT, SF5) nfev counts every objective evaluation incl. stencil points, also across a restart; (BOX)+(FDB) the differencer raises iff its x0 is outside `bounds`: x0 is the wrapper's cached point, which is "
  "a projection onto the caller's box, and `bounds` is that same box for every finite-difference mode; (MODES) "
  "each documented mode has a handler on both sides; (SF7) stencil evaluations go through the counting wrapper.",
  "agreement of the final objective value with the exact-gradient solution to the accuracy of the scheme",
  design="3/C16")
P("C17", ["SCALER", "UNITS", "SF4", "SCALEPOS", "SCALEUSE", "OWN", "SFREAD", "FIELDS", "SIB", "SF7"],
  "(FIELDS, SIB) the callback state carries the factor like the result does, so that a restart from it keeps the units; (SF7) the differencer is based on the raw value; (SFREAD) nobody outside the wrapper writes its raw memo, so the factor is applied exactly once, at the accessor boundary; (SCALEUSE) outside the wrapper the factor is read only to scale f0/grad once and to un-scale the target test, (OWN) the packaged scaler does not write the arrays it is handed; (SCALEPOS) the packaged scaler returns a positive factor; (SCALER) one call site outside loops, arguments = clipped start point, unscaled gradient, lb, ub, result is the "
  "only write of the factor outside the class; (UNITS) raw/scaled unit typing: target tested on the unscaled "
  "value, ftol test compares like units, results and line search get scaled values; (SF4) scale applied inside "
  "the accessors.", "equality of two complete runs (relation between trajectories)", design="3/C17")
P("C18", ["SIB", "ESC", "MEM", "DIAG", "RETRY", "UNITS", "RESTARTX", "SFREAD", "SF4", "RTEXACT"],
  "(RTEXACT) the pairs a restarted run inherits are carried, not re-derived: a decoder that rebuilds the retained points by subtraction makes the re-differenced pairs equal to the checkpoint's only up to rounding; (SFREAD) the gradient stored next to an iterate was evaluated there: nobody but the wrapper marks its memo as valid; (SF4) stored gradients are private arrays; (RESTARTX) after a restart the first new pair is a difference of gradients the user returned at the two retained iterates: the start point is exactly checkpoint.x; (UNITS) the gradients stored in the history are all scaled by the same factor, so their differences are differences of the user's gradients; (RETRY) after a failed search the retained point and gradient are the newest stored ones; (SIB) every LbfgsInvHessProduct is built from (diff(X), diff(G)) in that order (or the checkpoint's pairs with "
  "one slice); (ESC) stored points / gradients are private and never written afterwards, so pairs are bit-exact "
  "differences of visited points; (MEM) <= maxcor pairs each with s.y > eps*y.y >= 0; (DIAG) the diagonal utility "
  "probes e_i, reads and writes index i, over range(n), with a fresh probe per iteration.",
  "symmetric positive definiteness of the dense operator as a numerical fact (follows mathematically from s.y > 0)",
  design="3/C18")
P("C19", ["AD", "ARRLIKE"],
  "(ARRLIKE) every benchmark converts its array_like point before any raw arithmetic on it; (AD) source-level differentiation: both bodies of each exported (f, f_grad) pair are translated from the numpy "
  "subset they use into closed-form sympy expressions over x0..x(n-1); d f / d x_i minus the translated gradient "
  "must be identically zero (simplify, else exact evaluation at rational points with 60 digits) for n = 1..N.",
  "symbolic n (fixed n <= 6 quick / 12 thorough)", design="3/C19")
P("C20", ["EXC", "SHARED", "OWN"],
  "(EXC) the set U of functions that may transitively run a user callable is a least fixpoint over the resolved "
  "call graph from the seven user-callable parameters; every call site of U lies outside every try body whose "
  "handlers do more than re-raise, every jumping finally and every non-transparent context manager; (SHARED) "
  "there is no module-, class- or default-argument state a failed run could leave modified; (OWN) no in-place write "
  "reaches a caller-owned object, so a run that fails part-way has not changed the arguments an identical "
  "follow-up call would receive.",
  "nothing numerical; re-entrancy of numpy/scipy is trusted", design="3/C20")
