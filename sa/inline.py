"""sa.inline -- interprocedural normalisation: functions that are NOT part of the package's known surface
(tables.KNOWN_FUNCS, the functions of the tree the rules were written against) are helpers a maintainer extracted;
they are inlined into their callers before the rules run, so that "extract function" -- the most common
refactoring -- does not change what the rules see.  A helper whose shape is not supported is left alone.

Supported
  * module-level functions and methods called as `h(...)` / `self.h(...)` from the same module, positional and
    keyword arguments, defaults; no *args / **kwargs / decorators / recursion / yield / global / nonlocal;
  * expression sites: the helper reduces (after local simplification) to `return E`;
  * statement sites `T = h(..)`, `return h(..)`, `h(..)`: every `return` of the helper is in tail position
    (outside loops / try / with), the body is rewritten into an if/else tree assigning the result.
Parameters bound to a name or constant are substituted; other arguments get a local temporary.  Helper locals are
renamed when they would collide with a name of the caller.  Constant conditions created by the substitution
(`None is None`, `if True:`) are folded."""
from __future__ import annotations

import ast
import copy
from typing import Dict, List, Optional, Set, Tuple

from .desugar import _free, _is_pure, _own_nodes, _stores, _bodies

PURE_ROOTS = {"np", "numpy", "sp", "scipy", "math"}
PURE_BUILTINS = {"len", "min", "max", "abs", "float", "int", "bool", "tuple", "list", "dict", "range", "sum", "isinstance",
                 "LbfgsInvHessProduct", "OptimizeResult", "Deque", "deque", "sorted", "zip", "enumerate", "reversed", "str", "repr"}


def _pure_call(c: ast.Call) -> bool:
    f = c.func
    if isinstance(f, ast.Name):
        return f.id in PURE_BUILTINS
    root = f
    while isinstance(root, ast.Attribute):
        root = root.value
    return isinstance(root, ast.Name) and root.id in PURE_ROOTS


def _calls_pure_only(e: ast.AST) -> bool:
    return all(_pure_call(c) for c in ast.walk(e) if isinstance(c, ast.Call)) and \
        not any(isinstance(n, (ast.Lambda, ast.Await, ast.Yield, ast.YieldFrom, ast.NamedExpr)) for n in ast.walk(e))


class Subst(ast.NodeTransformer):
    """replace loads of names by expressions, in nested functions too unless a parameter shadows the name"""

    def __init__(self, m: Dict[str, ast.expr]):
        self.m = m

    def visit_Name(self, n: ast.Name):
        if n.id in self.m:
            if isinstance(n.ctx, ast.Load):
                return ast.copy_location(copy.deepcopy(self.m[n.id]), n)
            r = self.m[n.id]
            if isinstance(r, ast.Name):       # renaming of a stored local
                return ast.copy_location(ast.Name(id=r.id, ctx=n.ctx), n)
        return n

    def _scoped(self, n, params: Set[str]):
        inner = {k: v for k, v in self.m.items() if k not in params}
        old, self.m = self.m, inner
        self.generic_visit(n)
        self.m = old
        return n

    def visit_FunctionDef(self, n: ast.FunctionDef):
        a = n.args
        ps = {p.arg for p in a.posonlyargs + a.args + a.kwonlyargs}
        if a.vararg:
            ps.add(a.vararg.arg)
        if a.kwarg:
            ps.add(a.kwarg.arg)
        return self._scoped(n, ps)

    def visit_Lambda(self, n: ast.Lambda):
        return self._scoped(n, {p.arg for p in n.args.args})


# ------------------------------------------------------------------------------------------ simplification
class Fold(ast.NodeTransformer):
    """`X is None` / `X is not None` with X a literal; IfExp / If / BoolOp / not on constant tests"""

    @staticmethod
    def _const(e) -> Optional[bool]:
        if isinstance(e, ast.Constant) and isinstance(e.value, bool):
            return e.value
        return None

    def visit_Compare(self, c: ast.Compare):
        self.generic_visit(c)
        if len(c.ops) == 1 and isinstance(c.ops[0], (ast.Is, ast.IsNot)) and isinstance(c.comparators[0], ast.Constant) \
                and c.comparators[0].value is None:
            l = c.left
            definitely_none = isinstance(l, ast.Constant) and l.value is None
            definitely_not = (isinstance(l, ast.Constant) and l.value is not None) or \
                isinstance(l, (ast.BinOp, ast.Tuple, ast.List, ast.Dict, ast.JoinedStr, ast.Compare))
            if definitely_none or definitely_not:
                v = definitely_none if isinstance(c.ops[0], ast.Is) else not definitely_none
                return ast.copy_location(ast.Constant(value=v), c)
        return c

    def visit_Call(self, c: ast.Call):
        self.generic_visit(c)
        # f(**{"k": v}) -> f(k=v)
        if any(k.arg is None and isinstance(k.value, ast.Dict) and all(isinstance(x, ast.Constant) and isinstance(x.value, str) for x in k.value.keys)
               for k in c.keywords):
            newk = []
            for k in c.keywords:
                if k.arg is None and isinstance(k.value, ast.Dict) and all(isinstance(x, ast.Constant) and isinstance(x.value, str) for x in k.value.keys):
                    newk += [ast.keyword(arg=x.value, value=v) for x, v in zip(k.value.keys, k.value.values)]
                else:
                    newk.append(k)
            c.keywords = newk
        # f(*(<a>, <b>)) -> f(<a>, <b>)
        if any(isinstance(a, ast.Starred) and isinstance(a.value, (ast.Tuple, ast.List)) for a in c.args):
            new = []
            for a in c.args:
                if isinstance(a, ast.Starred) and isinstance(a.value, (ast.Tuple, ast.List)):
                    new += list(a.value.elts)
                else:
                    new.append(a)
            c.args = new
        return c

    def visit_JoinedStr(self, j: ast.JoinedStr):
        self.generic_visit(j)
        parts = []
        for v in j.values:
            if isinstance(v, ast.Constant) and isinstance(v.value, str):
                parts.append(v.value)
            elif isinstance(v, ast.FormattedValue) and isinstance(v.value, ast.Constant) and isinstance(v.value.value, str) \
                    and v.conversion == -1 and v.format_spec is None:
                parts.append(v.value.value)
            else:
                return j
        return ast.copy_location(ast.Constant(value="".join(parts)), j)

    def visit_UnaryOp(self, u: ast.UnaryOp):
        self.generic_visit(u)
        if isinstance(u.op, ast.Not) and self._const(u.operand) is not None:
            return ast.copy_location(ast.Constant(value=not u.operand.value), u)
        return u

    def visit_BoolOp(self, b: ast.BoolOp):
        self.generic_visit(b)
        vals = []
        for v in b.values:
            cv = self._const(v)
            if cv is None:
                vals.append(v)
            elif isinstance(b.op, ast.And) and cv is False:
                return ast.copy_location(ast.Constant(value=False), b) if not vals else b
            elif isinstance(b.op, ast.Or) and cv is True:
                return ast.copy_location(ast.Constant(value=True), b) if not vals else b
            # neutral element: dropped
        if not vals:
            return ast.copy_location(ast.Constant(value=isinstance(b.op, ast.And)), b)
        if len(vals) == 1:
            return vals[0]
        b.values = vals
        return b

    def visit_IfExp(self, e: ast.IfExp):
        self.generic_visit(e)
        cv = self._const(e.test)
        if cv is not None:
            return e.body if cv else e.orelse
        return e

    def visit_If(self, s: ast.If):
        self.generic_visit(s)
        cv = self._const(s.test)
        if cv is not None:
            keep = s.body if cv else s.orelse
            return keep if keep else ast.copy_location(ast.Pass(), s)
        return s


def _flatten_pass(fn: ast.AST) -> None:
    for body in _bodies(fn):
        if len(body) > 1:
            body[:] = [s for s in body if not isinstance(s, ast.Pass)] or [body[0]]


# ------------------------------------------------------------------------------------------ local clean-up of a helper
def _unroll_comprehensions(fn: ast.AST) -> int:
    k = 0

    class T(ast.NodeTransformer):
        def _try(self, node, elt, gens, ctor):
            nonlocal k
            if len(gens) != 1 or gens[0].ifs or gens[0].is_async:
                return None
            g = gens[0]
            if not isinstance(g.iter, (ast.Tuple, ast.List)) or not (1 <= len(g.iter.elts) <= 8):
                return None
            names = [g.target.id] if isinstance(g.target, ast.Name) else \
                [e.id for e in g.target.elts] if isinstance(g.target, ast.Tuple) and all(isinstance(e, ast.Name) for e in g.target.elts) else None
            if names is None:
                return None
            out = []
            for it in g.iter.elts:
                parts = [it] if isinstance(g.target, ast.Name) else list(it.elts) if isinstance(it, (ast.Tuple, ast.List)) else None
                if parts is None or len(parts) != len(names) or not all(_is_pure(p) for p in parts):
                    return None
                out.append(Subst(dict(zip(names, parts))).visit(copy.deepcopy(elt)))
            k += 1
            r = ctor(elts=out, ctx=ast.Load())
            return ast.fix_missing_locations(ast.copy_location(r, node))

        def visit_Call(self, c: ast.Call):
            self.generic_visit(c)
            if isinstance(c.func, ast.Name) and c.func.id in ("tuple", "list") and len(c.args) == 1 and not c.keywords \
                    and isinstance(c.args[0], (ast.GeneratorExp, ast.ListComp)):
                r = self._try(c, c.args[0].elt, c.args[0].generators, ast.Tuple if c.func.id == "tuple" else ast.List)
                if r is not None:
                    return r
            return c

        def visit_ListComp(self, c: ast.ListComp):
            self.generic_visit(c)
            r = self._try(c, c.elt, c.generators, ast.List)
            return r if r is not None else c
    T().visit(fn)
    return k


def _forward_temps(fn: ast.FunctionDef) -> int:
    """t = E ; ... one later use of t in the same block  ->  E at the use (helper bodies only)"""
    k = 0
    changed = True
    while changed:
        changed = False
        stores = _stores(fn)
        for body in _bodies(fn):
            for i, s in enumerate(body):
                if not (isinstance(s, ast.Assign) and len(s.targets) == 1 and isinstance(s.targets[0], ast.Name)):
                    continue
                t = s.targets[0].id
                if len(stores.get(t, [])) != 1:
                    continue
                loads = [n for n in ast.walk(fn) if isinstance(n, ast.Name) and n.id == t and isinstance(n.ctx, ast.Load)]
                if len(loads) != 1:
                    continue
                use_j = None
                for j in range(i + 1, len(body)):
                    if any(n is loads[0] for n in ast.walk(body[j])):
                        use_j = j
                        break
                if use_j is None:
                    continue
                host = body[use_j]
                # the use must be evaluated exactly once, unconditionally, when the host statement runs
                if isinstance(host, (ast.For, ast.While, ast.If, ast.With, ast.Try, ast.FunctionDef)):
                    if not (isinstance(host, ast.If) and any(n is loads[0] for n in ast.walk(host.test))):
                        continue
                if any(isinstance(p, (ast.Lambda, ast.GeneratorExp, ast.ListComp, ast.DictComp, ast.SetComp, ast.IfExp, ast.BoolOp))
                       and any(n is loads[0] for n in ast.walk(p)) for p in ast.walk(host)):
                    continue
                E = s.value
                if not _calls_pure_only(E):
                    continue
                fr = _free(E)
                between = body[i + 1:use_j]
                if any(isinstance(n, ast.Name) and isinstance(n.ctx, ast.Store) and n.id in fr for b_ in between for n in ast.walk(b_)):
                    continue
                if any(isinstance(n, ast.Call) and not _pure_call(n) for b_ in between for n in ast.walk(b_)):
                    continue
                if any(isinstance(n, (ast.Attribute, ast.Subscript)) and isinstance(n.ctx, ast.Store) for b_ in between for n in ast.walk(b_)):
                    continue
                Subst({t: E}).visit(host)
                ast.fix_missing_locations(host)
                body.remove(s)
                k += 1
                changed = True
                break
            if changed:
                break
    return k


# ------------------------------------------------------------------------------------------ helper shapes
def _has(node, kinds) -> bool:
    return any(isinstance(n, kinds) for n in _own_nodes(node))


def _returns_in_tail(stmts: List[ast.stmt]) -> bool:
    """every Return is reachable only as the last action of the function: not inside loops / try / with"""
    for s in stmts:
        if isinstance(s, (ast.For, ast.While, ast.Try, ast.With)):
            if any(isinstance(n, ast.Return) for n in _own_nodes(s)):
                return False
        if isinstance(s, ast.If):
            if not _returns_in_tail(s.body) or not _returns_in_tail(s.orelse):
                return False
    return True


def _tail_tree(stmts: List[ast.stmt], res: Optional[str], budget: List[int]) -> Optional[List[ast.stmt]]:
    """rewrite a statement list whose returns are in tail position into one without `return`: the returned value is
    assigned to `res` (or dropped when res is None); statements after an `if` that may return are duplicated into
    the branches that fall through"""
    out: List[ast.stmt] = []
    for i, s in enumerate(stmts):
        budget[0] -= 1
        if budget[0] < 0:
            return None
        if isinstance(s, ast.Return):
            if res is not None:
                v = s.value if s.value is not None else ast.Constant(value=None)
                a = ast.Assign(targets=[ast.Name(id=res, ctx=ast.Store())], value=copy.deepcopy(v))
                out.append(ast.fix_missing_locations(ast.copy_location(a, s)))
            elif s.value is not None and not _is_pure(s.value):
                out.append(ast.fix_missing_locations(ast.copy_location(ast.Expr(value=copy.deepcopy(s.value)), s)))
            return out or [ast.copy_location(ast.Pass(), s)]
        if isinstance(s, ast.If) and any(isinstance(n, ast.Return) for n in _own_nodes(s)):
            rest = stmts[i + 1:]
            b = _tail_tree([copy.deepcopy(x) for x in s.body] + [copy.deepcopy(x) for x in rest], res, budget)
            o = _tail_tree([copy.deepcopy(x) for x in s.orelse] + [copy.deepcopy(x) for x in rest], res, budget)
            if b is None or o is None:
                return None
            n = ast.If(test=copy.deepcopy(s.test), body=b, orelse=[] if (len(o) == 1 and isinstance(o[0], ast.Pass)) else o)
            out.append(ast.fix_missing_locations(ast.copy_location(n, s)))
            return out
        out.append(copy.deepcopy(s))
    # fell off the end: implicit `return None`
    if res is not None:
        a = ast.Assign(targets=[ast.Name(id=res, ctx=ast.Store())], value=ast.Constant(value=None))
        out.append(ast.fix_missing_locations(ast.copy_location(a, stmts[-1] if stmts else ast.Pass(lineno=1, col_offset=0))))
    return out or [ast.Pass()]


class Helper:
    def __init__(self, node: ast.FunctionDef, cls: Optional[str]):
        self.node, self.cls, self.name = node, cls, node.name
        a = node.args
        # @np.errstate(...) only silences floating-point warnings: it does not change any value
        decos = [d for d in node.decorator_list if not (isinstance(d, ast.Call) and isinstance(d.func, ast.Attribute) and d.func.attr == "errstate"
                                                        and isinstance(d.func.value, ast.Name) and d.func.value.id in ("np", "numpy"))]
        self.ok = not decos
        self.vararg = a.vararg.arg if a.vararg else None
        self.kwarg = a.kwarg.arg if a.kwarg else None
        self.params = [p.arg for p in a.posonlyargs + a.args] + [p.arg for p in a.kwonlyargs]
        self.npos = len(a.posonlyargs + a.args)
        self.defaults: Dict[str, ast.expr] = {}
        pos = a.posonlyargs + a.args
        for p, d in zip(pos[len(pos) - len(a.defaults):], a.defaults):
            self.defaults[p.arg] = d
        for p, d in zip(a.kwonlyargs, a.kw_defaults):
            if d is not None:
                self.defaults[p.arg] = d
        if _has(node, (ast.Yield, ast.YieldFrom, ast.Await, ast.Global, ast.Nonlocal)):
            self.ok = False
        body = list(node.body)
        if body and isinstance(body[0], ast.Expr) and isinstance(body[0].value, ast.Constant) and isinstance(body[0].value.value, str):
            body = body[1:]        # docstring
        self.body = body
        if not _returns_in_tail(body):
            self.ok = False
        if cls is not None and (not self.params or self.params[0] != "self"):
            self.ok = False

    def expr_form(self) -> Optional[ast.expr]:
        if len(self.body) == 1 and isinstance(self.body[0], ast.Return) and self.body[0].value is not None:
            return self.body[0].value
        return None


def _bind(h: Helper, call: ast.Call, is_method: bool) -> Optional[Dict[str, ast.expr]]:
    params = h.params[1:] if is_method else list(h.params)
    npos = h.npos - (1 if is_method else 0)
    if any(isinstance(a, ast.Starred) for a in call.args) or any(k.arg is None for k in call.keywords):
        return None
    if len(call.args) > npos and not h.vararg:
        return None
    m: Dict[str, ast.expr] = {}
    pos_params = params[:npos]
    for p, a in zip(pos_params, call.args):
        m[p] = a
    if h.vararg:
        m[h.vararg] = ast.Tuple(elts=list(call.args[npos:]), ctx=ast.Load())
    extra_k, extra_v = [], []
    for k in call.keywords:
        if k.arg in m:
            return None
        if k.arg not in params:
            if not h.kwarg:
                return None
            extra_k.append(ast.Constant(value=k.arg))
            extra_v.append(k.value)
            continue
        m[k.arg] = k.value
    if h.kwarg:
        m[h.kwarg] = ast.Dict(keys=extra_k, values=extra_v)
    for p in params:
        if p not in m:
            if p not in h.defaults:
                return None
            m[p] = h.defaults[p]
    if is_method:
        m["self"] = call.func.value
    return m


def _simple_arg(a: ast.expr) -> bool:
    return isinstance(a, (ast.Name, ast.Constant))


def _count_loads(node: ast.AST, name: str) -> int:
    return sum(1 for n in ast.walk(node) if isinstance(n, ast.Name) and n.id == name and isinstance(n.ctx, ast.Load))


def _ctor_delegates(tree: ast.Module, stats: Dict[str, int]) -> None:
    """a constructor that sets part of its initial state by calling a method of its own class whose body is nothing but
    `self.attr = <expression without calls on self>` statements: the call is replaced by those statements (the method
    itself stays -- it may be one the rules are anchored in)"""
    for c in tree.body:
        if not isinstance(c, ast.ClassDef):
            continue
        meths = {m_.name: m_ for m_ in c.body if isinstance(m_, ast.FunctionDef)}
        init = meths.get("__init__")
        if init is None:
            continue
        i = 0
        while i < len(init.body):
            st = init.body[i]
            i += 1
            if not (isinstance(st, ast.Expr) and isinstance(st.value, ast.Call) and isinstance(st.value.func, ast.Attribute)
                    and isinstance(st.value.func.value, ast.Name) and st.value.func.value.id == "self" and st.value.func.attr in meths
                    and not st.value.func.attr.startswith("__")):
                continue
            h = Helper(meths[st.value.func.attr], c.name)
            if not h.ok or not h.body or h.node.decorator_list:
                continue
            simple = True
            for b in h.body:
                if not (isinstance(b, ast.Assign) and len(b.targets) == 1 and isinstance(b.targets[0], ast.Attribute)
                        and isinstance(b.targets[0].value, ast.Name) and b.targets[0].value.id == "self"):
                    simple = False
                    break
                for x in ast.walk(b.value):
                    if isinstance(x, ast.Call) and any(isinstance(y, ast.Name) and y.id == "self" for y in ast.walk(x.func)):
                        simple = False
                    if isinstance(x, (ast.Lambda, ast.NamedExpr, ast.Await, ast.Yield, ast.YieldFrom)):
                        simple = False
            if not simple:
                continue
            m = _bind(h, st.value, True)
            if m is None:
                continue
            if any(p != "self" and not _simple_arg(a) and sum(_count_loads(b, p) for b in h.body) != 1 for p, a in m.items()):
                continue
            new = [ast.copy_location(Subst(m).visit(copy.deepcopy(b)), st) for b in h.body]
            for x in new:
                ast.fix_missing_locations(x)
            init.body[i - 1:i] = new
            i += len(new) - 1
            stats["inlined (constructor delegate)"] = stats.get("inlined (constructor delegate)", 0) + 1


def _reference_hooks(modname: str) -> Set[str]:
    """attributes that, in the reference tree, hold a closure of a constructor (self.h = <closure of __init__>)"""
    import os
    p = os.path.join(os.path.dirname(__file__), "reference", modname + ".py")
    out: Set[str] = set()
    try:
        ref = ast.parse(open(p).read())
    except (OSError, SyntaxError):
        return out
    for c in ref.body:
        if isinstance(c, ast.ClassDef):
            for init in [m_ for m_ in c.body if isinstance(m_, ast.FunctionDef) and m_.name == "__init__"]:
                cl = {d.name for d in ast.walk(init) if isinstance(d, ast.FunctionDef) and d is not init}
                for st in ast.walk(init):
                    if isinstance(st, ast.Assign) and len(st.targets) == 1 and isinstance(st.targets[0], ast.Attribute) and isinstance(st.value, ast.Name) \
                            and st.value.id in cl:
                        out.add(st.targets[0].attr)
    return out


def _methods_to_closures(tree: ast.Module, modname: str, known: Set[str], stats: Dict[str, int], early: bool = False) -> None:
    """a method the reference tree does not have, only ever reached as `self.m` from the methods of its class, is the
    closure `def m(..)` of __init__ stored as `self.m = m` (what a maintainer turned into a method); a private attribute
    that only forwards a constructor parameter (`self._a = a`, never written again) is read as the parameter inside such
    closures, and its store disappears when nothing reads it any more"""
    for c in tree.body:
        if not isinstance(c, ast.ClassDef):
            continue
        meths = {m_.name: m_ for m_ in c.body if isinstance(m_, ast.FunctionDef)}
        init = meths.get("__init__")
        if init is None or any(isinstance(n, (ast.Global, ast.Nonlocal)) for n in ast.walk(init)):
            continue
        iparams = {a.arg for a in init.args.posonlyargs + init.args.args + init.args.kwonlyargs}
        istored = {n.id for n in ast.walk(init) if isinstance(n, ast.Name) and isinstance(n.ctx, ast.Store)}
        # forwarding attributes
        fwd: Dict[str, str] = {}
        stores: Dict[str, List[ast.AST]] = {}
        for n in ast.walk(c):
            if isinstance(n, ast.Attribute) and isinstance(n.ctx, (ast.Store, ast.Del)) and isinstance(n.value, ast.Name) and n.value.id == "self":
                stores.setdefault(n.attr, []).append(n)
        for st in init.body:
            if isinstance(st, ast.Assign) and len(st.targets) == 1 and isinstance(st.targets[0], ast.Attribute) and isinstance(st.targets[0].value, ast.Name) \
                    and st.targets[0].value.id == "self" and isinstance(st.value, ast.Name) and st.value.id in iparams and st.value.id not in istored \
                    and st.targets[0].attr.startswith("_") and len(stores.get(st.targets[0].attr, [])) == 1:
                fwd[st.targets[0].attr] = st.value.id
        moved = []
        for name, m_ in list(meths.items()):
            q = f"{modname}.{c.name}.{name}"
            if q in known or name.startswith("__") or m_.decorator_list or not m_.args.args or m_.args.args[0].arg != "self":
                continue
            if any(isinstance(n, (ast.Global, ast.Nonlocal, ast.Yield, ast.YieldFrom, ast.Await)) for n in ast.walk(m_)) or \
                    any(isinstance(n, ast.Name) and n.id == "super" for n in ast.walk(m_)):
                continue
            refs = [n for n in ast.walk(tree) if isinstance(n, ast.Attribute) and n.attr == name]
            if not refs or not all(isinstance(n.value, ast.Name) and n.value.id == "self" and isinstance(n.ctx, ast.Load) for n in refs):
                continue
            if early:
                # before ordinary inlining only: a method used as a value (it cannot be inlined away), or one that takes the
                # place of a hook attribute of the reference tree
                par_ = {id(ch): p_ for p_ in ast.walk(c) for ch in ast.iter_child_nodes(p_)}
                as_value = any(not (isinstance(par_.get(id(n)), ast.Call) and par_[id(n)].func is n) for n in refs)
                if not as_value and name not in _reference_hooks(modname):
                    continue
            inside_cls = {id(n) for n in ast.walk(c)}
            if not all(id(n) in inside_cls for n in refs) or name in stores:
                continue
            # names the closure would capture from __init__ by accident (its own locals / parameters shadow nothing there)
            own = {a.arg for a in m_.args.posonlyargs + m_.args.args + m_.args.kwonlyargs} | \
                {n.id for n in ast.walk(m_) if isinstance(n, ast.Name) and isinstance(n.ctx, ast.Store)}
            free = {n.id for n in ast.walk(m_) if isinstance(n, ast.Name) and isinstance(n.ctx, ast.Load)} - own
            if free & ((iparams | istored) - {"self"}):
                continue       # a global of that name is meant in the method; in the closure it would be the constructor's local
            moved.append((name, m_))
        if not moved:
            continue
        at = 1 if init.body and isinstance(init.body[0], ast.Expr) and isinstance(init.body[0].value, ast.Constant) else 0
        for name, m_ in moved:
            c.body.remove(m_)
            d = copy.deepcopy(m_)
            d.args.args = d.args.args[1:]

            class F(ast.NodeTransformer):
                def visit_Attribute(self, a):
                    self.generic_visit(a)
                    if isinstance(a.value, ast.Name) and a.value.id == "self" and isinstance(a.ctx, ast.Load) and a.attr in fwd \
                            and fwd[a.attr] not in own_:
                        return ast.copy_location(ast.Name(fwd[a.attr], ast.Load()), a)
                    return a
            own_ = {a.arg for a in d.args.posonlyargs + d.args.args + d.args.kwonlyargs} | \
                {n.id for n in ast.walk(d) if isinstance(n, ast.Name) and isinstance(n.ctx, ast.Store)}
            F().visit(d)
            d.returns = None
            setter = ast.Assign(targets=[ast.Attribute(value=ast.Name("self", ast.Load()), attr=name, ctx=ast.Store())], value=ast.Name(name, ast.Load()))
            for x in (d, setter):
                ast.copy_location(x, init.body[at] if at < len(init.body) else init)
                ast.fix_missing_locations(x)
            init.body[at:at] = [d, setter]
            at += 2
            stats["method -> closure"] = stats.get("method -> closure", 0) + 1
        # calls self.m(..) inside __init__ and inside the moved closures reach the closure directly
        names = {n for n, _ in moved}

        class G(ast.NodeTransformer):
            def visit_Attribute(self, a):
                self.generic_visit(a)
                if isinstance(a.value, ast.Name) and a.value.id == "self" and isinstance(a.ctx, ast.Load) and a.attr in names:
                    return ast.copy_location(ast.Name(a.attr, ast.Load()), a)
                return a
        for i_, st in enumerate(init.body):
            if isinstance(st, ast.Assign) and isinstance(st.value, ast.Name) and st.value.id in names and isinstance(st.targets[0], ast.Attribute) \
                    and st.targets[0].attr == st.value.id:
                continue
            init.body[i_] = G().visit(st)
        # a closure nobody reaches through the instance needs no attribute
        for nm_ in names:
            if not any(isinstance(n, ast.Attribute) and n.attr == nm_ and isinstance(n.ctx, ast.Load) for n in ast.walk(tree)):
                for st in list(init.body):
                    if isinstance(st, ast.Assign) and len(st.targets) == 1 and isinstance(st.targets[0], ast.Attribute) and st.targets[0].attr == nm_ \
                            and isinstance(st.value, ast.Name) and st.value.id == nm_:
                        init.body.remove(st)
        # forwarding stores nobody reads any more
        for attr, p_ in fwd.items():
            if not any(isinstance(n, ast.Attribute) and n.attr == attr and isinstance(n.ctx, ast.Load) for n in ast.walk(tree)):
                for st in list(init.body):
                    if isinstance(st, ast.Assign) and len(st.targets) == 1 and isinstance(st.targets[0], ast.Attribute) and st.targets[0].attr == attr \
                            and isinstance(st.value, ast.Name) and st.value.id == p_:
                        init.body.remove(st)
        ast.fix_missing_locations(tree)


def _returning_hooks(tree: ast.Module, stats: Dict[str, int]) -> None:
    """a hook attribute `self.h` that only ever holds closures of __init__ ending in `return E`, and is only ever used as
    `self.a = self.h()` (one attribute a): the closures store (`self.a = E`) and the sites just call (`self.h()`) --
    same stores at the same moments"""
    for c in tree.body:
        if not isinstance(c, ast.ClassDef):
            continue
        init = next((m_ for m_ in c.body if isinstance(m_, ast.FunctionDef) and m_.name == "__init__"), None)
        if init is None:
            continue
        parent = {id(ch): p_ for p_ in ast.walk(c) for ch in ast.iter_child_nodes(p_)}
        hooks: Dict[str, List[ast.Assign]] = {}
        bad = set()
        for n in ast.walk(c):
            if isinstance(n, ast.Attribute) and isinstance(n.value, ast.Name) and n.value.id == "self" and isinstance(n.ctx, ast.Store):
                st = parent.get(id(n))
                inside_init = any(st is x for x in ast.walk(init))
                if isinstance(st, ast.Assign) and len(st.targets) == 1 and isinstance(st.value, ast.Name) and inside_init:
                    hooks.setdefault(n.attr, []).append(st)
                else:
                    bad.add(n.attr)
        for h, sts in hooks.items():
            if h in bad:
                continue
            # the closures
            cl = []
            for st in sts:
                defs = [d for d in ast.walk(init) if isinstance(d, ast.FunctionDef) and d.name == st.value.id and d is not init]
                if not defs:
                    cl = None
                    break
                cl += defs
            if not cl:
                continue
            okc = True
            for d in cl:
                rets = [r for r in ast.walk(d) if isinstance(r, ast.Return)]
                loads = [n for n in ast.walk(init) if isinstance(n, ast.Name) and n.id == d.name and isinstance(n.ctx, ast.Load)]
                if len(rets) != 1 or rets[0] is not d.body[-1] or rets[0].value is None or d.args.args or d.args.vararg or d.args.kwarg or d.args.kwonlyargs \
                        or any(parent.get(id(n)) not in sts for n in loads):
                    okc = False
            if not okc:
                continue
            uses = [n for n in ast.walk(tree) if isinstance(n, ast.Attribute) and n.attr == h and isinstance(n.ctx, ast.Load)]
            targets = set()
            sites = []
            for u in uses:
                call = parent.get(id(u))
                st = parent.get(id(call)) if isinstance(call, ast.Call) and call.func is u and not call.args and not call.keywords else None
                if not (isinstance(u.value, ast.Name) and u.value.id == "self" and isinstance(st, ast.Assign) and st.value is call and len(st.targets) == 1
                        and isinstance(st.targets[0], ast.Attribute) and isinstance(st.targets[0].value, ast.Name) and st.targets[0].value.id == "self"):
                    targets.add(None)
                    break
                targets.add(st.targets[0].attr)
                sites.append(st)
            if len(targets) != 1 or None in targets or not sites:
                continue
            a = next(iter(targets))
            for d in {id(x): x for x in cl}.values():
                r = d.body[-1]
                d.body[-1] = ast.copy_location(ast.Assign(targets=[ast.Attribute(value=ast.Name("self", ast.Load()), attr=a, ctx=ast.Store())], value=r.value), r)
                ast.fix_missing_locations(d.body[-1])
            for st in sites:
                for b in _bodies_of(c):
                    if st in b:
                        b[b.index(st)] = ast.fix_missing_locations(ast.copy_location(ast.Expr(value=st.value), st))
            stats["returning hook -> storing hook"] = stats.get("returning hook -> storing hook", 0) + 1


def _bodies_of(node: ast.AST):
    for x in ast.walk(node):
        for fld in ("body", "orelse", "finalbody"):
            b = getattr(x, fld, None)
            if isinstance(b, list) and b and isinstance(b[0], ast.stmt):
                yield b
        if isinstance(x, ast.Try):
            for h_ in x.handlers:
                yield h_.body


def inline_module(tree: ast.Module, modname: str, known: Set[str], stats: Dict[str, int]) -> None:
    _methods_to_closures(tree, modname, known, stats, early=True)
    _inline_rounds(tree, modname, known, stats)
    # what ordinary inlining leaves behind: architecture-level changes of a class (hooks, closures turned into methods,
    # a constructor delegating to a method); undo them, then inline again
    before = dict(stats)
    _specialise_hooks(tree, stats)
    _returning_hooks(tree, stats)
    _methods_to_closures(tree, modname, known, stats)
    _ctor_delegates(tree, stats)
    if stats != before:
        _inline_rounds(tree, modname, known, stats)


def _specialise_hooks(tree: ast.Module, stats: Dict[str, int]) -> None:
    """a hook attribute `self.h` that only ever holds closures of __init__ taking parameters, and that every site calls
    with the same attribute reads of self (`self.h(self.x)`): the closures read those attributes themselves and take no
    parameter -- what the reference tree does.  The closures must not write the attributes they are given."""
    for c in tree.body:
        if not isinstance(c, ast.ClassDef):
            continue
        init = next((m_ for m_ in c.body if isinstance(m_, ast.FunctionDef) and m_.name == "__init__"), None)
        if init is None:
            continue
        parent = {id(ch): p_ for p_ in ast.walk(c) for ch in ast.iter_child_nodes(p_)}
        hooks: Dict[str, List[ast.Assign]] = {}
        bad = set()
        for n in ast.walk(c):
            if isinstance(n, ast.Attribute) and isinstance(n.value, ast.Name) and n.value.id == "self" and isinstance(n.ctx, ast.Store):
                st = parent.get(id(n))
                if isinstance(st, ast.Assign) and len(st.targets) == 1 and isinstance(st.value, ast.Name) and any(st is x for x in ast.walk(init)):
                    hooks.setdefault(n.attr, []).append(st)
                else:
                    bad.add(n.attr)
        for h, sts in hooks.items():
            if h in bad:
                continue
            cl = [d for st in sts for d in ast.walk(init) if isinstance(d, ast.FunctionDef) and d.name == st.value.id and d is not init]
            if not cl:
                continue
            sig = {tuple(a.arg for a in d.args.args) for d in cl}
            if len(sig) != 1 or not next(iter(sig)) or any(d.args.vararg or d.args.kwarg or d.args.kwonlyargs or d.args.defaults or d.decorator_list for d in cl):
                continue
            params = next(iter(sig))
            # every use of the hook and every direct call of the closures
            sites = []
            ok = True
            for u in ast.walk(c):
                if isinstance(u, ast.Attribute) and u.attr == h and isinstance(u.ctx, ast.Load):
                    call = parent.get(id(u))
                    if not (isinstance(call, ast.Call) and call.func is u and isinstance(u.value, ast.Name) and u.value.id == "self"):
                        ok = False
                    else:
                        sites.append(call)
                if isinstance(u, ast.Name) and isinstance(u.ctx, ast.Load) and u.id in {d.name for d in cl}:
                    call = parent.get(id(u))
                    if isinstance(call, ast.Call) and call.func is u:
                        sites.append(call)
                    elif parent.get(id(u)) not in sts:
                        ok = False
            if not ok or not sites:
                continue
            args0 = None
            for call in sites:
                if call.keywords or len(call.args) != len(params) or not all(
                        isinstance(a, ast.Attribute) and isinstance(a.value, ast.Name) and a.value.id == "self" for a in call.args):
                    ok = False
                    break
                dumped = [ast.dump(a) for a in call.args]
                if args0 is None:
                    args0 = dumped
                elif dumped != args0:
                    ok = False
                    break
            if not ok:
                continue
            given = {a.attr for a in sites[0].args}
            if any(isinstance(n, ast.Attribute) and isinstance(n.ctx, (ast.Store, ast.Del)) and isinstance(n.value, ast.Name) and n.value.id == "self"
                   and n.attr in given for d in cl for n in ast.walk(d)):
                continue
            if any(isinstance(n, ast.Name) and isinstance(n.ctx, (ast.Store, ast.Del)) and n.id in params for d in cl for n in ast.walk(d)):
                continue
            m = {p_: sites[0].args[i] for i, p_ in enumerate(params)}
            for d in cl:
                d.args.args = []
                holder = ast.Module(body=d.body, type_ignores=[])
                Subst(dict(m)).visit(holder)
                d.body = holder.body
                ast.fix_missing_locations(d)
            for call in sites:
                call.args = []
            stats["hook arguments specialised"] = stats.get("hook arguments specialised", 0) + 1


def _inline_rounds(tree: ast.Module, modname: str, known: Set[str], stats: Dict[str, int]) -> None:
    for _round in range(4):
        helpers: Dict[Tuple[Optional[str], str], Helper] = {}
        for n in tree.body:
            if isinstance(n, ast.FunctionDef) and f"{modname}.{n.name}" not in known:
                helpers[(None, n.name)] = Helper(n, None)
            elif isinstance(n, ast.ClassDef):
                for m_ in n.body:
                    if isinstance(m_, ast.FunctionDef) and f"{modname}.{n.name}.{m_.name}" not in known \
                            and not (m_.name.startswith("__") and m_.name.endswith("__")):
                        helpers[(n.name, m_.name)] = Helper(m_, n.name)
        helpers = {k: h for k, h in helpers.items() if h.ok}
        # clean the helpers up first (their own bodies only)
        for h in helpers.values():
            _unroll_comprehensions(h.node)
            from .desugar import _splat, _split_parallel
            _split_parallel(h.node)
            _splat(h.node)
            _forward_temps(h.node)
            hh = Helper(h.node, h.cls)
            h.body, h.ok = hh.body, hh.ok
        progress = False
        # callers: every function of the module (helpers included, inner-most first is not needed: we iterate rounds)
        owners: List[Tuple[ast.FunctionDef, Optional[str]]] = []
        for n in tree.body:
            if isinstance(n, ast.FunctionDef):
                owners.append((n, None))
            elif isinstance(n, ast.ClassDef):
                owners += [(m_, n.name) for m_ in n.body if isinstance(m_, ast.FunctionDef)]
        for fn, cls in owners:
            q = f"{modname}.{cls}.{fn.name}" if cls else f"{modname}.{fn.name}"
            if _inline_into(fn, cls, helpers, stats, q, known):
                progress = True
        # drop helpers that are no longer referenced
        for (cls, name), h in list(helpers.items()):
            refs = 0
            for n in ast.walk(tree):
                if n is h.node:
                    continue
                if cls is None and isinstance(n, ast.Name) and n.id == name:
                    refs += 1
                if cls is not None and isinstance(n, ast.Attribute) and n.attr == name:
                    refs += 1
            inner = sum(1 for n in ast.walk(h.node) if (isinstance(n, ast.Name) and n.id == name) or (isinstance(n, ast.Attribute) and n.attr == name))
            if refs - inner <= 0:
                if cls is None and h.node in tree.body:
                    tree.body.remove(h.node)
                    stats["helpers removed"] = stats.get("helpers removed", 0) + 1
                elif cls is not None:
                    for c in tree.body:
                        if isinstance(c, ast.ClassDef) and c.name == cls and h.node in c.body:
                            c.body.remove(h.node)
                            stats["helpers removed"] = stats.get("helpers removed", 0) + 1
        if not progress:
            return


def _find_helper(call: ast.Call, cls: Optional[str], helpers) -> Tuple[Optional[Helper], bool]:
    f = call.func
    if isinstance(f, ast.Name) and (None, f.id) in helpers:
        return helpers[(None, f.id)], False
    if isinstance(f, ast.Attribute) and isinstance(f.value, ast.Name) and f.value.id == "self" and cls is not None \
            and (cls, f.attr) in helpers:
        return helpers[(cls, f.attr)], True
    return None, False


def _fresh(base: str, taken: Set[str]) -> str:
    if base not in taken:
        return base
    k = 1
    while f"{base}_{k}" in taken:
        k += 1
    return f"{base}_{k}"


def _nested_helpers(fn: ast.FunctionDef, qual: str, known: Set[str]) -> Dict[Tuple[Optional[str], str], "Helper"]:
    """closures defined in `fn` that are only ever called there (never passed on, returned or stored): a call of a
    closure reads the enclosing variables at call time, which is exactly what the inlined body does"""
    out = {}
    for n in _own_nodes(fn):
        if isinstance(n, ast.FunctionDef) and f"{qual}.{n.name}" not in known:
            loads = [x for x in ast.walk(fn) if isinstance(x, ast.Name) and x.id == n.name and isinstance(x.ctx, ast.Load)]
            called = [c for c in ast.walk(fn) if isinstance(c, ast.Call) and isinstance(c.func, ast.Name) and c.func.id == n.name]
            defs = [x for x in _own_nodes(fn) if isinstance(x, ast.FunctionDef) and x.name == n.name]
            if len(defs) == 1 and loads and len(loads) == len(called) and not any(any(x is c for x in ast.walk(n)) for c in called):
                h = Helper(n, None)
                # the closure must not rebind names of the enclosing function (it cannot without nonlocal) and its own
                # locals must not be read by the enclosing function afterwards -- they are renamed on collision anyway
                if h.ok:
                    out[(None, n.name)] = h
    return out


def _inline_into(fn: ast.FunctionDef, cls: Optional[str], helpers, stats: Dict[str, int], qual: str = "", known: Optional[Set[str]] = None) -> bool:
    progress = False
    nested = _nested_helpers(fn, qual, known) if known is not None else {}
    if nested:
        helpers = {**helpers, **nested}
        for h in nested.values():
            _unroll_comprehensions(h.node)
            from .desugar import _splat as _sp2, _split_parallel as _spp2
            _spp2(h.node)
            _sp2(h.node)
            hh = Helper(h.node, None)
            h.body, h.ok = hh.body, hh.ok
    # ---------------- expression sites
    class E(ast.NodeTransformer):
        def visit_FunctionDef(self, n):
            if n is fn:
                self.generic_visit(n)
            return n

        def visit_Call(self, c: ast.Call):
            nonlocal progress
            self.generic_visit(c)
            h, is_m = _find_helper(c, cls, helpers)
            if h is None or h.node is fn:
                return c
            e = h.expr_form()
            if e is None:
                return c
            m = _bind(h, c, is_m)
            if m is None:
                return c
            stored = {n.id for n in ast.walk(h.node) if isinstance(n, ast.Name) and isinstance(n.ctx, ast.Store)}
            for p, a in m.items():
                uses = _count_loads(e, p)
                if p in stored:
                    return c
                if not _simple_arg(a) and uses > 1 and not _is_pure(a):
                    return c
                # a call-bearing argument used zero times would drop an evaluation
                if uses == 0 and not _is_pure(a):
                    return c
            r = Subst(m).visit(copy.deepcopy(e))
            r = Fold().visit(r)
            progress = True
            stats["inlined (expression)"] = stats.get("inlined (expression)", 0) + 1
            return ast.fix_missing_locations(ast.copy_location(r, c))
    E().visit(fn)
    # ---------------- nested sites: hoist `.. h(..) ..` to `tmp = h(..)` in front of a simple statement when nothing
    # with an effect is evaluated before the call inside that statement
    def _evaluated_before(root: ast.AST, target: ast.AST) -> Optional[List[ast.AST]]:
        """nodes of `root` evaluated before `target` starts (left-to-right, arguments before the call); None if the
        position of target makes its evaluation conditional or repeated"""
        before: List[ast.AST] = []

        def go(n: ast.AST) -> Optional[bool]:
            if n is target:
                return True
            if isinstance(n, (ast.Lambda, ast.GeneratorExp, ast.ListComp, ast.SetComp, ast.DictComp)):
                return False if not any(x is target for x in ast.walk(n)) else None
            if isinstance(n, (ast.BoolOp, ast.IfExp)):
                kids = list(ast.iter_child_nodes(n))
                first = n.values[0] if isinstance(n, ast.BoolOp) else n.test
                for k_ in kids:
                    if any(x is target for x in ast.walk(k_)):
                        if k_ is not first:
                            return None          # conditional evaluation
                        return go(k_)
                before.append(n)
                return False
            for k_ in ast.iter_child_nodes(n):
                r_ = go(k_)
                if r_ is None:
                    return None
                if r_:
                    return True
            before.append(n)
            return False
        r0 = go(root)
        return before if r0 else None

    hoisted = True
    while hoisted:
        hoisted = False
        for body in _bodies(fn):
            for i, s in enumerate(body):
                roots: List[ast.AST] = []
                if isinstance(s, (ast.Assign, ast.AnnAssign, ast.AugAssign, ast.Expr, ast.Return)) and getattr(s, "value", None) is not None:
                    roots = [s.value]
                elif isinstance(s, ast.If):
                    roots = [s.test]
                for root in roots:
                    for c in ast.walk(root):
                        if not isinstance(c, ast.Call):
                            continue
                        if c is root and not isinstance(s, ast.If):
                            continue                      # whole-value sites are handled below
                        h, is_m = _find_helper(c, cls, helpers)
                        if h is None or h.node is fn or not h.ok or h.expr_form() is not None:
                            continue
                        bef = _evaluated_before(root, c)
                        if bef is None or any(isinstance(x, ast.Call) and not _pure_call(x) for x in bef) or \
                                any(isinstance(x, (ast.NamedExpr, ast.Await, ast.Yield)) for x in bef):
                            continue
                        taken = {n.id for n in ast.walk(fn) if isinstance(n, ast.Name)}
                        nm = _fresh(f"{h.name.strip('_')}_value", taken)
                        a = ast.Assign(targets=[ast.Name(id=nm, ctx=ast.Store())], value=c)
                        ast.copy_location(a, s)
                        repl = ast.copy_location(ast.Name(id=nm, ctx=ast.Load()), c)

                        class R(ast.NodeTransformer):
                            def visit_Call(self, n):
                                if n is c:
                                    return repl
                                return self.generic_visit(n)
                        if isinstance(s, ast.If):
                            s.test = R().visit(s.test)
                        else:
                            s.value = R().visit(s.value)
                        ast.fix_missing_locations(a)
                        body.insert(i, a)
                        hoisted = True
                        break
                    if hoisted:
                        break
                if hoisted:
                    break
            if hoisted:
                break
    # ---------------- statement sites
    changed = True
    while changed:
        changed = False
        for body in _bodies(fn):
            for i, s in enumerate(body):
                call, res_targets, kind = None, None, None
                if isinstance(s, ast.AnnAssign) and isinstance(s.value, ast.Call) and isinstance(s.target, ast.Name) \
                        and _find_helper(s.value, cls, helpers)[0] is not None:
                    # `t: T = h(..)`: the annotation plays no role at run time
                    s = ast.fix_missing_locations(ast.copy_location(ast.Assign(targets=[s.target], value=s.value), s))
                    body[i] = s
                if isinstance(s, ast.Assign) and isinstance(s.value, ast.Call):
                    call, kind = s.value, "assign"
                elif isinstance(s, ast.Return) and isinstance(s.value, ast.Call):
                    call, kind = s.value, "return"
                elif isinstance(s, ast.Expr) and isinstance(s.value, ast.Call):
                    call, kind = s.value, "expr"
                if call is None:
                    continue
                h, is_m = _find_helper(call, cls, helpers)
                if h is None or h.node is fn or not h.ok:
                    continue
                m = _bind(h, call, is_m)
                if m is None:
                    continue
                caller_names = {n.id for n in ast.walk(fn) if isinstance(n, ast.Name)} | {a.arg for a in fn.args.args + fn.args.kwonlyargs}
                h_stored = {n.id for n in _own_nodes(h.node) if isinstance(n, ast.Name) and isinstance(n.ctx, ast.Store)} | \
                    {n.name for n in _own_nodes(h.node) if isinstance(n, ast.FunctionDef)}
                pre: List[ast.stmt] = []
                sub: Dict[str, ast.expr] = {}
                taken = set(caller_names)
                for p, a in m.items():
                    if _simple_arg(a) and p not in h_stored:
                        sub[p] = a
                    elif p == "self" and is_m:
                        sub[p] = a
                    elif _is_pure(a) and p not in h_stored and not (_free(a) & h_stored) and \
                            not any(isinstance(x, (ast.Attribute, ast.Subscript)) and isinstance(x.ctx, ast.Store) for x in _own_nodes(h.node)) \
                            and not any(isinstance(x, ast.Call) and not _pure_call(x) for x in _own_nodes(h.node)):
                        sub[p] = a           # pure argument, helper without effects that could change it
                    else:
                        nm = _fresh(p, taken) if p in caller_names else p
                        if nm in taken:
                            nm = _fresh(f"{h.name.strip('_')}_{p}", taken)
                        taken.add(nm)
                        t = ast.Assign(targets=[ast.Name(id=nm, ctx=ast.Store())], value=copy.deepcopy(a))
                        pre.append(ast.fix_missing_locations(ast.copy_location(t, s)))
                        sub[p] = ast.Name(id=nm, ctx=ast.Load())
                # helper locals: rename on collision
                for loc in sorted(h_stored - set(m)):
                    if loc in caller_names or loc in taken:
                        nm = _fresh(f"{h.name.strip('_')}_{loc}", taken)
                        taken.add(nm)
                        sub[loc] = ast.Name(id=nm, ctx=ast.Load())
                    else:
                        taken.add(loc)
                res = None
                if kind in ("assign", "return"):
                    res = _fresh(f"{h.name.strip('_')}_result", taken)
                tree_ = _tail_tree(h.body, res, [400])
                if tree_ is None:
                    continue
                new_body: List[ast.stmt] = []
                for st in tree_:
                    st2 = Subst(sub).visit(st)
                    # nested function definitions keep their (possibly renamed) names
                    if isinstance(st2, ast.FunctionDef) and st2.name in sub and isinstance(sub[st2.name], ast.Name):
                        st2.name = sub[st2.name].id
                    st2 = Fold().visit(st2)
                    if isinstance(st2, list):
                        new_body += st2
                    elif st2 is not None:
                        new_body.append(st2)
                # locals of the inlined body bound once to a literal: use the literal (e.g. an attribute name built from a parameter)
                cbind: Dict[str, ast.Constant] = {}
                cnt: Dict[str, int] = {}
                for st in new_body:
                    for n_ in ast.walk(st):
                        if isinstance(n_, ast.Name) and isinstance(n_.ctx, ast.Store):
                            cnt[n_.id] = cnt.get(n_.id, 0) + 1
                for st in new_body:
                    if isinstance(st, ast.Assign) and len(st.targets) == 1 and isinstance(st.targets[0], ast.Name) and isinstance(st.value, ast.Constant) \
                            and cnt.get(st.targets[0].id) == 1 and st.targets[0].id not in caller_names:
                        cbind[st.targets[0].id] = st.value
                if cbind:
                    new_body = [Fold().visit(Subst(cbind).visit(st)) for st in new_body
                                if not (isinstance(st, ast.Assign) and isinstance(st.targets[0], ast.Name) and st.targets[0].id in cbind)]
                    flat = []
                    for st in new_body:
                        flat += st if isinstance(st, list) else [st]
                    new_body = [st for st in flat if st is not None] or [ast.copy_location(ast.Pass(), s)]
                for st in new_body:
                    for n_ in ast.walk(st):
                        if hasattr(n_, "lineno"):
                            n_.lineno = s.lineno
                            n_.end_lineno = getattr(s, "end_lineno", s.lineno)
                    ast.fix_missing_locations(st)
                tail: List[ast.stmt] = []
                if kind == "assign" and len(s.targets) == 1 and isinstance(s.targets[0], ast.Tuple) and \
                        not any(isinstance(e_, ast.Starred) for e_ in s.targets[0].elts):
                    # `a, b = h(..)` and every branch of h ends in `res = (e1, e2)`: assign a and b in the branches
                    res_assigns = [x for st in new_body for x in ast.walk(st) if isinstance(x, ast.Assign) and isinstance(x.targets[0], ast.Name)
                                   and x.targets[0].id == res]
                    res_loads = [x for st in new_body for x in ast.walk(st) if isinstance(x, ast.Name) and x.id == res and isinstance(x.ctx, ast.Load)]
                    k_ = len(s.targets[0].elts)
                    if res_assigns and not res_loads and all(isinstance(x.value, ast.Tuple) and len(x.value.elts) == k_ for x in res_assigns):
                        class U(ast.NodeTransformer):
                            def visit_Assign(self, x):
                                if x in res_assigns:
                                    tg_ = [copy.deepcopy(t_) for t_ in s.targets[0].elts]
                                    a_ = ast.Assign(targets=[ast.Tuple(elts=tg_, ctx=ast.Store())], value=x.value)
                                    return ast.fix_missing_locations(ast.copy_location(a_, x))
                                return x
                        new_body = [U().visit(st) for st in new_body]
                        kind = "done"
                if kind == "assign":
                    # a single trailing `res = E` becomes the original assignment
                    last = new_body[-1] if new_body else None
                    if isinstance(last, ast.Assign) and isinstance(last.targets[0], ast.Name) and last.targets[0].id == res and \
                            sum(1 for n_ in ast.walk(ast.Module(body=new_body, type_ignores=[])) if isinstance(n_, ast.Name) and n_.id == res) == 1:
                        new_body[-1] = ast.fix_missing_locations(ast.copy_location(ast.Assign(targets=s.targets, value=last.value), s))
                    else:
                        tail = [ast.fix_missing_locations(ast.copy_location(ast.Assign(targets=s.targets, value=ast.Name(id=res, ctx=ast.Load())), s))]
                elif kind == "return":
                    last = new_body[-1] if new_body else None
                    if isinstance(last, ast.Assign) and isinstance(last.targets[0], ast.Name) and last.targets[0].id == res and \
                            sum(1 for n_ in ast.walk(ast.Module(body=new_body, type_ignores=[])) if isinstance(n_, ast.Name) and n_.id == res) == 1:
                        new_body[-1] = ast.fix_missing_locations(ast.copy_location(ast.Return(value=last.value), s))
                    else:
                        new_body = _returns_pushed(new_body, res, s)
                body[i:i + 1] = pre + new_body + tail
                stats["inlined (statement)"] = stats.get("inlined (statement)", 0) + 1
                progress = changed = True
                break
            if changed:
                break
    if progress and nested:
        for (_, name), h in nested.items():
            if not any(isinstance(x, ast.Name) and x.id == name and isinstance(x.ctx, ast.Load) for x in ast.walk(fn)):
                for body in _bodies(fn):
                    if h.node in body:
                        body.remove(h.node)
                        if not body:
                            body.append(ast.copy_location(ast.Pass(), h.node))
                        stats["helpers removed"] = stats.get("helpers removed", 0) + 1
    if progress:
        _flatten_pass(fn)
    return progress


def _returns_pushed(stmts: List[ast.stmt], res: str, at: ast.stmt) -> List[ast.stmt]:
    """`return h(..)`: turn the trailing `res = E` of every branch of the if/else tree back into `return E`"""
    if not stmts:
        return [ast.copy_location(ast.Return(value=None), at)]
    last = stmts[-1]
    if isinstance(last, ast.Assign) and isinstance(last.targets[0], ast.Name) and last.targets[0].id == res:
        stmts[-1] = ast.fix_missing_locations(ast.copy_location(ast.Return(value=last.value), last))
        return stmts
    if isinstance(last, ast.If):
        last.body = _returns_pushed(last.body, res, at)
        last.orelse = _returns_pushed(last.orelse, res, at) if last.orelse else [ast.fix_missing_locations(ast.copy_location(ast.Return(value=ast.Name(id=res, ctx=ast.Load())), at))]
        return stmts
    stmts.append(ast.fix_missing_locations(ast.copy_location(ast.Return(value=ast.Name(id=res, ctx=ast.Load())), at)))
    return stmts
