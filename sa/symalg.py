"""sa.symalg -- symbolic execution of straight-line numerical kernels into a small linear-algebra
normal form, so that a kernel can be compared with its reference formula *up to algebraic
equivalence* (no text matching, nothing executed).

Values
  Sc(e)   scalar: a commutative sympy expression
  Vec(t)  vector: finite linear combination {basis name: scalar coefficient}
Linear maps are applied to basis names ("M(p)"); inner products of basis vectors become
commutative symbols <a|b> (symmetric), and <a|M(b)> = <b|M(a)> for maps declared symmetric.
"""
from __future__ import annotations

import ast
from fractions import Fraction
from typing import Callable, Dict, List, Optional, Tuple

import sympy as sp

from .core import AnalysisError, dotted, short, src


class Sc:
    def __init__(self, e):
        self.e = sp.sympify(e)

    def __repr__(self):
        return f"Sc({self.e})"


class Vec:
    def __init__(self, t: Dict[str, object]):
        self.t = {k: sp.sympify(v) for k, v in t.items() if sp.sympify(v) != 0}

    def __repr__(self):
        return "Vec(" + " + ".join(f"({v})*{k}" for k, v in sorted(self.t.items())) + ")"


def vadd(a: Vec, b: Vec, sign=1) -> Vec:
    t = dict(a.t)
    for k, v in b.t.items():
        t[k] = sp.expand(t.get(k, 0) + sign * v)
    return Vec(t)


def vscale(a: Vec, s) -> Vec:
    return Vec({k: sp.expand(v * s) for k, v in a.t.items()})


def _split_map(b: str) -> Tuple[Optional[str], str]:
    if "(" in b and b.endswith(")"):
        m, inner = b.split("(", 1)
        return m, inner[:-1]
    return None, b


def dot_basis(a: str, b: str, symmetric_maps) -> sp.Symbol:
    ma, ia = _split_map(a)
    mb, ib = _split_map(b)
    if ma is None and mb is None:
        x, y = sorted([ia, ib])
        return sp.Symbol(f"<{x}|{y}>")
    if (ma is None) != (mb is None):
        m = ma or mb
        if m in symmetric_maps:
            x, y = sorted([ia, ib])
            return sp.Symbol(f"<{x}|{m}|{y}>")
        return sp.Symbol(f"<{ib if ma else ia}|{m}|{ia if ma else ib}>")
    x, y = sorted([a, b])
    return sp.Symbol(f"<{x}|{y}>")


class Kernel:
    """symbolic interpreter for one code slice"""

    def __init__(self, bindings: Dict[str, object], conds: Dict[str, bool], maps: Dict[str, str],
                 symmetric_maps=("M",), skip_if_mentions=("iprint", "logger"), ignore_stores=(), recv_maps=None):
        self.bind = bindings          # normalised source -> value (checked before structural evaluation)
        self.conds = conds            # normalised test source -> outcome
        self.maps = maps              # callee dotted name -> linear map name:  {"bmv": "M"}
        self.sym = set(symmetric_maps)
        self.skip = skip_if_mentions
        self.ignore_stores = set(ignore_stores)
        self.recv_maps = dict(recv_maps or {})     # source of a matrix receiver -> linear map name (A.dot(v))
        self.env: Dict[str, object] = {}
        self.unknown = set()

    # ------------------------------------------------------------ expressions
    def num(self, v) -> Sc:
        if isinstance(v, bool):
            raise AnalysisError("boolean constant in a numerical kernel")
        if isinstance(v, int):
            return Sc(sp.Integer(v))
        if isinstance(v, float):
            return Sc(sp.Rational(Fraction(repr(v))))
        raise AnalysisError(f"constant {v!r} in a numerical kernel")

    def ev(self, e: ast.expr):
        k = src(e)
        if k in self.bind:
            return self.bind[k]
        if isinstance(e, ast.Constant):
            return self.num(e.value)
        if isinstance(e, ast.Name):
            if e.id in self.env:
                return self.env[e.id]
            # a name the slice does not define: an opaque scalar of its own (never equal to a reference symbol)
            self.unknown.add(e.id)
            return Sc(sp.Symbol("?" + e.id, real=True))
        if isinstance(e, ast.UnaryOp) and isinstance(e.op, ast.USub):
            v = self.ev(e.operand)
            return Sc(-v.e) if isinstance(v, Sc) else vscale(v, -1)
        if isinstance(e, ast.UnaryOp) and isinstance(e.op, ast.UAdd):
            return self.ev(e.operand)
        if isinstance(e, ast.BinOp) and isinstance(e.op, ast.MatMult) and src(e.left) in self.recv_maps:
            v = self.ev(e.right)
            if isinstance(v, Vec):
                return Vec({f"{self.recv_maps[src(e.left)]}({k})": coef for k, coef in v.t.items()})
        if isinstance(e, ast.BinOp):
            a, b = self.ev(e.left), self.ev(e.right)
            op = type(e.op)
            if op in (ast.Add, ast.Sub):
                sg = 1 if op is ast.Add else -1
                if isinstance(a, Sc) and isinstance(b, Sc):
                    return Sc(a.e + sg * b.e)
                if isinstance(a, Vec) and isinstance(b, Vec):
                    return vadd(a, b, sg)
                raise AnalysisError(f"symalg: scalar +/- vector in `{short(e)}`")
            if op is ast.Mult:
                if isinstance(a, Sc) and isinstance(b, Sc):
                    return Sc(a.e * b.e)
                if isinstance(a, Sc) and isinstance(b, Vec):
                    return vscale(b, a.e)
                if isinstance(a, Vec) and isinstance(b, Sc):
                    return vscale(a, b.e)
                raise AnalysisError(f"symalg: elementwise vector product in `{short(e)}`")
            if op is ast.Div:
                if isinstance(b, Sc):
                    return Sc(a.e / b.e) if isinstance(a, Sc) else vscale(a, 1 / b.e)
                raise AnalysisError(f"symalg: division by a vector in `{short(e)}`")
            if op is ast.Pow and isinstance(a, Sc) and isinstance(b, Sc):
                return Sc(a.e ** b.e)
            if op is ast.MatMult and isinstance(a, Vec) and isinstance(b, Vec):
                return self.dot(a, b)
            raise AnalysisError(f"symalg: operator in `{short(e)}`")
        if isinstance(e, ast.IfExp):
            # 0 if x < 0 else x   ==  pos(x)
            t = e.test
            if isinstance(t, ast.Compare) and len(t.ops) == 1 and isinstance(t.ops[0], ast.Lt) and \
                    isinstance(t.comparators[0], ast.Constant) and t.comparators[0].value == 0 and \
                    isinstance(e.body, ast.Constant) and e.body.value == 0 and src(t.left) == src(e.orelse):
                v = self.ev(e.orelse)
                return Sc(sp.Function("pos")(sp.expand(v.e)))
            c = src(t)
            if c in self.conds:
                return self.ev(e.body if self.conds[c] else e.orelse)
            raise AnalysisError(f"symalg: conditional expression `{short(e)}`")
        if isinstance(e, ast.Call):
            return self.call(e)
        raise AnalysisError(f"symalg: expression `{short(e)}`")

    def dot(self, a: Vec, b: Vec) -> Sc:
        tot = sp.Integer(0)
        for ka, va in a.t.items():
            for kb, vb in b.t.items():
                tot += va * vb * dot_basis(ka, kb, self.sym)
        return Sc(sp.expand(tot))

    def call(self, c: ast.Call):
        d = dotted(c.func) or ""
        if isinstance(c.func, ast.Attribute) and c.func.attr == "dot" and len(c.args) == 1 and src(c.func.value) in self.recv_maps:
            v = self.ev(c.args[0])
            m = self.recv_maps[src(c.func.value)]
            if isinstance(v, Vec):
                return Vec({f"{m}({k})": coef for k, coef in v.t.items()})
            raise AnalysisError(f"symalg: matrix applied to a scalar in `{short(c)}`")
        if isinstance(c.func, ast.Attribute) and c.func.attr == "dot" and len(c.args) == 1 and not d.startswith("np."):
            a, b = self.ev(c.func.value), self.ev(c.args[0])
            if isinstance(a, Vec) and isinstance(b, Vec):
                return self.dot(a, b)
            raise AnalysisError(f"symalg: .dot of non-vectors in `{short(c)}`")
        if d in ("np.dot", "np.inner", "np.vdot") and len(c.args) == 2:
            a, b = self.ev(c.args[0]), self.ev(c.args[1])
            if isinstance(a, Vec) and isinstance(b, Vec):
                return self.dot(a, b)
        if d in self.maps and len(c.args) >= 1:
            v = self.ev(c.args[-1])
            m = self.maps[d]
            if isinstance(v, Vec):
                return Vec({f"{m}({k})": coef for k, coef in v.t.items()})
            raise AnalysisError(f"symalg: linear map applied to a scalar in `{short(c)}`")
        if d in ("copy.copy", "copy.deepcopy", "copy", "deepcopy", "float", "np.float64", "np.copy") and len(c.args) == 1:
            return self.ev(c.args[0])
        if d in ("max", "min") and len(c.args) > 2:
            vs = [self.ev(a) for a in c.args]
            if all(isinstance(v, Sc) for v in vs):
                args = sorted({sp.expand(v.e) for v in vs}, key=sp.default_sort_key)
                return Sc(sp.Function(d)(*args))
        if d in ("max", "min", "np.maximum", "np.minimum") and len(c.args) == 2:
            a, b = self.ev(c.args[0]), self.ev(c.args[1])
            if isinstance(a, Sc) and isinstance(b, Sc):
                ea, eb = sp.expand(a.e), sp.expand(b.e)
                if d in ("max", "np.maximum") and (ea == 0 or eb == 0):
                    return Sc(sp.Function("pos")(eb if ea == 0 else ea))
                args = sorted([ea, eb], key=sp.default_sort_key)
                return Sc(sp.Function("max" if "max" in d else "min")(*args))
        if d in ("abs", "np.abs") and len(c.args) == 1:
            a = self.ev(c.args[0])
            if isinstance(a, Sc):
                return Sc(sp.Abs(a.e))
        if d in ("np.sqrt",) and len(c.args) == 1:
            a = self.ev(c.args[0])
            if isinstance(a, Sc):
                return Sc(sp.sqrt(a.e))
        raise AnalysisError(f"symalg: call `{short(c)}`")

    # ------------------------------------------------------------- statements
    def run(self, stmts: List[ast.stmt]) -> None:
        for s in stmts:
            self.stmt(s)

    def stmt(self, s: ast.stmt) -> None:
        if isinstance(s, ast.Expr):
            return
        if isinstance(s, ast.Pass):
            return
        if isinstance(s, ast.If):
            if any(isinstance(x, ast.Name) and x.id in self.skip for x in ast.walk(s.test)):
                return   # logging-only branch (LOGNI decides that it is)
            # clamp:  if v < 0: v = 0      ==  v = pos(v)
            t = s.test
            if isinstance(t, ast.Compare) and len(t.ops) == 1 and isinstance(t.ops[0], (ast.Lt, ast.LtE)) and isinstance(t.left, ast.Name) \
                    and isinstance(t.comparators[0], ast.Constant) and t.comparators[0].value == 0 and not s.orelse and len(s.body) == 1 \
                    and isinstance(s.body[0], ast.Assign) and src(s.body[0].targets[0]) == t.left.id \
                    and isinstance(s.body[0].value, ast.Constant) and s.body[0].value.value == 0:
                v = self.ev(t.left)
                if isinstance(v, Sc):
                    self.env[t.left.id] = Sc(sp.Function("pos")(sp.expand(v.e)))
                    return
            c = src(s.test)
            if c not in self.conds:
                raise AnalysisError(f"symalg: branch on `{short(s.test)}` has no configured outcome")
            self.run(s.body if self.conds[c] else s.orelse)
            return
        if isinstance(s, (ast.Assign, ast.AnnAssign)):
            if getattr(s, "value", None) is None:
                return
            tg = s.targets if isinstance(s, ast.Assign) else [s.target]
            for t in tg:
                if isinstance(t, ast.Name):
                    self.env[t.id] = self.ev(s.value)
                elif src(t) in self.ignore_stores or (isinstance(t, ast.Subscript) and src(t.value) in self.ignore_stores):
                    continue
                else:
                    raise AnalysisError(f"symalg: store into `{short(t)}`")
            return
        if isinstance(s, ast.AugAssign):
            t = s.target
            if isinstance(t, ast.Name):
                cur = self.env.get(t.id)
                if cur is None:
                    cur = self.ev(t)
                new = self.ev(ast.BinOp(left=ast.Name(id="__cur__", ctx=ast.Load()), op=s.op, right=s.value)) \
                    if False else None
                self.env["__cur__"] = cur
                val = self.ev(ast.copy_location(ast.BinOp(left=ast.Name(id="__cur__", ctx=ast.Load()), op=s.op, right=s.value), s))
                del self.env["__cur__"]
                self.env[t.id] = val
                return
            if src(t) in self.ignore_stores or (isinstance(t, ast.Subscript) and src(t.value) in self.ignore_stores):
                return
            raise AnalysisError(f"symalg: augmented store into `{short(t)}`")
        if isinstance(s, (ast.Break, ast.Continue)):
            raise AnalysisError("symalg: jump inside a kernel slice")
        raise AnalysisError(f"symalg: statement `{short(s)}`")


def equal(a, b) -> Tuple[bool, str]:
    """algebraic equality of two values"""
    if isinstance(a, Sc) and isinstance(b, Sc):
        d = sp.expand(a.e - b.e)
        if d == 0:
            return True, ""
        d2 = sp.cancel(sp.together(d))
        if d2 == 0:
            return True, ""
        return False, f"difference {sp.simplify(d2)}"
    if isinstance(a, Vec) and isinstance(b, Vec):
        for k in set(a.t) | set(b.t):
            d = sp.cancel(sp.together(sp.expand(a.t.get(k, 0) - b.t.get(k, 0))))
            if d != 0:
                return False, f"coefficient of {k} differs by {d}"
        return True, ""
    return False, f"kinds differ: {a} vs {b}"
