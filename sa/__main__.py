"""python3-vt -m sa check <id> [--tier quick|thorough] [--root /repo]
   python3-vt -m sa explain <replay.json>
   python3-vt -m sa selftest [--rules R1,R2] [--jobs N]
   python3-vt -m sa list
"""
from __future__ import annotations

import argparse
import json
import os
import sys
import traceback


def main(argv=None) -> int:
    ap = argparse.ArgumentParser(prog="sa")
    sub = ap.add_subparsers(dest="cmd", required=True)
    c = sub.add_parser("check")
    c.add_argument("pid")
    c.add_argument("--tier", default=os.environ.get("VERIF_TIER", "quick"), choices=["quick", "thorough"])
    c.add_argument("--root", default="/repo")
    c.add_argument("--no-selftest", action="store_true")
    c.add_argument("--no-write", action="store_true", help="do not write evidence / replay files (used when a tool runs the check on a scratch tree)")
    e = sub.add_parser("explain")
    e.add_argument("replay")
    e.add_argument("--root", default=None)
    s = sub.add_parser("selftest")
    s.add_argument("--rules", default="")
    s.add_argument("--jobs", type=int, default=16)
    s.add_argument("--root", default="/repo")
    s.add_argument("-v", action="store_true")
    sub.add_parser("list")
    a = ap.parse_args(argv)

    from . import props  # registers all rules
    from .runner import check_property, RULES

    if a.cmd == "list":
        for pid, spec in props.PROPS.items():
            print(pid, ",".join(spec["rules"]))
        return 0
    if a.cmd == "check":
        if a.pid not in props.PROPS:
            print(f"ANALYSIS-ERROR unknown property {a.pid}")
            return 2
        seed = int(os.environ.get("VERIF_SEED", "0") or 0)
        st = None
        if not a.no_selftest:
            from .selftest import run_for_property
            st = run_for_property
        return check_property(a.pid, props.PROPS[a.pid], a.root, a.tier, seed, selftest=st, write=not a.no_write)
    if a.cmd == "explain":
        from .core import Repo
        r = json.load(open(a.replay))
        print(json.dumps(r, indent=1))
        root = a.root or r.get("root", "/repo")
        rel, line = r["where"].rsplit(":", 1)
        path = os.path.join(root, rel)
        try:
            lines = open(path).read().splitlines()
            lo, hi = max(0, int(line) - 4), min(len(lines), int(line) + 3)
            print(f"--- {path} (current tree) ---")
            for i in range(lo, hi):
                print(f"{i + 1:5d} {'>>' if i + 1 == int(line) else '  '} {lines[i]}")
        except OSError as ex:
            print("cannot open", path, ex)
        return 0
    if a.cmd == "selftest":
        from .selftest import run_all
        return run_all(a.root, [x for x in a.rules.split(",") if x], a.jobs, a.v)
    return 2


if __name__ == "__main__":
    try:
        sys.exit(main())
    except SystemExit:
        raise
    except Exception:
        traceback.print_exc()
        print("ANALYSIS-ERROR internal error in the checker")
        sys.exit(2)
