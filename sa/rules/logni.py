"""LOGNI -- logging configuration (iprint, logger) has no influence on any numerical output (C14)."""
from __future__ import annotations

import ast
from typing import Dict, List, Optional, Set, Tuple

from .. import tables as T
from ..core import AnalysisError, Func, Ob, bind_args, dotted, need, ob, short, src, walk_no_nested
from ..runner import Ctx, rule
from .exc import usertaint

SOURCES = {"iprint", "logger"}
LOGGER_METHODS = {"info", "debug", "warning", "error", "critical", "log", "exception", "isEnabledFor"}


LOG_ALIASES: Set[str] = set()      # local names bound to a logger method (`info = logger.info`), per analysed function


def _is_logger_call(e: ast.AST) -> bool:
    if isinstance(e, ast.Call) and isinstance(e.func, ast.Name) and e.func.id in LOG_ALIASES:
        return True
    return isinstance(e, ast.Call) and isinstance(e.func, ast.Attribute) and isinstance(e.func.value, ast.Name) \
        and e.func.value.id == "logger" and e.func.attr in LOGGER_METHODS


def _log_aliases(fn: ast.AST) -> Set[str]:
    """names bound exactly once, to `logger.<method>`, and only ever called"""
    out: Set[str] = set()
    stores: Dict[str, int] = {}
    for n in walk_no_nested(fn):
        if isinstance(n, ast.Name) and isinstance(n.ctx, ast.Store):
            stores[n.id] = stores.get(n.id, 0) + 1
    for s in walk_no_nested(fn):
        if isinstance(s, ast.Assign) and len(s.targets) == 1 and isinstance(s.targets[0], ast.Name) and \
                isinstance(s.value, ast.Attribute) and isinstance(s.value.value, ast.Name) and s.value.value.id == "logger" \
                and s.value.attr in LOGGER_METHODS and stores.get(s.targets[0].id) == 1:
            nm = s.targets[0].id
            loads = [x for x in walk_no_nested(fn) if isinstance(x, ast.Name) and x.id == nm and isinstance(x.ctx, ast.Load)]
            called = [c.func for c in walk_no_nested(fn) if isinstance(c, ast.Call) and isinstance(c.func, ast.Name) and c.func.id == nm]
            if len(loads) == len(called):
                out.add(nm)
    return out


def _rest_after(fn: ast.AST, stmt: ast.stmt, stop_at_loop: bool):
    """statements that run after `stmt` when it falls through, up to the end of the function (stop_at_loop=False:
    crossing a loop boundary is reported as None) or up to the end of the innermost loop body (stop_at_loop=True)"""
    parent: Dict[int, Tuple[ast.AST, List[ast.stmt]]] = {}
    for n in ast.walk(fn):
        for fld in ("body", "orelse", "finalbody"):
            b = getattr(n, fld, None)
            if isinstance(b, list):
                for x in b:
                    if isinstance(x, ast.stmt):
                        parent[id(x)] = (n, b)
        if isinstance(n, ast.Try):
            for h in n.handlers:
                for x in h.body:
                    parent[id(x)] = (h, h.body)
    rest: List[ast.stmt] = []
    cur: ast.AST = stmt
    while id(cur) in parent:
        owner, block = parent[id(cur)]
        i = next(k for k, x in enumerate(block) if x is cur)
        rest += block[i + 1:]
        if isinstance(owner, (ast.For, ast.While)):
            return rest if stop_at_loop else None
        if isinstance(owner, (ast.Try, ast.ExceptHandler, ast.With)):
            return None
        if owner is fn:
            return None if stop_at_loop else rest
        cur = owner
    return None


class LogModel:
    def __init__(self, ctx: Ctx):
        self.ctx = ctx
        from ..alias import engine
        self.cg = engine(ctx).cg
        self.ut = usertaint(ctx)
        self.helpers: Set[str] = set()
        # display helpers: functions whose whole body is logging-only (least fixpoint from below)
        changed = True
        while changed:
            changed = False
            for q, f in ctx.repo.funcs.items():
                if q in self.helpers or f.parent is not None or f.cls is not None:
                    continue
                if not (SOURCES & set(f.params)):
                    continue
                body = [s for s in f.node.body if not (isinstance(s, ast.Expr) and isinstance(s.value, ast.Constant))]
                ok, _ = self.logging_only(body, f, set(SOURCES), in_helper=True)
                has_log = any(_is_logger_call(c) for c in ast.walk(f.node))
                if ok and has_log:
                    self.helpers.add(q)
                    changed = True
        # display predicates: they only compute, from the logging configuration, WHETHER something is displayed
        # (constant returns under tests, no effects, no logging); their value is itself logging configuration
        self.predicates: Set[str] = set()
        for q, f in ctx.repo.funcs.items():
            if q in self.helpers or f.parent is not None or f.cls is not None or not (SOURCES & set(f.params)):
                continue
            body = [s for s in f.node.body if not (isinstance(s, ast.Expr) and isinstance(s.value, ast.Constant))]
            ok, _ = self.logging_only(body, f, set(SOURCES), in_helper=True)
            rets = [r for r in walk_no_nested(f.node) if isinstance(r, ast.Return)]
            if ok and rets and all(r.value is not None and isinstance(r.value, ast.Constant) and isinstance(r.value.value, bool) for r in rets) \
                    and not any(_is_logger_call(c) for c in ast.walk(f.node)):
                self.predicates.add(q)

    def is_helper_call(self, f: Func, c: ast.Call) -> bool:
        return any(t in self.helpers for t in self.cg.targets(f, c))

    def is_predicate_call(self, f: Func, c: ast.Call) -> bool:
        tg = self.cg.targets(f, c)
        return bool(tg) and all(t in getattr(self, "predicates", set()) for t in tg)

    def effect_free(self, f: Func, e: ast.AST) -> Optional[str]:
        for c in ast.walk(e):
            if isinstance(c, ast.Call):
                d = dotted(c.func) or ""
                if any(c is s for s, _ in self.ut.sites.get(f.qual, [])):
                    return f"`{short(c, 40)}` may run user code (changes nfev / the cache)"
                if isinstance(c.func, ast.Attribute) and c.func.attr in T.MUTATING_METHODS and not _is_logger_call(c):
                    return f"`{short(c, 40)}` mutates its receiver"
                if d in T.MUTATING_FUNCS or any(k.arg in T.OUT_KEYWORDS for k in c.keywords):
                    return f"`{short(c, 40)}` writes an argument"
            if isinstance(c, ast.NamedExpr):
                return "assignment expression inside a logging argument"
        return None

    def logging_only(self, stmts: List[ast.stmt], f: Func, tainted: Set[str], in_helper: bool = False,
                     region_root: Optional[List[ast.stmt]] = None) -> Tuple[bool, str]:
        region_root = region_root if region_root is not None else stmts
        for s in stmts:
            if isinstance(s, ast.Pass):
                continue
            if isinstance(s, ast.Expr) and isinstance(s.value, ast.Call) and (_is_logger_call(s.value) or self.is_helper_call(f, s.value)):
                bad = self.effect_free(f, s.value)
                if bad:
                    return False, f"line {s.lineno}: logging argument {bad}"
                continue
            if isinstance(s, ast.Expr) and isinstance(s.value, ast.Constant):
                continue
            if isinstance(s, ast.If):
                bad = self.effect_free(f, s.test)
                if bad:
                    return False, f"line {s.lineno}: test {bad}"
                ok, why = self.logging_only(s.body, f, tainted, in_helper, region_root)
                if not ok:
                    return ok, why
                ok, why = self.logging_only(s.orelse, f, tainted, in_helper, region_root)
                if not ok:
                    return ok, why
                continue
            if isinstance(s, ast.For) and not s.orelse:
                # a loop over effect-free values whose body only logs (e.g. over prepared message strings)
                bad = self.effect_free(f, s.iter)
                if bad:
                    return False, f"line {s.lineno}: loop over {bad}"
                loopvars = {x.id for x in ast.walk(s.target) if isinstance(x, ast.Name)}
                inside = {id(x) for x in ast.walk(s)}
                leaks = [x for x in ast.walk(f.node) if isinstance(x, ast.Name) and x.id in loopvars and id(x) not in inside]
                if leaks:
                    return False, f"line {s.lineno}: loop variable `{leaks[0].id}` of a logging loop is used at line {leaks[0].lineno}"
                ok, why = self.logging_only(s.body, f, tainted | loopvars, in_helper, region_root)
                if not ok:
                    return ok, why
                continue
            if isinstance(s, ast.Return) and in_helper and (s.value is None or isinstance(s.value, ast.Constant)):
                continue
            if isinstance(s, ast.Return) and in_helper and self.effect_free(f, s.value) is None and \
                    not any(isinstance(x, ast.Call) and not (dotted(x.func) in ("bool", "int", "len")) for x in ast.walk(s.value)):
                continue      # a display helper may report whether it displayed (a verdict computed without effects)
            if isinstance(s, (ast.Return, ast.Continue)) and not in_helper:
                # an early exit taken for a logging reason: everything it skips must be logging-only, and the
                # function must return the very same expression afterwards
                rest = _rest_after(f.node, s, stop_at_loop=isinstance(s, ast.Continue))
                if rest is None:
                    return False, f"line {s.lineno}: `{short(s, 40)}` leaves a loop / protected block early"
                tail_ret = rest[-1] if rest and isinstance(rest[-1], ast.Return) else None
                skipped = rest[:-1] if tail_ret is not None else rest
                if isinstance(s, ast.Return):
                    same = (tail_ret is not None and s.value is not None and tail_ret.value is not None and
                            ast.dump(s.value) == ast.dump(tail_ret.value)) or \
                           (s.value is None and (tail_ret is None or tail_ret.value is None))
                    if not same:
                        return False, f"line {s.lineno}: `{short(s, 40)}` does not return what the function returns otherwise"
                elif tail_ret is not None:
                    return False, f"line {s.lineno}: `continue` skips a return"
                ok, why = self.logging_only(skipped, f, tainted, in_helper, region_root=skipped)
                if not ok:
                    return False, f"line {s.lineno}: `{short(s, 30)}` skips more than logging ({why})"
                continue
            if isinstance(s, (ast.Assign, ast.AnnAssign)) and getattr(s, "value", None) is not None:
                tg = s.targets if isinstance(s, ast.Assign) else [s.target]
                if all(isinstance(t, ast.Name) for t in tg):
                    bad = self.effect_free(f, s.value)
                    if bad:
                        return False, f"line {s.lineno}: {bad}"
                    names = {t.id for t in tg}
                    if names <= tainted:
                        continue      # a flag that is itself treated as logging configuration: all its uses are checked as such
                    inside = {id(x) for r in region_root for x in ast.walk(r)}
                    leaks = [x for x in ast.walk(f.node) if isinstance(x, ast.Name) and x.id in names and id(x) not in inside]
                    if leaks:
                        return False, f"line {s.lineno}: `{sorted(names)[0]}` assigned under a logging condition is used at line {leaks[0].lineno}"
                    continue
            return False, f"line {s.lineno}: `{short(s, 50)}` is not a logging statement"
        return True, ""


@rule("LOGNI", min_instances=20)
def rule_logni(ctx: Ctx) -> List[Ob]:
    """non-interference: values derived from iprint / logger (and the value returned by the display
    helpers) are used only as arguments bound to a parameter that is itself iprint / logger, inside
    logging statements, or in the test of an `if` whose whole body is logging-only (logger calls,
    display helpers, nested logging-only ifs, assignments to names read nowhere else); logging
    arguments call nothing that may run user code or mutate state"""
    lm = LogModel(ctx)
    need(len(lm.helpers) >= 3, f"LOGNI: only {len(lm.helpers)} display helpers recognised")
    obs: List[Ob] = []
    for q, f in sorted(ctx.repo.funcs.items()):
        if q in lm.helpers or q in lm.predicates:
            f_helper = True
        else:
            f_helper = False
        visible = set(f.params)
        g = f.parent
        while g is not None:
            visible |= set(g.params)
            g = g.parent
        tainted = set(SOURCES & visible)
        LOG_ALIASES.clear()
        if tainted:
            LOG_ALIASES.update(_log_aliases(f.node))
        # names bound to the value of a display helper
        for s in walk_no_nested(f.node):
            if isinstance(s, (ast.Assign, ast.AnnAssign)) and isinstance(getattr(s, "value", None), ast.Call) and lm.is_helper_call(f, s.value):
                for t in (s.targets if isinstance(s, ast.Assign) else [s.target]):
                    if isinstance(t, ast.Name):
                        tainted.add(t.id)
        # names computed from tainted names (verbosity flags such as `is_verbose = iprint >= 99 and logger is not None`):
        # they become sources themselves; the defining statement is checked to be effect-free below
        changed = True
        while changed:
            changed = False
            for s in walk_no_nested(f.node):
                if isinstance(s, (ast.Assign, ast.AnnAssign)) and getattr(s, "value", None) is not None and not isinstance(s.value, ast.Call):
                    if any(isinstance(x, ast.Name) and x.id in tainted for x in ast.walk(s.value)):
                        for t in (s.targets if isinstance(s, ast.Assign) else [s.target]):
                            if isinstance(t, ast.Name) and t.id not in tainted:
                                tainted.add(t.id)
                                changed = True
        # implicit flow: a local that receives only literals, and at least once under a test on the logging
        # configuration, is a verdict flag of that configuration
        changed = bool(tainted)
        while changed:
            changed = False
            binds: Dict[str, List[ast.AST]] = {}
            for s_ in walk_no_nested(f.node):
                if isinstance(s_, (ast.Assign, ast.AnnAssign)) and getattr(s_, "value", None) is not None:
                    for t in (s_.targets if isinstance(s_, ast.Assign) else [s_.target]):
                        if isinstance(t, ast.Name):
                            binds.setdefault(t.id, []).append(s_)
            for s_ in walk_no_nested(f.node):
                if isinstance(s_, ast.If) and any(isinstance(x, ast.Name) and x.id in tainted for x in ast.walk(s_.test)):
                    for sub in [y for b_ in (s_.body + s_.orelse) for y in ast.walk(b_)]:
                        if isinstance(sub, (ast.Assign, ast.AnnAssign)) and getattr(sub, "value", None) is not None:
                            for t in (sub.targets if isinstance(sub, ast.Assign) else [sub.target]):
                                if isinstance(t, ast.Name) and t.id not in tainted and t.id not in f.params and \
                                        all(isinstance(b_.value, ast.Constant) for b_ in binds.get(t.id, [])):
                                    tainted.add(t.id)
                                    changed = True
            # ... and copies / combinations of such flags (explicit flow again)
            for s_ in walk_no_nested(f.node):
                if isinstance(s_, (ast.Assign, ast.AnnAssign)) and getattr(s_, "value", None) is not None and not isinstance(s_.value, ast.Call):
                    if any(isinstance(x, ast.Name) and x.id in tainted for x in ast.walk(s_.value)):
                        for t in (s_.targets if isinstance(s_, ast.Assign) else [s_.target]):
                            if isinstance(t, ast.Name) and t.id not in tainted:
                                tainted.add(t.id)
                                changed = True
        if not tainted:
            continue
        _CUR[:] = [lm, f]
        obs += _check_block(lm, f, f.node.body, tainted, f_helper)
        _CUR[:] = []
    return obs


_CUR: List = []     # (LogModel, Func) of the function being checked


def _tainted_occ(e: ast.AST, tainted: Set[str]) -> List[ast.Name]:
    occ = [x for x in walk_no_nested(e) if isinstance(x, ast.Name) and x.id in tainted and isinstance(x.ctx, ast.Load)]
    if _CUR and not occ:
        lm, f = _CUR
        for c in walk_no_nested(e):
            if isinstance(c, ast.Call) and lm.is_predicate_call(f, c):
                # the value of a display predicate is logging configuration; its own arguments are checked as a call
                return [a for a in ast.walk(c) if isinstance(a, ast.Name) and isinstance(a.ctx, ast.Load)][:1] or []
    return occ


def _check_block(lm: LogModel, f: Func, stmts: List[ast.stmt], tainted: Set[str], in_helper: bool) -> List[Ob]:
    obs: List[Ob] = []
    for s in stmts:
        if isinstance(s, (ast.FunctionDef, ast.ClassDef)):
            continue
        if isinstance(s, ast.If) and _tainted_occ(s.test, tainted):
            ok, why = lm.logging_only(s.body, f, tainted, in_helper)
            if ok:
                ok, why = lm.logging_only(s.orelse, f, tainted, in_helper)
            bad = lm.effect_free(f, s.test)
            if bad:
                ok, why = False, "test " + bad
            obs.append(ob("LOGNI", "branch on the logging configuration is logging-only", f, s, ok,
                          f"body of `if {short(s.test, 60)}` only logs" if ok else
                          f"`if {short(s.test, 60)}` depends on iprint/logger but {why}: the numerical run differs with the logging configuration",
                          construct=f"if {short(s.test, 70)}"))
            continue
        if isinstance(s, ast.Expr) and isinstance(s.value, ast.Call) and (_is_logger_call(s.value) or lm.is_helper_call(f, s.value)):
            bad = lm.effect_free(f, s.value)
            obs.append(ob("LOGNI", "logging statement has effect-free arguments", f, s, bad is None,
                          "arguments only read" if bad is None else f"{bad}: logging changes the run", False,
                          construct=short(s, 80)))
            continue
        if isinstance(s, (ast.Assign, ast.AnnAssign)) and getattr(s, "value", None) is not None and not isinstance(s.value, ast.Call) \
                and _tainted_occ(s.value, tainted) and all(isinstance(t, ast.Name) and t.id in tainted
                                                          for t in (s.targets if isinstance(s, ast.Assign) else [s.target])):
            bad = lm.effect_free(f, s.value)
            obs.append(ob("LOGNI", "verbosity flag derived from the logging configuration", f, s, bad is None,
                          "the flag is itself treated as logging configuration: it may only steer logging-only branches" if bad is None else bad,
                          False, construct=short(s, 80)))
            continue
        if isinstance(s, (ast.Assign, ast.AnnAssign)) and getattr(s, "value", None) is not None and not isinstance(s.value, ast.Call) \
                and _tainted_occ(s.value, tainted) and all(isinstance(t, ast.Name) and t.id in tainted
                                                          for t in (s.targets if isinstance(s, ast.Assign) else [s.target])):
            bad = lm.effect_free(f, s.value)
            obs.append(ob("LOGNI", "verbosity flag derived from the logging configuration", f, s, bad is None,
                          "the flag is itself treated as logging configuration: it may only steer logging-only branches" if bad is None else bad,
                          False, construct=short(s, 80)))
            continue
        if isinstance(s, (ast.Assign, ast.AnnAssign)) and isinstance(getattr(s, "value", None), ast.Call) and lm.is_helper_call(f, s.value):
            bad = lm.effect_free(f, s.value)
            obs.append(ob("LOGNI", "display helper call has effect-free arguments", f, s, bad is None,
                          "arguments only read; result only steers later displays" if bad is None else bad, False,
                          construct=short(s, 80)))
            continue
        # compound statements: check their own header expressions, then recurse
        headers: List[ast.AST] = []
        bodies: List[List[ast.stmt]] = []
        if isinstance(s, ast.If):
            headers, bodies = [s.test], [s.body, s.orelse]
        elif isinstance(s, ast.While):
            headers, bodies = [s.test], [s.body, s.orelse]
        elif isinstance(s, ast.For):
            headers, bodies = [s.iter], [s.body, s.orelse]
        elif isinstance(s, ast.With):
            headers, bodies = [i.context_expr for i in s.items], [s.body]
        elif isinstance(s, ast.Try):
            bodies = [s.body, s.orelse, s.finalbody] + [h.body for h in s.handlers]
        else:
            headers = [s]
        for h in headers:
            for occ in _tainted_occ(h, tainted):
                ok, why = _occurrence_ok(lm, f, h, occ, tainted, in_helper)
                if not ok or True:
                    obs.append(ob("LOGNI", "logging configuration only flows to logging parameters", f, occ, ok, why, ok is False or True,
                                  construct=f"`{occ.id}` in {short(h if not isinstance(h, ast.stmt) else h, 70)}"))
        for b in bodies:
            obs += _check_block(lm, f, b, tainted, in_helper)
    return obs


def _occurrence_ok(lm: LogModel, f: Func, root: ast.AST, occ: ast.Name, tainted: Set[str], in_helper: bool) -> Tuple[bool, str]:
    # find the innermost call that has occ as a direct argument
    for c in ast.walk(root):
        if isinstance(c, ast.Call):
            direct = [a for a in c.args if a is occ] + [k.value for k in c.keywords if k.value is occ]
            if not direct:
                continue
            if lm.is_helper_call(f, c) or _is_logger_call(c) or lm.is_predicate_call(f, c):
                return True, "argument of a display helper"
            tg = lm.cg.targets(f, c)
            if tg:
                oks = []
                for tq in tg:
                    g = lm.ctx.repo.funcs[tq]
                    try:
                        b = bind_args(c, g.node, skip_self=(g.cls is not None and g.parent is None))
                    except AnalysisError:
                        return False, "cannot bind the call"
                    ps = [p for p, e in b.items() if e is occ]
                    oks.append(bool(ps) and all(p in SOURCES and p == occ.id for p in ps))
                if all(oks):
                    return True, f"bound to the callee's own `{occ.id}` parameter"
                return False, f"`{occ.id}` is passed to a parameter that is not `{occ.id}`: it becomes a numerical input of {tg[0]}"
            return False, f"`{occ.id}` is handed to external callee {short(c.func)}"
    if isinstance(root, ast.Return) and in_helper:
        return True, "inside a display helper"
    return False, f"`{occ.id}` is used in `{short(root, 60)}` outside any logging statement / logging-only branch"
