"""EXC -- no exception handler stands between a user callable and the API boundary (C20)."""
from __future__ import annotations

import ast
from typing import List

from ..callgraph import CallGraph, UserTaint
from ..core import Ob, dotted, ob, short, walk_no_nested
from ..runner import Ctx, rule

# context managers that never suppress an exception (their __exit__ returns None/False)
TRANSPARENT_CM = {"np.errstate", "warnings.catch_warnings", "numpy.errstate"}


def usertaint(ctx: Ctx) -> UserTaint:
    if "usertaint" not in ctx.notes:
        cg = CallGraph(ctx.repo)
        ctx.notes["callgraph"] = cg
        ctx.notes["usertaint"] = UserTaint(ctx.repo, cg)
    return ctx.notes["usertaint"]  # type: ignore


def _cannot_raise(s: ast.stmt) -> bool:
    """statements a re-raising handler may run first: nothing that can itself raise and so replace the exception in flight
    (no call, no attribute or item access, no arithmetic) -- binding a name to a name or a constant, or pass"""
    if isinstance(s, ast.Pass):
        return True
    if isinstance(s, ast.Assign) and all(isinstance(t, ast.Name) for t in s.targets) and isinstance(s.value, (ast.Name, ast.Constant)):
        return True
    return False


def _is_bare_reraise(h: ast.ExceptHandler) -> bool:
    return len(h.body) >= 1 and isinstance(h.body[-1], ast.Raise) and h.body[-1].exc is None and \
        all(_cannot_raise(s) for s in h.body[:-1]) and \
        not any(isinstance(s, (ast.Return, ast.Break, ast.Continue)) for b in h.body for s in ast.walk(b))


def _enclosing(fn: ast.FunctionDef, target: ast.AST):
    """compound statements of fn that lexically enclose target: list of
    (stmt, field) from outermost to innermost"""
    path = []

    def rec(node, acc):
        if node is target:
            path.extend(acc)
            return True
        for field, val in ast.iter_fields(node):
            vals = val if isinstance(val, list) else [val]
            for v in vals:
                if isinstance(v, ast.AST):
                    if isinstance(v, (ast.FunctionDef, ast.ClassDef, ast.Lambda)) and v is not fn:
                        continue
                    if rec(v, acc + [(node, field)]):
                        return True
        return False

    rec(fn, [])
    return path


# external callees that evaluate the function they are given from inside an iterator protocol (`for y in map(f, xs)` /
# `list(map(f, xs))`): a StopIteration leaving f is taken for the end of the iteration.  One line of reason per entry.
ITER_CONSUMERS = {
    "approx_derivative": "(scipy.optimize._numdiff, scipy >= 1.15) evaluates the function as `workers(fun, points)` with workers = map",
    "map": "yields fun(item) from its __next__",
    "filter": "calls the predicate from its __next__",
    "starmap": "yields fun(*item) from its __next__",
}


@rule("EXC", min_instances=9)
def rule_exc(ctx: Ctx) -> List[Ob]:
    """every call site that may (transitively) run a user-supplied callable lies
    outside every try body whose handlers do anything but re-raise, outside
    every finally that jumps, and outside every with whose context manager is
    not known to be exception-transparent; every try statement of the package
    is listed with the user-reaching calls it contains"""
    ut = usertaint(ctx)
    obs: List[Ob] = []
    for q in sorted(ut.sites):
        f = ctx.repo.funcs[q]
        for c, why in ut.sites[q]:
            bad = None
            for node, field in _enclosing(f.node, c):
                if isinstance(node, ast.Try):
                    if field == "body":
                        hs = [h for h in node.handlers if not _is_bare_reraise(h)]
                        if hs:
                            t = short(hs[0].type) if hs[0].type is not None else "<bare>"
                            bad = (f"lies in the body of try at line {node.lineno} whose handler "
                                   f"`except {t}` does not re-raise unchanged: an exception of the "
                                   f"user's callable is swallowed or converted")
                    if node.finalbody and field in ("body", "handlers", "orelse") and any(
                            isinstance(s, (ast.Return, ast.Break, ast.Continue))
                            for b in node.finalbody for s in ast.walk(b)):
                        bad = f"finally at line {node.lineno} jumps and discards the exception"
                elif isinstance(node, ast.GeneratorExp):
                    # PEP 479: a StopIteration leaving a generator frame is replaced by RuntimeError
                    bad = (f"runs inside a generator expression (line {node.lineno}): a StopIteration raised by the user's "
                           f"callable comes out as RuntimeError('generator raised StopIteration')")
                elif isinstance(node, ast.With) and field == "body":
                    for it in node.items:
                        ce = it.context_expr
                        d = dotted(ce.func) if isinstance(ce, ast.Call) else dotted(ce)
                        if d not in TRANSPARENT_CM:
                            bad = (f"lies inside `with {short(ce)}` (line {node.lineno}); this "
                                   f"context manager is not in the table of exception-transparent ones")
            cons = None
            if bad is None and why.startswith("external callee receives"):
                callee = (dotted(c.func) or "").split(".")[-1]
                if callee in ITER_CONSUMERS:
                    # the callee is not package code: what it does with the function is a table entry, confirmed by reading it
                    bad = (f"`{callee}` {ITER_CONSUMERS[callee]}: a StopIteration raised by the user's callable ends that iteration "
                           f"silently instead of reaching the caller of the minimiser")
                    cons = f"{callee}(<function that may run user code>)"
            obs.append(ob("EXC", "user-reaching call site is handler-free up to the API boundary",
                          f, c, bad is None,
                          bad or f"{why}; no try/with/finally of {f.name} encloses it", **({"construct": cons} if cons else {})))
    # all try statements
    for q, f in sorted(ctx.repo.funcs.items()):
        for t in walk_no_nested(f.node):
            if isinstance(t, ast.Try):
                inside = [c for c, _ in ut.sites.get(q, [])
                          if any(c is s for b in t.body for s in ast.walk(b))]
                hs = [h for h in t.handlers if not _is_bare_reraise(h)]
                ok = not (inside and hs)
                obs.append(ob("EXC", "try statement contains no user-reaching call", f, t, ok,
                              "body calls: " + ", ".join(sorted({short(c.func) for b in t.body
                                                                 for c in ast.walk(b) if isinstance(c, ast.Call)}))
                              + ("; none of them is in U" if ok else
                                 "; user-reaching: " + ", ".join(short(c) for c in inside)),
                              construct=f"try@{short(t.body[0], 60)} except " +
                              "/".join(short(h.type) if h.type is not None else "<bare>" for h in t.handlers)))
    ctx.notes.setdefault("U", sorted(ut.U))
    return obs
