"""AD -- source-level differentiation of the packaged benchmarks against their gradients (C19).

The bodies of benchmarks.py are straight-line numpy code over one array argument.
They are *translated* (never executed) into closed-form sympy expressions over
symbols x0..x(n-1); d f / d x_i - grad_i must vanish identically.
"""
from __future__ import annotations

import ast
import os
from fractions import Fraction
from typing import Dict, List, Optional, Tuple

from ..core import AnalysisError, Func, Ob, dotted, need, ob, short, src, walk_no_nested, kw
from ..runner import Ctx, rule


class SymArr:
    def __init__(self, elts):
        self.e = list(elts)

    def __len__(self):
        return len(self.e)


_NORET = object()


class StateDependence(Exception):
    """the benchmark reads or writes module-level mutable state: it is not a function of x alone"""


class PiecewiseDefinition(Exception):
    """the benchmark (or its gradient) is defined by cases on the value of the point"""


class Translator:
    def __init__(self, sp, f: Func, n: int, choices=None, helpers=None, arg=None):
        self.sp, self.f, self.n = sp, f, n
        self.choices = choices if choices is not None else {}
        self.where_sites = []
        self.eq_guards = []     # (h, line): `if h == 0` tests on the point, taken as false (generic point); the rule checks the set h = 0
        self.helpers = helpers or {}
        self.xs = sp.symbols(f"x0:{n}", real=True)
        if arg is None:
            need(len(f.params) == 1, f"{f.qual}: benchmark with more than one parameter")
            self.env: Dict[str, object] = {f.params[0]: SymArr(self.xs)}
        else:
            self.env = dict(arg)

    def err(self, node, what):
        raise AnalysisError(f"AD: unsupported construct in {self.f.qual} line {getattr(node, 'lineno', '?')}: {what}")

    # ---- elementwise helpers
    def ew1(self, fn, a):
        return SymArr([fn(v) for v in a.e]) if isinstance(a, SymArr) else fn(a)

    def ew2(self, fn, a, b, node):
        if isinstance(a, SymArr) and isinstance(b, SymArr):
            if len(a) != len(b):
                if len(a) == 1:
                    return SymArr([fn(a.e[0], y) for y in b.e])
                if len(b) == 1:
                    return SymArr([fn(x, b.e[0]) for x in a.e])
                self.err(node, f"shape mismatch {len(a)} vs {len(b)}")
            return SymArr([fn(x, y) for x, y in zip(a.e, b.e)])
        if isinstance(a, SymArr):
            return SymArr([fn(x, b) for x in a.e])
        if isinstance(b, SymArr):
            return SymArr([fn(a, y) for y in b.e])
        return fn(a, b)

    def const(self, v):
        sp = self.sp
        if isinstance(v, bool):
            self.err(None, "boolean constant")
        if isinstance(v, int):
            return sp.Integer(v)
        if isinstance(v, float):
            return sp.Rational(Fraction(repr(v)))   # exact decimal value as written in the source
        self.err(None, f"constant {v!r}")

    def ev(self, e: ast.expr):
        sp = self.sp
        if isinstance(e, ast.Constant):
            return self.const(e.value)
        if isinstance(e, ast.Name):
            if e.id not in self.env:
                # a module-level numeric constant: bound once at module level to a numeric expression, never rebound by
                # any function of the module (`global`), so it is part of the formula, not state
                mod = self.f.module.tree
                defs = [s_ for s_ in mod.body if isinstance(s_, (ast.Assign, ast.AnnAssign)) and getattr(s_, "value", None) is not None
                        and any(isinstance(t_, ast.Name) and t_.id == e.id for t_ in (s_.targets if isinstance(s_, ast.Assign) else [s_.target]))]
                rebound = any(isinstance(g_, (ast.Global, ast.Nonlocal)) and e.id in g_.names for g_ in ast.walk(mod))
                if len(defs) == 1 and not rebound and all(isinstance(x_, (ast.Constant, ast.BinOp, ast.UnaryOp, ast.operator, ast.unaryop,
                                                                         ast.Attribute, ast.Name, ast.Load, ast.Call))
                                                          for x_ in ast.walk(defs[0].value)):
                    written = any(isinstance(x_, (ast.Subscript, ast.Attribute)) and isinstance(x_.ctx, (ast.Store, ast.Del)) and
                                  isinstance(getattr(x_, "value", None), ast.Name) and x_.value.id == e.id for x_ in ast.walk(mod))
                    if not written:
                        saved = self.env
                        self.env = {}
                        try:
                            v_ = self.ev(defs[0].value)
                        finally:
                            self.env = saved
                        return v_
                if defs:
                    raise StateDependence(f"{self.f.name} reads the module-level object `{e.id}` (line {defs[0].lineno}), which is not a numeric "
                                          f"constant / is written at run time: the value depends on the calls made before, not on x alone")
                self.err(e, f"unknown name {e.id}")
            return self.env[e.id]
        if isinstance(e, ast.Attribute):
            d = dotted(e)
            if d == "np.pi":
                return sp.pi
            if d == "np.e":
                return sp.E
            if e.attr == "shape":
                v = self.ev(e.value)
                if isinstance(v, SymArr):
                    return sp.Integer(len(v))       # 1-d arrays only: the shape (n,) stands for n where a size is expected
            if e.attr == "size":
                v = self.ev(e.value)
                return sp.Integer(len(v)) if isinstance(v, SymArr) else sp.Integer(1)
            self.err(e, f"attribute {d or e.attr}")
        if isinstance(e, ast.UnaryOp):
            v = self.ev(e.operand)
            if isinstance(e.op, ast.USub):
                return self.ew1(lambda t: -t, v)
            if isinstance(e.op, ast.UAdd):
                return v
            self.err(e, "unary operator")
        if isinstance(e, ast.BinOp):
            a, b = self.ev(e.left), self.ev(e.right)
            ops = {ast.Add: lambda x, y: x + y, ast.Sub: lambda x, y: x - y, ast.Mult: lambda x, y: x * y,
                   ast.Div: lambda x, y: x / y, ast.Pow: lambda x, y: x ** y}
            if type(e.op) not in ops:
                self.err(e, f"operator {type(e.op).__name__}")
            return self.ew2(ops[type(e.op)], a, b, e)
        if isinstance(e, ast.Subscript):
            v = self.ev(e.value)
            if not isinstance(v, SymArr):
                self.err(e, "subscript of a scalar")
            return self.slice(v, e.slice, e)
        if isinstance(e, ast.Call):
            return self.call(e)
        self.err(e, type(e).__name__)

    def _int(self, v, node):
        if v is None:
            return None
        x = self.ev(v)
        if isinstance(x, SymArr) or not x.is_Integer:
            self.err(node, "non-integer slice bound")
        return int(x)

    def slice(self, v: SymArr, sl, node):
        if isinstance(sl, ast.Slice):
            lo, hi, st = self._int(sl.lower, node), self._int(sl.upper, node), self._int(sl.step, node)
            return SymArr(v.e[slice(lo, hi, st)])
        i = self._int(sl, node)
        return v.e[i]

    def call(self, c: ast.Call):
        sp = self.sp
        d = dotted(c.func)
        FLOAT_DT = ("float", "np.float64", "np.double", "np.float_", "'float64'", "'float'", "'d'")
        if c.keywords and d in ("np.zeros", "np.ones", "np.empty", "np.zeros_like", "np.ones_like", "np.empty_like", "np.asarray", "np.array",
                                "np.full", "np.full_like") and \
                all(k.arg == "dtype" and ((dotted(k.value) or ast.unparse(k.value)) in FLOAT_DT or
                                          ast.unparse(k.value).replace(" ", "").startswith(("np.result_type(", "np.promote_types("))) for k in c.keywords):
            c = ast.Call(func=c.func, args=c.args, keywords=[])     # a real floating dtype does not change the formula
        if d in self.helpers:
            for n_ in ast.walk(self.helpers[d].node):
                if isinstance(n_, (ast.Global, ast.Nonlocal)):
                    raise StateDependence(f"{self.f.name} calls {d}(), which rebinds module-level state (`{short(n_)}`): "
                                          f"its value depends on the calls made before, not on x alone")
        if c.keywords and not (d == "np.divide" and {k.arg for k in c.keywords} <= {"out", "where"}):
            self.err(c, "keyword arguments")
        if d == "np.concatenate" and len(c.args) == 1 and isinstance(c.args[0], (ast.Tuple, ast.List)) and not c.keywords:
            out_ = []
            for a_ in c.args[0].elts:
                v_ = self.ev(a_)
                out_ += list(v_.e) if isinstance(v_, SymArr) else [v_]
            return SymArr(out_)
        if d == "np.divide" and len(c.args) == 2:
            a_, b_ = self.ev(c.args[0]), self.ev(c.args[1])
            q_ = self.ew2(lambda x, y: x / y, a_, b_, c)
            kws = {k.arg: k.value for k in c.keywords}
            if "where" in kws:
                # guarded division: like np.where, both alternatives (quotient / what `out` held) must satisfy the property
                key = (c.lineno, c.col_offset)
                if key not in self.where_sites:
                    self.where_sites.append(key)
                if not self.choices.get(key, True):
                    if "out" not in kws:
                        self.err(c, "np.divide(where=) without out=: unselected entries are uninitialised")
                    q_ = self.ev(kws["out"])
            if "out" in kws:
                if not isinstance(kws["out"], ast.Name):
                    self.err(c, "out= target")
                self.env[kws["out"].id] = q_
            return q_
        if d == "np.where" and len(c.args) == 3:
            # a guard inside a benchmark: both alternatives must satisfy the property, so the
            # caller enumerates the choices; the condition itself is not interpreted
            key = (c.lineno, c.col_offset)
            if key not in self.where_sites:
                self.where_sites.append(key)
            return self.ev(c.args[1]) if self.choices.get(key, True) else self.ev(c.args[2])
        args = [self.ev(a) for a in c.args]
        un = {"np.sqrt": sp.sqrt, "np.cos": sp.cos, "np.sin": sp.sin, "np.exp": sp.exp, "np.square": lambda t: t ** 2,
              "np.abs": sp.Abs, "np.log": sp.log, "np.tan": sp.tan}
        if d in ("np.asarray", "np.array", "np.atleast_1d", "np.copy") and len(args) == 1:
            return args[0]
        if d in un and len(args) == 1:
            return self.ew1(un[d], args[0])
        if d == "np.power" and len(args) == 2:
            return self.ew2(lambda x, y: x ** y, args[0], args[1], c)
        if d in ("np.sum", "np.prod") and len(args) == 1:
            a = args[0]
            if not isinstance(a, SymArr):
                return a
            return sp.Add(*a.e) if d == "np.sum" else sp.Mul(*a.e)
        if d in ("np.cumprod", "np.cumsum") and len(args) == 1 and isinstance(args[0], SymArr):
            acc, out_ = None, []
            for v_ in args[0].e:
                acc = v_ if acc is None else (acc * v_ if d == "np.cumprod" else acc + v_)
                out_.append(acc)
            return SymArr(out_)
        if d == "np.arange" and 1 <= len(args) <= 2:
            iv = [int(a) for a in args]
            return SymArr([sp.Integer(i) for i in range(*iv)])
        if d in ("np.zeros_like", "np.zeros") and len(args) == 1:
            a = args[0]
            n = len(a) if isinstance(a, SymArr) else int(a)
            return SymArr([sp.Integer(0)] * n)
        if d in ("np.ones_like", "np.ones") and len(args) == 1:
            a = args[0]
            n = len(a) if isinstance(a, SymArr) else int(a)
            return SymArr([sp.Integer(1)] * n)
        if isinstance(c.func, ast.Attribute) and c.func.attr in ("sum", "prod", "mean") and not c.args and not (d or "").startswith("np."):
            a = self.ev(c.func.value)
            if not isinstance(a, SymArr):
                return a
            if c.func.attr == "sum":
                return sp.Add(*a.e)
            if c.func.attr == "prod":
                return sp.Mul(*a.e)
            return sp.Add(*a.e) / len(a)
        ext = None
        if isinstance(c.func, ast.Attribute) and c.func.attr in ("max", "min") and not c.args and not (d or "").startswith("np."):
            ext = self.ev(c.func.value)
        elif d in ("np.max", "np.min", "np.amax", "np.amin") and len(args) == 1:
            ext = args[0]
        if ext is not None:
            # an extremum of the coordinates used as a scale: the documented functions are smooth, so a correct formula cannot
            # depend on its value, only (wrongly) on its sign.  It is replaced by a fixed positive number, and -- unless every
            # element is an absolute value or an even power -- in a second pass by a fixed negative one (a `where`-like choice)
            elems = ext.e if isinstance(ext, SymArr) else [ext]
            nonneg = all(getattr(v_, "is_nonnegative", None) for v_ in elems)
            if nonneg:
                return sp.Rational(7, 3)
            key = (c.lineno, c.col_offset)
            if key not in self.where_sites:
                self.where_sites.append(key)
            return sp.Rational(7, 3) if self.choices.get(key, True) else -sp.Rational(11, 5)
        if d == "np.mean" and len(args) == 1 and isinstance(args[0], SymArr):
            return sp.Add(*args[0].e) / len(args[0])
        if d == "float" and len(args) == 1:
            return args[0]
        if d == "np.where" and len(c.args) == 3:
            # a guard inside a benchmark: both alternatives must satisfy the property, so the
            # caller enumerates the choices; the condition itself is not interpreted
            key = (c.lineno, c.col_offset)
            if key not in self.where_sites:
                self.where_sites.append(key)
            return args[1] if self.choices.get(key, True) else args[2]
        if d in self.helpers:
            g = self.helpers[d]
            for n_ in ast.walk(g.node):
                if isinstance(n_, (ast.Global, ast.Nonlocal)):
                    raise StateDependence(f"{self.f.name} calls {d}(), which rebinds module-level state (`{short(n_)}`): "
                                          f"its value depends on the calls made before, not on x alone")
            if len(args) != len(g.params):
                self.err(c, f"helper {d} called with {len(args)} arguments")
            t = Translator(self.sp, g, self.n, self.choices, self.helpers, arg=dict(zip(g.params, args)))
            r = t.run()
            self.where_sites += [k for k in t.where_sites if k not in self.where_sites]
            return r
        self.err(c, f"call {d or short(c.func)}")

    def run(self):
        for s in self.f.node.body:
            if isinstance(s, ast.Expr) and isinstance(s.value, ast.Constant):
                continue   # docstring
            if isinstance(s, (ast.Assign, ast.AnnAssign)):
                t = s.targets[0] if isinstance(s, ast.Assign) else s.target
                if isinstance(s, ast.Assign) and len(s.targets) != 1:
                    self.err(s, "chained assignment")
                v = self.ev(s.value)
                if isinstance(t, ast.Name):
                    self.env[t.id] = SymArr(v.e) if isinstance(v, SymArr) else v
                elif isinstance(t, ast.Subscript) and isinstance(t.value, ast.Name):
                    self.store(t, v, lambda old, new: new, s)
                else:
                    self.err(s, "assignment target")
            elif isinstance(s, ast.AugAssign):
                ops = {ast.Add: lambda o, n: o + n, ast.Sub: lambda o, n: o - n, ast.Mult: lambda o, n: o * n,
                       ast.Div: lambda o, n: o / n}
                if type(s.op) not in ops:
                    self.err(s, "augmented operator")
                v = self.ev(s.value)
                if isinstance(s.target, ast.Name):
                    self.env[s.target.id] = self.ew2(ops[type(s.op)], self.env[s.target.id], v, s)
                elif isinstance(s.target, ast.Subscript) and isinstance(s.target.value, ast.Name):
                    self.store(s.target, v, ops[type(s.op)], s)
                else:
                    self.err(s, "augmented target")
            elif isinstance(s, ast.Return):
                return self.ev(s.value)
            elif isinstance(s, ast.Expr) and isinstance(s.value, ast.Call) and dotted(s.value.func) == "np.divide":
                self.ev(s.value)
            elif isinstance(s, ast.If):
                tv = self.truth(s.test)
                r_ = self.block(s.body if tv else s.orelse)
                if r_ is not _NORET:
                    return r_
            elif isinstance(s, ast.Pass):
                continue
            else:
                self.err(s, type(s).__name__)
        self.err(self.f.node, "no return")

    def block(self, stmts):
        """run a nested statement list with the same rules; returns the returned value or _NORET"""
        saved = self.f
        fake = ast.FunctionDef(name=self.f.node.name, args=self.f.node.args, body=list(stmts) + [ast.Return(value=ast.Name(id="__noret__", ctx=ast.Load()))],
                               decorator_list=[], returns=None, type_comment=None, lineno=getattr(stmts[0], "lineno", 1) if stmts else 1, col_offset=0)
        self.env["__noret__"] = _NORET
        node_saved = self.f.node
        try:
            self.f.node = fake
            return self.run()
        finally:
            self.f.node = node_saved
            self.env.pop("__noret__", None)

    def truth(self, t: ast.expr) -> bool:
        """a branch on the problem size (or another concrete integer): decided for the n under analysis"""
        sp = self.sp
        if isinstance(t, ast.UnaryOp) and isinstance(t.op, ast.Not):
            return not self.truth(t.operand)
        if isinstance(t, ast.BoolOp):
            vs = [self.truth(v) for v in t.values]
            return all(vs) if isinstance(t.op, ast.And) else any(vs)
        if isinstance(t, ast.Compare) and len(t.ops) == 1:
            a, b = self.ev(t.left), self.ev(t.comparators[0])
            if isinstance(t.ops[0], (ast.Eq, ast.NotEq)) and not isinstance(a, SymArr) and not isinstance(b, SymArr) and \
                    not (a.is_number and b.is_number):
                # an equality test on the point holds on a set of measure zero: the generic branch is the formula; the rule
                # accepts the case only where that set lies in the singular set of the function (see guard_singular)
                self.eq_guards.append((a - b, getattr(t, "lineno", 0), short(t, 50)))
                return isinstance(t.ops[0], ast.NotEq)
            if isinstance(a, SymArr) or isinstance(b, SymArr) or not (a.is_number and b.is_number):
                raise PiecewiseDefinition(f"{self.f.name} branches on `{short(t, 50)}`, a test on the point (line {getattr(t, 'lineno', '?')})")
            ops = {ast.Lt: lambda x, y: x < y, ast.LtE: lambda x, y: x <= y, ast.Gt: lambda x, y: x > y, ast.GtE: lambda x, y: x >= y,
                   ast.Eq: lambda x, y: sp.simplify(x - y) == 0, ast.NotEq: lambda x, y: sp.simplify(x - y) != 0}
            if type(t.ops[0]) not in ops:
                self.err(t, "comparison operator")
            return bool(ops[type(t.ops[0])](a, b))
        if any(isinstance(x_, ast.Name) and x_.id in self.env and isinstance(self.env.get(x_.id), SymArr) for x_ in ast.walk(t)):
            raise PiecewiseDefinition(f"{self.f.name} branches on `{short(t, 50)}`, a test on the point (line {getattr(t, 'lineno', '?')})")
        self.err(t, "branch condition")

    def store(self, t: ast.Subscript, v, op, node):
        if t.value.id not in self.env:
            raise StateDependence(f"{self.f.name} writes into `{t.value.id}`, an object that outlives the call (line {getattr(node, 'lineno', '?')}): "
                                  f"later values depend on the calls made before, not on x alone")
        arr = self.env.get(t.value.id)
        if not isinstance(arr, SymArr):
            self.err(node, "store into a non-array")
        idx = list(range(len(arr)))
        if isinstance(t.slice, ast.Slice):
            sel = idx[slice(self._int(t.slice.lower, node), self._int(t.slice.upper, node), self._int(t.slice.step, node))]
        else:
            sel = [idx[self._int(t.slice, node)]]
        vals = v.e if isinstance(v, SymArr) else [v] * len(sel)
        if len(vals) != len(sel):
            self.err(node, f"store of {len(vals)} values into {len(sel)} slots")
        for i, nv in zip(sel, vals):
            arr.e[i] = op(arr.e[i], nv)


POINTS = [  # distinct rationals away from 0, +-1 and multiples of 1/4
    [Fraction(3, 7), Fraction(-5, 11), Fraction(13, 17), Fraction(-7, 19), Fraction(9, 23), Fraction(-11, 29),
     Fraction(15, 31), Fraction(-17, 37), Fraction(19, 41), Fraction(-21, 43), Fraction(25, 47), Fraction(-27, 53)],
    [Fraction(-8, 13), Fraction(6, 7), Fraction(-10, 19), Fraction(12, 23), Fraction(-14, 29), Fraction(16, 31),
     Fraction(-18, 37), Fraction(20, 41), Fraction(-22, 43), Fraction(24, 47), Fraction(-26, 53), Fraction(28, 59)],
    [Fraction(11, 9), Fraction(13, 10), Fraction(-17, 12), Fraction(19, 14), Fraction(-23, 16), Fraction(29, 18),
     Fraction(-31, 20), Fraction(37, 22), Fraction(-41, 24), Fraction(43, 26), Fraction(-47, 28), Fraction(53, 30)],
]


def residual_zero(sp, res, xs) -> Tuple[bool, str, Optional[dict]]:
    if res == 0:
        return True, "structurally zero", None
    try:
        if sp.count_ops(res) < 120:
            r = sp.simplify(res)
            if r == 0:
                return True, "simplify(residual) == 0", None
    except Exception:
        pass
    worst = 0.0
    for pt in POINTS:
        subs = {x: sp.Rational(p.numerator, p.denominator) for x, p in zip(xs, pt)}
        val = res.evalf(60, subs=subs)
        try:
            a = abs(complex(val))
        except TypeError:
            return False, f"residual does not evaluate to a number at {pt[:len(xs)]}: {val}", subs
        worst = max(worst, a)
        if not a < 1e-40:
            return False, f"residual = {sp.N(val, 12)} at x = {[str(p) for p in pt[:len(xs)]]}", \
                {str(k): str(v) for k, v in subs.items()}
    return True, f"numeric identity test: |residual| <= {worst:.1e} at 3 rational points (60 digits)", None


def guard_singular(sp, fx, xs, h) -> bool:
    """is the set {h = 0} inside the singular set of fx (some partial derivative of fx undefined there)?  Decided only for
    h a positive definite form (zero set = the origin) or h of degree 1 in one variable; anything else: no."""
    subs = None
    try:
        P = sp.Poly(h, *xs)
        if all(c.is_positive and all(e_ % 2 == 0 for e_ in mon) and sum(mon) > 0 for mon, c in P.terms()) and \
                all(any(mon[i] for mon, _ in P.terms()) for i in range(len(xs))):
            subs = {x: 0 for x in xs}
        else:
            for x in xs:
                if P.degree(x) == 1:
                    sol = sp.solve(h, x)
                    if len(sol) == 1:
                        subs = {x: sol[0]}
                        break
    except Exception:
        return False
    if subs is None:
        return False
    for x in xs:
        D = sp.diff(fx, x)
        try:
            for sg in D.atoms(sp.sign):
                if sp.simplify(sg.args[0].subs(subs)) == 0:
                    # a kink: the one-sided derivatives differ on the set
                    jump = (D.subs(sg, 1) - D.subs(sg, -1)).subs(subs)
                    if jump.has(sp.nan, sp.zoo) or sp.simplify(jump) != 0:
                        return True
            v = D.subs(subs)
            if v.has(sp.nan, sp.zoo, sp.oo, -sp.oo):
                return True
            if sp.simplify(sp.denom(sp.together(D)).subs(subs)) == 0:
                return True
        except Exception:
            continue
    return False


def _nmax() -> int:
    # the property quantifies over n in 1..12; the whole range costs about 7 s on the current tree, so both tiers cover it
    # (a table that is only wrong beyond n = 10 -- seeded change R2_C19-b -- needs n >= 11)
    return 12


@rule("AD", min_instances=8)
def rule_ad(ctx: Ctx) -> List[Ob]:
    """for each exported pair (f, f_grad) and each dimension n = 1..N, the symbolic derivative of
    the translated body of f equals the translated body of f_grad componentwise (residual
    identically zero), f is a scalar and f_grad has n components"""
    import sympy as sp
    m = ctx.repo.module("benchmarks")
    funcs = {f.name: f for f in ctx.repo.funcs_in("benchmarks") if f.parent is None}
    pairs = sorted(n for n in funcs if n + "_grad" in funcs and not n.startswith("_"))
    need(len(pairs) >= 8, f"AD: only {len(pairs)} benchmark pairs found (8 confirmed)")
    obs: List[Ob] = []
    # export cross-check
    init = ctx.repo.module("__init__")
    exported = set()
    for s in ast.walk(init.tree):
        if isinstance(s, ast.ImportFrom) and s.module and s.module.endswith("benchmarks"):
            exported |= {a.name for a in s.names}
    for nme in sorted(exported | {k for k in funcs if not k.startswith("_")}):
        base = nme[:-5] if nme.endswith("_grad") else nme
        ok = base in funcs and base + "_grad" in funcs
        if not ok:
            obs.append(Ob("AD", "every exported benchmark has a gradient partner", m.rel, funcs[nme].node.lineno if nme in funcs else 1,
                          f"benchmarks.{nme}", nme, False, f"{nme} has no (function, gradient) partner in benchmarks.py"))
    N = _nmax()
    helpers = {h.name: h for h in ctx.repo.funcs_in("benchmarks") if h.parent is None}
    # helpers imported from other modules of the package (from lbfgsb.utils import ..): same treatment
    bm = ctx.repo.modules["benchmarks"]
    for st_ in bm.tree.body:
        if isinstance(st_, ast.ImportFrom) and (st_.module or "").split(".")[0] in ("lbfgsb", "") or (isinstance(st_, ast.ImportFrom) and st_.level):
            for al in st_.names:
                for q_, h in ctx.repo.funcs.items():
                    if h.parent is None and h.name == al.name and q_.split(".")[0] == (st_.module or "").split(".")[-1]:
                        helpers.setdefault(al.asname or al.name, h)

    eqg: Dict[Tuple[str, int], list] = {}

    def translate(fn, n):
        """all variants of fn's body: one per combination of np.where alternatives (<= 8)"""
        t0 = Translator(sp, fn, n, {}, helpers)
        r0 = t0.run()
        eqg[(fn.name, n)] = list(t0.eq_guards)
        sites = list(t0.where_sites)
        if not sites:
            return [("", r0)]
        need(len(sites) <= 3, f"AD: more than 3 guards in {fn.qual}")
        out = []
        for mask in range(2 ** len(sites)):
            ch = {k: bool(mask >> i & 1) for i, k in enumerate(sites)}
            lab = ",".join(f"guard@{k[0]}={'then' if v else 'else'}" for k, v in ch.items())
            out.append((lab, Translator(sp, fn, n, ch, helpers).run()))
        return out
    for nm in pairs:
        f, g = funcs[nm], funcs[nm + "_grad"]
        bad, how, dims = None, set(), 0
        try:
            for n in range(1, N + 1):
                dims += 1
                for flab, fx in translate(f, n):
                    for glab, gx in translate(g, n):
                        lab = "; ".join(x for x in (flab, glab) if x)
                        if isinstance(fx, SymArr):
                            bad = f"n={n}: {nm} returns an array of {len(fx)} values, not a scalar"
                            break
                        if not isinstance(gx, SymArr) or len(gx) != n:
                            bad = f"n={n}: {nm}_grad returns {'a scalar' if not isinstance(gx, SymArr) else str(len(gx)) + ' components'}, expected {n}"
                            break
                        xs = sp.symbols(f"x0:{n}", real=True)
                        for h_, ln_, txt_ in eqg.get((f.name, n), []) + eqg.get((g.name, n), []):
                            if not guard_singular(sp, fx, xs, h_):
                                raise PiecewiseDefinition(f"`{txt_}` (line {ln_}) selects a set of points that is not shown to be a singularity "
                                                          f"of {nm} (n={n})")
                            how.add("equality guard on a singular set of the function (generic branch analysed)")
                        for i in range(n):
                            res = sp.diff(fx, xs[i]) - gx.e[i]
                            ok, why, pt = residual_zero(sp, res, xs)
                            how.add(why.split(":")[0])
                            if not ok:
                                bad = f"n={n}, component {i}" + (f" [{lab}]" if lab else "") + \
                                    f": d{nm}/dx{i} - {nm}_grad[{i}] is not identically zero ({why})" + \
                                    (" -- on the guarded branch the gradient is not the derivative: the guard changes the value at regular points" if lab else "")
                                break
                        if bad:
                            break
                    if bad:
                        break
                if bad:
                    break
        except StateDependence as e:
            bad = str(e)
        except PiecewiseDefinition as e:
            bad = str(e) + ": the function and its gradient are compared as one formula each; a definition by cases on the value of the point " \
                           "changes the function on a set the formula of the gradient does not know about"
        obs.append(ob("AD", f"{nm}_grad is the gradient of {nm} for n = 1..{N}", g, g.node, bad is None,
                      bad or f"{dims} dimensions, all components: " + "; ".join(sorted(how)),
                      construct=f"d {nm} / dx == {nm}_grad  (n = 1..{N})"))
    return obs


@rule("ARRLIKE", min_instances=16)
def rule_arrlike(ctx: Ctx) -> List[Ob]:
    """the benchmark functions are documented for array_like points: each one converts its argument with np.asarray
    (in its body or through a converting decorator) before using it, or only ever hands it to numpy functions -- raw
    arithmetic on the parameter (`2 * x` is list repetition for a list) is not the documented function"""
    obs: List[Ob] = []
    m = ctx.repo.module("benchmarks")
    CONV = ("np.asarray", "np.array", "np.atleast_1d", "np.asanyarray", "np.asfarray")

    def converting_decorator(d: ast.expr) -> bool:
        nm = d.id if isinstance(d, ast.Name) else None
        if nm is None:
            return False
        for n in m.tree.body:
            if isinstance(n, ast.FunctionDef) and n.name == nm and n.args.args:
                farg = n.args.args[0].arg
                for c in ast.walk(n):
                    if isinstance(c, ast.Call) and isinstance(c.func, ast.Name) and c.func.id == farg and c.args and \
                            isinstance(c.args[0], ast.Call) and dotted(c.args[0].func) in CONV:
                        return True
        return False
    for n in m.tree.body:
        if not isinstance(n, ast.FunctionDef) or n.name.startswith("_") or not n.args.args:
            continue
        p = n.args.args[0].arg
        if any(converting_decorator(d) for d in n.decorator_list):
            obs.append(Ob("ARRLIKE", "the point is converted to an array before it is used", m.rel, n.lineno, f"benchmarks.{n.name}", n.name, True,
                          "converted by a decorator"))
            continue
        converted_at = None
        for s in n.body:
            if isinstance(s, ast.Assign) and len(s.targets) == 1 and isinstance(s.targets[0], ast.Name) and s.targets[0].id == p \
                    and isinstance(s.value, ast.Call) and dotted(s.value.func) in CONV and s.value.args and src(s.value.args[0]) == p:
                converted_at = s.lineno
                break
        parents = {id(c): q for q in ast.walk(n) for c in ast.iter_child_nodes(q)}
        raw = []
        for x in ast.walk(n):
            if isinstance(x, ast.Name) and x.id == p and isinstance(x.ctx, ast.Load) and (converted_at is None or x.lineno < converted_at):
                par = parents.get(id(x))
                if isinstance(par, ast.Call) and x in par.args and (dotted(par.func) or "").startswith("np."):
                    continue
                raw.append(x)
        # a benchmark is a formula in x: it neither looks at the memory layout of its argument nor changes its number type
        # (complex-step differencing feeds complex points), nor is it defined piecewise by a test on the point
        for c in ast.walk(n):
            if isinstance(c, ast.Call):
                dn = dotted(c.func) or ""
                last = dn.split(".")[-1]
                if last in ("as_strided", "frombuffer", "ndarray", "getbuffer") or "stride_tricks" in dn or \
                        (isinstance(c.func, ast.Attribute) and c.func.attr in ("view", "tobytes", "setflags") and not dn.startswith("np.")):
                    obs.append(Ob("ARRLIKE", "the benchmark does not depend on the memory layout of the point", m.rel, c.lineno, f"benchmarks.{n.name}",
                                  short(c, 50), False, f"`{short(c, 60)}` reads raw memory: a non-contiguous view of the same numbers gives another result"))
                if (isinstance(c.func, ast.Attribute) and c.func.attr == "astype" and not dn.startswith("np.") and c.args and
                        (dotted(c.args[0]) or src(c.args[0])) in ("np.float64", "float", "np.float32", "np.double", "np.float_", "'float64'", "'float'")) or \
                        dn in ("np.real", "np.float64", "np.asfarray") or \
                        (dn in ("np.asarray", "np.array") and kw(c, "dtype") is not None and src(kw(c, "dtype")) in ("float", "np.float64", "np.double")):
                    obs.append(Ob("ARRLIKE", "the benchmark keeps the number type of the point (it stays complex-analytic)", m.rel, c.lineno, f"benchmarks.{n.name}",
                                  short(c, 50), False, f"`{short(c, 60)}` casts to a real type: the imaginary part of a complex-step probe is dropped, the "
                                  f"'cs' finite-difference mode returns a zero gradient"))
            if isinstance(c, ast.Attribute) and c.attr in ("real", "strides", "itemsize", "ctypes", "data") and isinstance(c.ctx, ast.Load) and \
                    isinstance(c.value, ast.Name) and c.value.id == p:
                obs.append(Ob("ARRLIKE", "the benchmark does not depend on the memory layout of the point", m.rel, c.lineno, f"benchmarks.{n.name}",
                              short(c, 50), False, f"`{short(c, 40)}`: memory layout / real part of the argument"))
        # an accumulator made with zeros_like / empty_like / ones_like of the point inherits the point's number type: for an
        # integer-typed point (np.array([1, -2, 3]) is a point of the domain) an in-place floating update raises
        # UFuncTypeError (same_kind casting) and a plain store truncates
        for s_ in ast.walk(n):
            if isinstance(s_, ast.Assign) and len(s_.targets) == 1 and isinstance(s_.targets[0], ast.Name) and isinstance(s_.value, ast.Call) \
                    and dotted(s_.value.func) in ("np.zeros_like", "np.empty_like", "np.ones_like", "np.full_like") and s_.value.args \
                    and src(s_.value.args[0]) == p and kw(s_.value, "dtype") is None:
                acc_ = s_.targets[0].id
                wr = [w for w in ast.walk(n) if (isinstance(w, ast.AugAssign) and isinstance(w.target, (ast.Subscript, ast.Name)) and
                                                 src(w.target).split("[")[0] == acc_) or
                      (isinstance(w, ast.Assign) and isinstance(w.targets[0], ast.Subscript) and src(w.targets[0]).split("[")[0] == acc_)]
                obs.append(Ob("ARRLIKE", "an accumulator written in place does not inherit an integer type from the point", m.rel, s_.lineno,
                              f"benchmarks.{n.name}", f"{acc_} = {dotted(s_.value.func)}({p})", not wr,
                              (f"`{short(s_, 50)}` has the dtype of the point and is updated in place at line {wr[0].lineno}: for an integer-typed "
                               "point the update raises UFuncTypeError (or truncates)") if wr else "never written in place"))
        if n.name.endswith("_grad"):
            # the gradient has the shape of x for every n, n = 1 included: nothing on the way to the return may drop axes
            drops = [c for c in ast.walk(n) if isinstance(c, ast.Call) and (
                (isinstance(c.func, ast.Attribute) and c.func.attr in ("squeeze", "item", "ravel", "flatten") and not (dotted(c.func) or "").startswith("np.")) or
                dotted(c.func) in ("np.squeeze", "float", "np.ravel"))]
            for c in drops:
                obs.append(Ob("ARRLIKE", "the gradient keeps the shape of the point (no axis-dropping operation)", m.rel, c.lineno, f"benchmarks.{n.name}",
                              short(c, 50), False, f"`{short(c, 50)}` removes length-one axes: for a point of dimension 1 the gradient has shape () instead of (1,)"))
        ok = not raw
        obs.append(Ob("ARRLIKE", "the point is converted to an array before it is used", m.rel, raw[0].lineno if raw else n.lineno,
                      f"benchmarks.{n.name}", n.name, ok,
                      (f"converted at line {converted_at}" if converted_at else "only handed to numpy functions") if ok else
                      f"`{p}` is used raw at line {raw[0].lineno} (in `{short(parents.get(id(raw[0])), 40)}`): for a list or tuple this is not array arithmetic"))
    return obs
