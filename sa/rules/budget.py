"""RET, NITB, ONCE, LSCAP, KEEP, RETRY -- control-flow rules on minimize_lbfgsb (C04, C03, C01)."""
from __future__ import annotations

import ast
from typing import List, Optional, Set

from .. import tables as T
from ..alias import engine, is_private
from ..cfg import Node
from ..core import canon_in, AnalysisError, Ob, bind_args, dotted, kw, need, ob, short, src, walk_no_nested
from ..flow import node_calls, node_defs
from ..runner import Ctx, rule
from .exc import usertaint
from .exit import compare_atom
from .mainmodel import mainmodel


@rule("RET", min_instances=2)
def rule_ret(ctx: Ctx) -> List[Ob]:
    """every return of minimize_lbfgsb hands back an OptimizeResult built at the return from the
    current termination state (message/success/status from the internal state, counters from the
    wrapper, nit from the internal state) and never an object owned by the caller"""
    mm = mainmodel(ctx)
    eng = engine(ctx)
    fa = eng.fa[mm.f.qual]
    obs: List[Ob] = []
    want = {"message": f"{mm.istate}.task_str", "success": f"{mm.istate}.is_success",
            "status": f"{mm.istate}.warnflag", "nit": f"{mm.istate}.nit",
            "nfev": f"{mm.sf}.nfev", "njev": f"{mm.sf}.ngev"}
    for r in mm.returns:
        res = mm.result_of_return(r)
        if res is None:
            n = fa.cfg.node_of(r)
            og = fa.eval_at(n, r.value) if r.value is not None else frozenset()
            ext = sorted(f"{o[0]}:{o[1]}" for o in og if not is_private(o))
            obs.append(ob("RET", "return value is a freshly classified result", mm.f, r, False,
                          "returns " + (f"the caller-owned object {ext}" if ext else "something that is not an OptimizeResult built here")
                          + ": message / success are not those of this run"))
            continue
        miss = []
        for k, w in want.items():
            v = kw(res, k)
            if v is None:
                miss.append(f"{k}= missing")
            elif src(v) != w:
                miss.append(f"{k}={src(v)} (expected {w})")
        for k in ("x", "fun", "jac", "hess_inv"):
            if kw(res, k) is None:
                miss.append(f"{k}= missing")
        obs.append(ob("RET", "return value is a freshly classified result", mm.f, r, not miss,
                      "; ".join(miss) if miss else "built at the return; message/success/status/nit from the internal "
                      "state, counters from the wrapper", construct=f"return OptimizeResult(...) line-class "
                      f"{'final' if r is mm.final_return else 'early'}: " + ", ".join(f"{k.arg}={short(k.value, 30)}" for k in res.keywords if k.arg in want)))
    return obs


def _guard_conjuncts(mm) -> List[Node]:
    """test nodes of the loop guard whose False edge leaves the loop directly (top-level conjuncts)"""
    out = []
    for n in mm.cfg.nodes:
        if n.kind == "test" and n.owner is mm.loop:
            out.append(n)
    return out


def _false_leaves_loop(mm, n: Node) -> bool:
    for b, lab in mm.cfg.succ[n]:
        if lab is False and not mm.cfg.in_loop(b, mm.loop):
            return True
    return False


def _true_leaves_loop(mm, n: Node) -> bool:
    for b, lab in mm.cfg.succ[n]:
        if lab is True and not mm.cfg.in_loop(b, mm.loop):
            return True
    return False


@rule("NITB", min_instances=6)
def rule_nitb(ctx: Ctx) -> List[Ob]:
    """iteration and evaluation budgets: the loop guard stops on nit >= maxiter and on
    nfev >= maxfun (each as a top-level conjunct), the iteration counter is written only by the
    restore from the checkpoint and by one `+= 1` that every cycle of the loop passes, and the only
    objective evaluations inside the loop are the line search (capped, LSCAP) and one
    re-evaluation of the accepted point"""
    mm = mainmodel(ctx)
    cfg = mm.cfg
    obs: List[Ob] = []
    nit, nfev = f"{mm.istate}.nit", f"{mm.sf}.nfev"
    guards = _guard_conjuncts(mm)
    for what, a, b in (("iteration", nit, "maxiter"), ("evaluation", nfev, "maxfun")):
        hit = None
        for g in guards:
            at = compare_atom(g.ast)
            if not at:
                continue
            (p, q), o = at
            # continuing requires a < b ; the complement must leave the loop
            if (p, q) == tuple(sorted((a, b))):
                lt = {"LT"} if p == a else {"GT"}
                if set(o) == lt and _false_leaves_loop(mm, g):
                    hit = g
                if set(o) == {"LT", "EQ", "GT"} - lt and _true_leaves_loop(mm, g):
                    hit = g
        obs.append(ob("NITB", f"loop guard enforces the {what} budget", mm.f, hit.ast if hit else mm.loop.test,
                      hit is not None,
                      f"conjunct `{short(hit.ast)}`: when it fails the loop is left" if hit else
                      f"no top-level conjunct `{a} < {b}` in the loop guard: the {what} budget does not stop the run",
                      construct=f"while-guard conjunct {a} < {b}"))
    # writers of the iteration counter
    inc_nodes = []
    for n in cfg.nodes:
        for k, v, how in node_defs(n):
            if k != nit:
                continue
            inloop = cfg.in_loop(n, mm.loop)
            if inloop:
                ok = how == "aug" and isinstance(n.ast, ast.AugAssign) and isinstance(n.ast.op, ast.Add) and \
                    isinstance(n.ast.value, ast.Constant) and n.ast.value.value == 1 and \
                    len(n.loops) == 1
                if not ok and how == "bind" and v is not None and len(n.loops) == 1:
                    from ..flow import Expander
                    ev = Expander(ctx, mm.f).expand(n, v, 4)
                    ok = canon_in(ev, f"{nit} + 1")
                inc_nodes.append(n)
                obs.append(ob("NITB", "in-loop write of the iteration counter is `+= 1`", mm.f, n.ast, ok,
                              "increment by one per cycle" if ok else "the counter is not advanced by exactly one"))
            else:
                ok = v is not None and src(v).endswith(".nit") and "checkpoint" in src(v)
                obs.append(ob("NITB", "out-of-loop write of the iteration counter is the checkpoint restore",
                              mm.f, n.ast, ok, f"value {short(v)}"))
    need(len(inc_nodes) >= 1 or True, "")
    if len(inc_nodes) != 1:
        obs.append(ob("NITB", "exactly one increment of the iteration counter per cycle", mm.f, mm.loop, False,
                      f"{len(inc_nodes)} in-loop writes of {nit}", construct=f"writers of {nit} in the loop"))
    else:
        inc = inc_nodes[0]
        head = [n for n in cfg.nodes if n.kind == "loophead" and n.owner is mm.loop][0]
        # a cycle head -> ... -> head that avoids the increment?
        first = [b for g in guards for b, lab in cfg.succ[g] if cfg.in_loop(b, mm.loop)]
        skip = cfg.exists_path_avoiding(head, head, lambda n: n is inc or not cfg.in_loop(n, mm.loop))
        obs.append(ob("NITB", "every cycle of the main loop passes the increment", mm.f, inc.ast, not skip,
                      "no path from the loop head back to the loop head avoids it" if not skip else
                      "a path through the loop body returns to the guard without counting the iteration",
                      construct=f"{short(inc.ast)} post-dominates the body's non-break paths"))
    # evaluations inside the loop
    ut = usertaint(ctx)
    sites = [(c, why) for c, why in ut.sites.get(mm.f.qual, []) if mm.in_loop(c)]
    evals = []
    for c, why in sites:
        d = dotted(c.func) or ""
        if isinstance(c.func, ast.Name) and c.func.id in ("callback", "update_fun_def"):
            continue   # not an objective evaluation
        evals.append(c)
    kinds = [(dotted(c.func) or "").split(".")[-1] for c in evals]
    ls = [c for c in evals if (dotted(c.func) or "").split(".")[-1] == "line_search"]
    re = [c for c in evals if (dotted(c.func) or "").startswith(mm.sf + ".")]
    other = [c for c in evals if c not in ls and c not in re]
    ok = len(ls) == 1 and len(re) == 1 and not other and not any(len(cfg.node_of(c).loops) > 1 for c in evals)
    obs.append(ob("NITB", "evaluations per iteration: one capped line search + one re-evaluation", mm.f,
                  (other or re[1:] or ls or [mm.loop])[0], ok,
                  f"user-objective-reaching calls in the loop: {sorted(kinds)}" +
                  ("" if ok else " -- more than the line search and one wrapper call: nfev <= maxfun + 1 no longer follows"),
                  construct="objective evaluations in the main loop: " + ", ".join(sorted(kinds))))
    return obs


@rule("ONCE", min_instances=2)
def rule_once(ctx: Ctx) -> List[Ob]:
    """callable ftarget / gtol are invoked at exactly one call site each, outside every loop"""
    mm = mainmodel(ctx)
    obs: List[Ob] = []
    for p in ("ftarget", "gtol"):
        calls = [c for c in walk_no_nested(mm.f.node) if isinstance(c, ast.Call) and isinstance(c.func, ast.Name) and c.func.id == p]
        # also: the callable handed on to another function / stored
        passed = [c for c in walk_no_nested(mm.f.node) if isinstance(c, ast.Call) and
                  any(isinstance(a, ast.Name) and a.id == p for a in list(c.args) + [k.value for k in c.keywords])
                  and dotted(c.func) not in ("callable", "isinstance")]
        inloop = [c for c in calls if mm.cfg.node_of(c).loops or mm.in_loop(c)]
        ok = len(calls) == 1 and not inloop and not passed
        missed = []
        if ok:
            # ... and on every path to every return (a callable stop criterion is resolved exactly once per run)
            # (a path on which the argument is found NOT callable needs no call: the false edge of `callable(<p>)`)
            cn = mm.cfg.node_of(calls[0])

            def not_callable_edge(a, b, lab, p=p):
                t = a.ast
                return not (a.kind == "test" and isinstance(t, ast.Call) and dotted(t.func) == "callable" and len(t.args) == 1
                            and src(t.args[0]) == p and lab is False)
            free = mm.cfg.reachable(mm.cfg.entry, follow_exc=False, avoid=lambda m: m is cn, edge_ok=not_callable_edge)
            missed = [r.lineno for r in mm.returns if mm.cfg.node_of(r) in free]
            ok = not missed
        obs.append(ob("ONCE", f"{p}() has one call site outside every loop", mm.f, calls[0] if calls else mm.f.node, ok,
                      f"{len(calls)} call site(s), {len(inloop)} inside a loop, handed to {len(passed)} other callee(s)" +
                      (f"; the return(s) at line(s) {missed} can be reached without the call: the callable is invoked 0 times on that path" if missed else ""),
                      construct=f"call sites of {p}: " + ", ".join(f"{short(c)}" for c in calls)))
    return obs


@rule("LSCAP", min_instances=1)
def rule_lscap(ctx: Ctx) -> List[Ob]:
    """the evaluation cap given to the line search is min(.., maxfun - nfev): the budget cannot be
    overrun inside a line search"""
    mm = mainmodel(ctx)
    ls = ctx.repo.func("linesearch.line_search")
    obs: List[Ob] = []
    for c in walk_no_nested(mm.f.node):
        if isinstance(c, ast.Call) and (dotted(c.func) or "").split(".")[-1] == "line_search":
            b = bind_args(c, ls.node)
            e = b.get("max_iter")
            n = mm.cfg.node_of(c)
            cand = [e] if e is not None else []
            stale = []
            if isinstance(e, ast.Name):
                defs_ = [(d_, v) for d_, v, _ in mm.rd.value_exprs(n, e.id) if v is not None]
                cand = [v for _, v in defs_]
                # the remaining budget changes at every evaluation: the cap must be computed in the iteration that uses it
                stale = [d_ for d_, _ in defs_ if mm.in_loop(c) and not mm.cfg.in_loop(d_, mm.loop)]
            ok = bool(cand) and not stale
            for v in cand:
                good = isinstance(v, ast.Call) and dotted(v.func) in ("min", "np.minimum") and any(
                    isinstance(a, ast.BinOp) and isinstance(a.op, ast.Sub) and src(a.left) == "maxfun"
                    and src(a.right) == f"{mm.sf}.nfev" for a in v.args)
                ok = ok and good
            obs.append(ob("LSCAP", "line-search cap is bounded by the remaining evaluation budget", mm.f, c, ok,
                          f"max_iter <- {short(e)}" + ("" if ok else (f": computed once at line {stale[0].line}, before the loop -- later iterations use a stale budget"
                                                                     if stale else ": not min(.., maxfun - nfev)")),
                          construct=f"line_search(max_iter={short(e, 50)})"))
    return obs


def _failed_branch(mm):
    """the `if <step> is None` statement of the main loop, <step> being the line-search result"""
    step = None
    for s in walk_no_nested(mm.loop):
        if isinstance(s, ast.Assign) and isinstance(s.value, ast.Call) and \
                (dotted(s.value.func) or "").split(".")[-1] == "line_search" and isinstance(s.targets[0], ast.Name):
            step = s.targets[0].id
    need(step is not None, "main loop: line_search result is not assigned to a name")
    for s in walk_no_nested(mm.loop):
        if isinstance(s, ast.If) and isinstance(s.test, ast.Compare) and isinstance(s.test.left, ast.Name) \
                and s.test.left.id == step and len(s.test.ops) == 1 and isinstance(s.test.comparators[0], ast.Constant) \
                and s.test.comparators[0].value is None:
            if isinstance(s.test.ops[0], ast.Is):
                return step, s, s.body, s.orelse
            if isinstance(s.test.ops[0], ast.IsNot):
                return step, s, s.orelse, s.body
    raise AnalysisError("main loop: no `if <line-search result> is None` branch")


@rule("KEEP", min_instances=1)
def rule_keep(ctx: Ctx) -> List[Ob]:
    """a failed line search leaves the iterate where it was: the branch taken when the search
    returns None neither rebinds nor writes x, fun or jac"""
    mm = mainmodel(ctx)
    step, ifs, failed, accepted = _failed_branch(mm)
    res = mm.result_of_return(mm.final_return)
    need(res is not None, "final return is not an OptimizeResult")
    triple = {src(kw(res, k)) for k in ("x", "fun", "jac") if kw(res, k) is not None}
    eng = engine(ctx)
    fa = eng.fa[mm.f.qual]
    obs: List[Ob] = []
    bad = []
    nodes = set()
    for s in failed:
        for sub in ast.walk(s):
            for n in mm.cfg.nodes:
                if n.ast is sub:
                    nodes.add(n)
    for n in nodes:
        for k, v, how in node_defs(n):
            if k in triple:
                bad.append(f"line {n.line}: `{short(n.ast)}` redefines {k}")
    for m in fa.mutations:
        if m.node in nodes and m.target in triple:
            bad.append(f"line {m.node.line}: {m.how} on {m.target}")
    obs.append(ob("KEEP", "failed search leaves (x, fun, jac) untouched", mm.f, ifs, not bad,
                  "; ".join(bad) if bad else f"{len(nodes)} statements in the branch, none defines or writes {sorted(triple)}",
                  construct=f"if {step} is None: <{len(nodes)} nodes>"))
    return obs


@rule("RETRY", min_instances=3)
def rule_retry(ctx: Ctx) -> List[Ob]:
    """a failed line search aborts only when the memory already holds a single point; otherwise the
    memory is cut down to its last point, the matrices are reset and the loop goes on"""
    mm = mainmodel(ctx)
    step, ifs, failed, accepted = _failed_branch(mm)
    obs: List[Ob] = []
    inner = [s for s in failed if isinstance(s, ast.If)]
    need(len(inner) == 1, "RETRY: the failed-search branch has no inner decision")
    dec = inner[0]
    t = dec.test
    one_point = False
    if isinstance(t, ast.Compare) and len(t.ops) == 1 and isinstance(t.left, ast.Call) and dotted(t.left.func) == "len" \
            and src(t.left.args[0]) in (mm.X, mm.G) and isinstance(t.comparators[0], ast.Constant):
        c, op = t.comparators[0].value, type(t.ops[0])
        one_point = (op is ast.Eq and c == 1) or (op is ast.Lt and c == 2) or (op is ast.LtE and c == 1)
        swapped = (op is ast.NotEq and c == 1) or (op is ast.Gt and c == 1) or (op is ast.GtE and c == 2)
        abort, retry = (dec.body, dec.orelse) if one_point else (dec.orelse, dec.body)
        one_point = one_point or swapped
        if not retry and any(isinstance(x, ast.Break) for x in abort):
            # `if one point: abort; break` followed by the retry statements (no else needed after a break)
            retry = failed[failed.index(dec) + 1:]
    else:
        abort, retry = dec.body, dec.orelse
    obs.append(ob("RETRY", "abort is conditional on the memory holding exactly one point", mm.f, dec, one_point,
                  f"decision `{short(t)}`" + ("" if one_point else ": not a test that the history has a single point")))
    # abort branch: ABNORMAL + success False + break
    msgs = [s for b in abort for s in ast.walk(b) if isinstance(s, ast.Assign) and
            any(isinstance(x, ast.Attribute) and x.attr == "task_str" for x in s.targets)]
    brk = any(isinstance(s, ast.Break) for b in abort for s in ast.walk(b))
    mval = msgs[0].value if len(msgs) == 1 else None
    if isinstance(mval, ast.Name):
        # a message held in a local bound once, in this branch, to a constant
        binds = [s for b in abort for s in ast.walk(b) if isinstance(s, ast.Assign) and len(s.targets) == 1 and
                 isinstance(s.targets[0], ast.Name) and s.targets[0].id == mval.id]
        allb = [s for s in ast.walk(mm.f.node) if isinstance(s, ast.Name) and s.id == mval.id and isinstance(s.ctx, ast.Store)]
        if len(binds) == 1 and len(allb) == 1 and isinstance(binds[0].value, ast.Constant):
            mval = binds[0].value
    ok = len(msgs) == 1 and isinstance(mval, ast.Constant) and \
        T.TERMINAL_MESSAGES.get(mval.value) == "abnormal" and brk
    obs.append(ob("RETRY", "abort branch sets the abnormal message and leaves the loop", mm.f, dec, ok,
                  f"messages {[short(m.value) for m in msgs]}, break={brk}", construct="abort branch of the failed search"))
    # retry branch
    def last_only(name):
        for s in retry:
            if isinstance(s, ast.Assign) and len(s.targets) == 1 and src(s.targets[0]) == name and isinstance(s.value, ast.Call):
                d = (dotted(s.value.func) or "").split(".")[-1]
                if d in ("deque", "Deque") and s.value.args and isinstance(s.value.args[0], (ast.List, ast.Tuple)) \
                        and len(s.value.args[0].elts) == 1 and src(s.value.args[0].elts[0]) == f"{name}[-1]":
                    return True
            if isinstance(s, ast.While) and src(s.test) in (f"len({name}) > 1", f"len({mm.X}) > 1") and \
                    any(src(x) == f"{name}.popleft()" for b in s.body for x in ast.walk(b)):
                return True
        return False
    mats_reset = any(isinstance(s, ast.Assign) and src(s.targets[0]) == mm.mats and isinstance(s.value, ast.Call)
                     and (dotted(s.value.func) or "").split(".")[-1] == "LBFGSB_MATRICES" for s in retry)
    nobreak = not any(isinstance(s, (ast.Break, ast.Return)) for b in retry for s in ast.walk(b))
    nosucc = not any(isinstance(s, ast.Assign) and any(isinstance(x, ast.Attribute) and x.attr == "is_success" for x in s.targets)
                     for b in retry for s in ast.walk(b))
    okr = last_only(mm.X) and last_only(mm.G) and mats_reset and nobreak and nosucc
    obs.append(ob("RETRY", "retry branch keeps only the newest point, resets the matrices and continues", mm.f,
                  retry[0] if retry else dec, okr,
                  f"X cut to last={last_only(mm.X)}, G cut to last={last_only(mm.G)}, matrices reset={mats_reset}, "
                  f"no break/return={nobreak}, success flag untouched={nosucc}",
                  construct="retry branch of the failed search"))
    return obs


@rule("ACCEPT", min_instances=1)
def rule_accept(ctx: Ctx) -> List[Ob]:
    """the iterate moves only by the accepted step: inside the main loop every redefinition of x is
    (a projection of) x + s*d where s is the value returned by the line search of this iteration
    (not redefined in between) and d the direction that was handed to it"""
    from .lsearch import _step_of_point
    mm = mainmodel(ctx)
    step, ifs, failed, accepted = _failed_branch(mm)
    ls = ctx.repo.func("linesearch.line_search")
    dname = None
    ls_node = None
    for n in mm.cfg.nodes:
        for c in node_calls(n):
            if (dotted(c.func) or "").split(".")[-1] == "line_search":
                b = bind_args(c, ls.node)
                dname = src(b.get("d")) if b.get("d") is not None else None
                ls_node = n
                okx = src(b.get("x0")) == mm.x
    need(dname is not None and ls_node is not None, "ACCEPT: line_search call / direction argument not found")
    obs: List[Ob] = []
    k = 0
    for n in mm.cfg.nodes:
        if not mm.cfg.in_loop(n, mm.loop):
            continue
        for key, v, how in node_defs(n):
            if key != mm.x:
                continue
            k += 1
            ok, why = False, ""
            if how == "bind" and v is not None:
                s = _step_of_point(v, mm.x, dname)
                ok = s == step
                why = f"{mm.x} <- {short(v)}: step variable `{s}`" + ("" if ok else f", expected x + {step} * {dname} (projected)")
            elif how == "aug" and isinstance(n.ast, ast.AugAssign) and isinstance(n.ast.op, ast.Add):
                e = n.ast.value
                ok = isinstance(e, ast.BinOp) and isinstance(e.op, ast.Mult) and {src(e.left), src(e.right)} == {step, dname}
                why = f"{short(n.ast)}" + ("" if ok else f": not `+= {step} * {dname}`")
            else:
                why = f"{short(n.ast)}: the iterate is redefined by something else than the accepted step"
            if ok:
                # the step and the direction are those of this iteration's line search
                sd = mm.rd.defs_at(n, step)
                dd_ls, dd_here = mm.rd.defs_at(ls_node, dname), mm.rd.defs_at(n, dname)
                if sd != frozenset([ls_node]):
                    ok, why = False, why + f"; `{step}` is redefined between the line search and the update"
                elif dd_ls != dd_here:
                    ok, why = False, why + f"; `{dname}` is redefined between the line search and the update"
            obs.append(ob("ACCEPT", "the iterate moves exactly by the accepted step", mm.f, n.ast, ok,
                          why + ("" if ok else ": the point that becomes the iterate is not the one the line search accepted as strictly downhill")))
    need(k >= 1, "ACCEPT: no update of the iterate inside the main loop")
    return obs
