"""SIGN, ALPHA, FREE, PIN -- where the Cauchy point, the subspace step and the line search touch the box (C01, C02, C08, C09, C11)."""
from __future__ import annotations

import ast
from typing import Dict, List, Optional, Set, Tuple

from ..core import AnalysisError, Func, Ob, dotted, kw, need, ob, short, src, walk_no_nested
from ..runner import Ctx, rule

NEG, NONPOS, ZERO, NONNEG, POS, TOP = "NEG", "NONPOS", "ZERO", "NONNEG", "POS", "TOP"


def neg(s):
    return {NEG: POS, POS: NEG, NONPOS: NONNEG, NONNEG: NONPOS, ZERO: ZERO, TOP: TOP}[s]


def mul(a, b):
    if ZERO in (a, b):
        return ZERO
    if TOP in (a, b):
        return TOP
    pos_a, pos_b = a in (POS, NONNEG), b in (POS, NONNEG)
    strict = a in (POS, NEG) and b in (POS, NEG)
    if pos_a == pos_b:
        return POS if strict else NONNEG
    return NEG if strict else NONPOS


def add(a, b):
    if a == ZERO:
        return b
    if b == ZERO:
        return a
    if TOP in (a, b):
        return TOP
    if a in (POS, NONNEG) and b in (POS, NONNEG):
        return POS if POS in (a, b) else NONNEG
    if a in (NEG, NONPOS) and b in (NEG, NONPOS):
        return NEG if NEG in (a, b) else NONPOS
    return TOP


def strip_sub(e: ast.expr) -> ast.expr:
    while isinstance(e, ast.Subscript):
        e = e.value
    return e


class Signs:
    def __init__(self, lb: str, ub: str, bases: Set[str], env: Optional[Dict[str, str]] = None):
        self.lb, self.ub, self.bases = lb, ub, bases
        self.env = dict(env or {})

    def sg(self, e: ast.expr, env: Optional[Dict[str, str]] = None) -> str:
        env = self.env if env is None else env
        e0 = e
        e = strip_sub(e)
        if isinstance(e, ast.Constant) and isinstance(e.value, (int, float)) and not isinstance(e.value, bool):
            return POS if e.value > 0 else NEG if e.value < 0 else ZERO
        if isinstance(e, (ast.Name, ast.Attribute)):
            return env.get(src(e), TOP)
        if isinstance(e, ast.UnaryOp) and isinstance(e.op, ast.USub):
            return neg(self.sg(e.operand, env))
        if isinstance(e, ast.BinOp):
            if isinstance(e.op, ast.Sub):
                a, b = src(strip_sub(e.left)), src(strip_sub(e.right))
                if a == self.ub and b in self.bases:
                    return NONNEG
                if a in self.bases and b == self.lb:
                    return NONNEG
                if a == self.lb and b in self.bases:
                    return NONPOS
                if a in self.bases and b == self.ub:
                    return NONPOS
                return add(self.sg(e.left, env), neg(self.sg(e.right, env)))
            if isinstance(e.op, ast.Add):
                return add(self.sg(e.left, env), self.sg(e.right, env))
            if isinstance(e.op, (ast.Mult, ast.Div)):
                return mul(self.sg(e.left, env), self.sg(e.right, env))
            if isinstance(e.op, ast.Pow) and isinstance(e.right, ast.Constant) and e.right.value == 2:
                return NONNEG
            return TOP
        if isinstance(e, ast.IfExp):
            a, b = self.sg(e.body, env), self.sg(e.orelse, env)
            return a if a == b else (NONNEG if {a, b} <= {POS, NONNEG, ZERO} else NONPOS if {a, b} <= {NEG, NONPOS, ZERO} else TOP)
        if isinstance(e, ast.Call):
            d = dotted(e.func) or ""
            if isinstance(e.func, ast.Attribute) and e.func.attr == "dot" and len(e.args) == 1:
                if src(e.func.value) == src(e.args[0]):
                    return NONNEG
                return TOP
            if d in ("abs", "np.abs", "np.square", "np.linalg.norm"):
                return NONNEG
            if d in ("np.nanmin", "np.min", "np.nanmax", "np.max", "float", "np.asarray") and e.args:
                return self.sg(e.args[0], env)
            if d in ("min", "max", "np.minimum", "np.maximum") and len(e.args) >= 2:
                ss = [self.sg(a, env) for a in e.args]
                if all(s in (POS, NONNEG, ZERO) for s in ss):
                    return NONNEG
                if d in ("max", "np.maximum") and any(s in (POS, NONNEG, ZERO) for s in ss):
                    return NONNEG
                return TOP
            if d == "np.where" and len(e.args) == 3:
                r = self.where_branches(e, None, env)
                if r is not None and all(s in (POS, NONNEG, ZERO) for _, s, _ in r):
                    return NONNEG
                return TOP
        return TOP

    def where_branches(self, w: ast.Call, denom: Optional[ast.expr], env: Optional[Dict[str, str]] = None):
        """[(branch label, sign, description)] for np.where(v > 0, A, B) [/ denom]"""
        env = dict(self.env if env is None else env)
        c = w.args[0]
        if not (isinstance(c, ast.Compare) and len(c.ops) == 1 and isinstance(c.comparators[0], ast.Constant) and c.comparators[0].value == 0):
            return None
        v = src(strip_sub(c.left))
        op = type(c.ops[0])
        if op in (ast.Gt, ast.GtE):
            t_sign, f_sign = POS, NEG
        elif op in (ast.Lt, ast.LtE):
            t_sign, f_sign = NEG, POS
        else:
            return None
        out = []
        for lab, br, s in (("true", w.args[1], t_sign), ("false", w.args[2], f_sign)):
            e2 = dict(env)
            e2[v] = s
            expr = br if denom is None else ast.BinOp(left=br, op=ast.Div(), right=denom)
            out.append((f"{v} {'>' if s == POS else '<'} 0", self.sg(expr, e2), short(expr, 70)))
        return out


def find_denominator(f: Func, w0: ast.Call, parents) -> Optional[ast.expr]:
    """D if the np.where result is divided by D: either directly `np.where(..) / D` or through a name
    `r = np.where(..)` ... `r / D`"""
    p = parents.get(id(w0))
    if isinstance(p, ast.BinOp) and isinstance(p.op, ast.Div) and p.left is w0:
        return p.right
    if isinstance(p, (ast.Assign, ast.AnnAssign)):
        t = p.targets[0] if isinstance(p, ast.Assign) else p.target
        if isinstance(t, ast.Name):
            for x in walk_no_nested(f.node):
                if isinstance(x, ast.BinOp) and isinstance(x.op, ast.Div) and isinstance(x.left, ast.Name) and x.left.id == t.id:
                    return x.right
    return None


def _masked_nonzero(f: Func, cond_left: ast.expr) -> bool:
    """the condition variable is selected by a mask defined as `v != 0`"""
    if not isinstance(cond_left, ast.Subscript):
        return False
    v = src(strip_sub(cond_left))
    m = cond_left.slice
    if isinstance(m, ast.Name):
        for s in walk_no_nested(f.node):
            if isinstance(s, (ast.Assign, ast.AnnAssign)) and getattr(s, "value", None) is not None:
                t = s.targets[0] if isinstance(s, ast.Assign) else s.target
                if src(t) == m.id and isinstance(s.value, ast.Compare) and isinstance(s.value.ops[0], ast.NotEq) and \
                        src(s.value.left) == v and isinstance(s.value.comparators[0], ast.Constant) and s.value.comparators[0].value == 0:
                    return True
    if isinstance(m, ast.Compare) and len(m.ops) == 1 and isinstance(m.ops[0], ast.NotEq) and src(m.left) == v \
            and isinstance(m.comparators[0], ast.Constant) and not isinstance(m.comparators[0].value, bool) and m.comparators[0].value == 0:
        return True
    return False


# (module, anchor function of the module, names of the feasible base points)
SITES = [("cauchy", "cauchy.get_cauchy_point", {"x"}), ("linesearch", "linesearch.max_allowed_steplength", {"x"}),
         ("subspacemin", "subspacemin.subspace_minimization", {"xc", "x"})]


@rule("SIGN", min_instances=8)
def rule_sign(ctx: Ctx) -> List[Ob]:
    """bound ratios are non-negative on both branches and pick the bound the direction points to:
    in every np.where(v > 0, A, B)[/ v] whose branches mention the bounds, A/v and B/v are >= 0 under
    v > 0 resp. v < 0 (with the mask v != 0), given lb <= x <= ub; the Cauchy loop pins to ub when
    moving up and to lb when moving down; f' = -d.d <= 0 and f'' = -theta f' >= 0 at their
    definitions; the stationary step is clamped at 0 before use"""
    obs: List[Ob] = []
    for mod, q, bases in SITES:
      ctx.repo.func(q)     # anchor
      n = 0
      for f in ctx.repo.funcs_in(mod):
        if not ("lb" in f.params and "ub" in f.params):
            continue
        S = Signs("lb", "ub", bases)
        from ..flow import Expander, bound_ratio_like
        ex = Expander(ctx, f, only=bound_ratio_like)
        parents = {id(c): p for p in ast.walk(f.node) for c in ast.iter_child_nodes(p)}
        for w0 in walk_no_nested(f.node):
            if isinstance(w0, ast.Call) and dotted(w0.func) == "np.where" and len(w0.args) == 3 and \
                    any(isinstance(x, ast.Name) and x.id in ("lb", "ub") for a in w0.args[1:] for x in ast.walk(ex.expand_at(w0, a))):
                denom = find_denominator(f, w0, parents)
                w = ex.expand_at(w0, w0)       # temporaries (masks, selected directions) inlined
                denom = ex.expand_at(w0, denom) if denom is not None else None
                # IfExp wrapper:  (where(...) / v) if cond else 1.0
                br = S.where_branches(w, denom)
                if br is None:
                    obs.append(ob("SIGN", "bound ratio has a sign-typed condition", f, w0, False,
                                  f"condition `{short(w.args[0])}` is not a comparison of the direction with 0"))
                    continue
                masked = _masked_nonzero(f, w.args[0].left)
                for cond, s, desc in br:
                    n += 1
                    ok = s in (NONNEG, POS, ZERO)
                    obs.append(ob("SIGN", "bound ratio is non-negative on this branch", f, w0, ok and masked,
                                  f"under {cond}: sign({desc}) = {s}" + ("" if masked else "; the direction is not masked by `!= 0`, so the other branch includes 0/0") +
                                  ("" if ok else ": the step bound / breakpoint is negative -- the wrong bound is used for this direction"),
                                  construct=f"{f.name}: np.where branch [{cond}] {desc}"))
      need(n >= 2, f"SIGN: no bound-ratio np.where found in module {mod}")
    # pinning in the Cauchy loop
    f = ctx.repo.func("cauchy.get_cauchy_point")
    from ..flow import Expander, selection_like
    pex = Expander(ctx, f, only=selection_like)
    npin = 0
    for s in walk_no_nested(f.node):
        if isinstance(s, ast.If):
            cur: Optional[ast.If] = s
            while cur is not None:
                t = pex.expand_at(cur.test, cur.test)
                # `not (d > 0)` is `d <= 0`, `0 < d` is `d > 0`
                neg_ = False
                while isinstance(t, ast.UnaryOp) and isinstance(t.op, ast.Not):
                    t, neg_ = t.operand, not neg_
                if isinstance(t, ast.Compare) and len(t.ops) == 1 and isinstance(t.left, ast.Constant) and t.left.value == 0:
                    FL = {ast.Gt: ast.Lt, ast.Lt: ast.Gt, ast.GtE: ast.LtE, ast.LtE: ast.GtE, ast.Eq: ast.Eq, ast.NotEq: ast.NotEq}
                    if type(t.ops[0]) in FL:
                        t = ast.copy_location(ast.Compare(left=t.comparators[0], ops=[FL[type(t.ops[0])]()], comparators=[t.left]), t)
                if neg_ and isinstance(t, ast.Compare) and len(t.ops) == 1:
                    NG = {ast.Gt: ast.LtE, ast.Lt: ast.GtE, ast.GtE: ast.Lt, ast.LtE: ast.Gt, ast.Eq: ast.NotEq, ast.NotEq: ast.Eq}
                    if type(t.ops[0]) in NG:
                        t = ast.copy_location(ast.Compare(left=t.left, ops=[NG[type(t.ops[0])]()], comparators=t.comparators), t)
                pins_ = [st for st in cur.body if isinstance(st, ast.Assign) and isinstance(st.targets[0], ast.Subscript)
                         and src(strip_sub(st.targets[0])) == "x_cp" and src(strip_sub(st.value)) in ("lb", "ub")]
                strict_d = isinstance(t, ast.Compare) and len(t.ops) == 1 and isinstance(t.comparators[0], ast.Constant) and t.comparators[0].value == 0 \
                    and src(strip_sub(t.left)) == "d" and type(t.ops[0]) in (ast.Gt, ast.Lt)
                if pins_ and not strict_d and any(isinstance(x_, ast.Name) and x_.id == "d" for x_ in ast.walk(cur.test)):
                    for st in pins_:
                        obs.append(ob("SIGN", "variable is pinned to the bound its direction points to", f, st, False,
                                      f"`{short(st)}` under `{short(cur.test)}`: not a strict sign test of the direction (d > 0 pins to ub, d < 0 to lb)",
                                      construct=f"pin under {short(cur.test)}: {short(st)}"))
                if strict_d:
                    for st in cur.body:
                        if isinstance(st, ast.Assign) and isinstance(st.targets[0], ast.Subscript) and src(strip_sub(st.targets[0])) == "x_cp":
                            b = src(strip_sub(st.value))
                            want = "ub" if isinstance(t.ops[0], ast.Gt) else "lb"
                            ok = b == want
                            obs.append(ob("SIGN", "variable is pinned to the bound its direction points to", f, st, ok,
                                          f"under `{short(t)}` the point is pinned to `{b}`" + ("" if ok else f": expected {want}"),
                                          construct=f"pin under {short(t)}: {short(st)}"))
                cur = cur.orelse[0] if len(cur.orelse) == 1 and isinstance(cur.orelse[0], ast.If) else None
    # conditional-expression form:  x_cp[i] = ub[i] if d[i] > 0 else lb[i]
    for st in walk_no_nested(f.node):
        if isinstance(st, ast.Assign) and isinstance(st.targets[0], ast.Subscript) and src(strip_sub(st.targets[0])) == "x_cp" \
                and isinstance(st.value, ast.IfExp) and isinstance(st.value.test, ast.Compare) and len(st.value.test.ops) == 1 \
                and src(strip_sub(st.value.test.left)) == "d" and type(st.value.test.ops[0]) in (ast.Gt, ast.Lt):
            up = isinstance(st.value.test.ops[0], ast.Gt)
            for br, is_true in ((st.value.body, True), (st.value.orelse, False)):
                want = "ub" if (up == is_true) else "lb"
                b = src(strip_sub(br))
                obs.append(ob("SIGN", "variable is pinned to the bound its direction points to", f, st, b == want,
                              f"when d {'>' if up == is_true else '<'} 0 the point is pinned to `{b}`" + ("" if b == want else f": expected {want}"),
                              construct=f"pin [{'d>0' if up == is_true else 'd<0'}]: {short(br)}"))
    # dedupe (elif chains are visited from each head)
    seen, ded = set(), []
    for o in obs:
        k = (o.rule, o.inst, o.line, o.construct)
        if k not in seen:
            seen.add(k)
            ded.append(o)
    obs = ded
    npin = sum(1 for o in obs if o.inst == "variable is pinned to the bound its direction points to")
    bounds_pinned = {("ub" if "ub" in o.construct.split(":")[-1] else "lb") for o in obs
                     if o.inst == "variable is pinned to the bound its direction points to"}
    need(npin >= 2 and bounds_pinned == {"lb", "ub"}, "SIGN: the two pinning branches (to ub and to lb) of the Cauchy loop were not found")
    # f', f'' and the clamp
    S = Signs("lb", "ub", {"x"}, {"mats.theta": POS})
    defs: Dict[str, ast.expr] = {}
    for s in f.node.body:
        if isinstance(s, (ast.Assign, ast.AnnAssign)) and getattr(s, "value", None) is not None:
            t = s.targets[0] if isinstance(s, ast.Assign) else s.target
            if isinstance(t, ast.Name) and t.id not in defs:
                defs[t.id] = s.value
    need("f_prime" in defs and "f_second" in defs, "SIGN: f_prime / f_second definitions not found")
    s1 = S.sg(defs["f_prime"])
    obs.append(ob("SIGN", "initial directional derivative f' is <= 0", f, defs["f_prime"], s1 in (NONPOS, NEG, ZERO),
                  f"sign({short(defs['f_prime'])}) = {s1}", construct=f"f_prime = {short(defs['f_prime'])}"))
    s2 = S.sg(defs["f_second"], {**S.env, "f_prime": NONPOS})
    obs.append(ob("SIGN", "initial curvature f'' is >= 0 (theta > 0)", f, defs["f_second"], s2 in (NONNEG, POS, ZERO),
                  f"sign({short(defs['f_second'])}) = {s2} given theta > 0, f' <= 0", construct=f"f_second = {short(defs['f_second'])}"))
    # clamp of delta_t_min before it is added to t_old
    cfg = ctx.cfg(f)
    from ..flow import node_defs
    use = [n for n in cfg.nodes if n.kind == "stmt" and isinstance(n.ast, ast.AugAssign) and src(n.ast.target) == "t_old"
           and src(n.ast.value) == "delta_t_min" and not n.loops]
    def _clamp_if(n):
        # `delta_t_min = 0` under the true edge of `delta_t_min < 0` (if-statement form of the clamp)
        if not (isinstance(n.ast, ast.Assign) and isinstance(n.ast.value, ast.Constant) and n.ast.value.value == 0):
            return False
        for p in cfg.nodes:
            if p.kind == "test" and isinstance(p.ast, ast.Compare) and src(p.ast.left) == "delta_t_min" and isinstance(p.ast.ops[0], (ast.Lt, ast.LtE)) \
                    and isinstance(p.ast.comparators[0], ast.Constant) and p.ast.comparators[0].value == 0 \
                    and any(b is n and lab is True for b, lab in cfg.succ[p]):
                return True
        return False
    clamp_if_tests = [p for p in cfg.nodes if p.kind == "test" and any(_clamp_if(b) for b, lab in cfg.succ[p])]
    clamp = clamp_if_tests + [n for n in cfg.nodes for k, v, how in node_defs(n) if k == "delta_t_min" and v is not None and not n.loops and (
        (isinstance(v, ast.IfExp) and S.sg(v, {"delta_t_min": NONNEG}) in (NONNEG, ZERO) and isinstance(v.test, ast.Compare)) or
        (isinstance(v, ast.Call) and dotted(v.func) in ("max", "np.maximum") and any(isinstance(a, ast.Constant) and a.value == 0 for a in v.args)))]
    ok = bool(use) and bool(clamp) and all(cfg.dominates(clamp[-1], u) for u in use)
    obs.append(ob("SIGN", "stationary step is clamped at 0 before it advances the path", f, (clamp[-1].ast if clamp else f.node), ok,
                  f"clamp `{short(clamp[-1].ast) if clamp else 'none'}` dominates `t_old += delta_t_min`: {ok}",
                  construct="delta_t_min clamped at 0"))
    return obs


@rule("ALPHA", min_instances=2)
def rule_alpha(ctx: Ctx) -> List[Ob]:
    """the truncation factor of the subspace step is min(1, e) with e >= 0 and multiplies the whole
    free-variable step exactly once"""
    f = ctx.repo.func("subspacemin.subspace_minimization")
    S = Signs("lb", "ub", {"xc", "x"})
    obs: List[Ob] = []
    al = None
    for s in walk_no_nested(f.node):
        if isinstance(s, (ast.Assign, ast.AnnAssign)) and getattr(s, "value", None) is not None:
            t = s.targets[0] if isinstance(s, ast.Assign) else s.target
            if isinstance(t, ast.Name) and t.id.startswith("alpha"):
                al = (t.id, s)
    need(al is not None, "ALPHA: truncation factor not found")
    name, st = al
    v = st.value
    from ..flow import Expander
    fx = Expander(ctx, f)
    helper = None
    if isinstance(v, ast.Call) and isinstance(v.func, ast.Name) and f"subspacemin.{v.func.id}" in ctx.repo.funcs:
        # the factor is computed by a helper of the module: every value it returns must be in [0, 1]
        helper = ctx.repo.funcs[f"subspacemin.{v.func.id}"]
        hx = Expander(ctx, helper)
        vals = [r.value for r in walk_no_nested(helper.node) if isinstance(r, ast.Return) and r.value is not None]
        okh, whyh = bool(vals), []
        for rv in vals:
            e = hx.expand_at(rv, rv)
            if isinstance(e, ast.Constant) and isinstance(e.value, (int, float)) and 0 <= e.value <= 1:
                whyh.append(f"{e.value}")
                continue
            good = isinstance(e, ast.Call) and dotted(e.func) in ("min", "np.minimum") and len(e.args) == 2 and \
                any(isinstance(a, ast.Constant) and not isinstance(a.value, bool) and a.value == 1 for a in e.args)
            if good:
                other = [a for a in e.args if not isinstance(a, ast.Constant)][0]
                sg = _sign_with_where(Signs("lb", "ub", {"xc", "x"}), other)
                good = sg in (NONNEG, POS, ZERO)
                whyh.append(f"min(cap, e) with sign(e) = {sg}")
            else:
                whyh.append(f"{short(e, 50)}: not min(<constant in [0,1]>, e)")
            okh = okh and good
        obs.append(ob("ALPHA", "truncation factor lies in [0, 1]", f, st, okh,
                      f"{name} = {short(v, 60)}; values returned by {helper.name}: {whyh}", construct=f"{name} = min(1.0, <ratio>)"))
    if helper is None and isinstance(v, ast.Name):
        # the factor is a copy of another local: every value that can reach it must be in [0, 1]
        rd = ctx.rd(f)
        cfg = ctx.cfg(f)
        leaves, seen = [], set()

        def collect(at, nm, depth):
            for d, x, how in rd.value_exprs(at, nm):
                if (id(d), nm) in seen:
                    continue
                seen.add((id(d), nm))
                if x is None or how != "bind":
                    leaves.append((d, None))
                elif isinstance(x, ast.Name) and depth > 0:
                    collect(d, x.id, depth - 1)
                else:
                    leaves.append((d, x))
        collect(cfg.node_of(st), v.id, 5)
        from ..flow import selection_like
        fxs = Expander(ctx, f, only=selection_like)
        okl, whyl = bool(leaves), []
        for d, x in leaves:
            if x is None:
                okl = False
                whyl.append("opaque value")
                continue
            e = fxs.expand(d, x, 6)
            if isinstance(e, ast.Constant) and isinstance(e.value, (int, float)) and not isinstance(e.value, bool) and 0 <= e.value <= 1:
                whyl.append(f"{e.value}")
                continue
            good = isinstance(e, ast.Call) and dotted(e.func) in ("min", "np.minimum") and len(e.args) == 2 and \
                any(isinstance(a, ast.Constant) and isinstance(a.value, (int, float)) and not isinstance(a.value, bool) and a.value == 1 for a in e.args)
            if good:
                other = [a for a in e.args if not isinstance(a, ast.Constant)]
                sg = _sign_with_where(Signs("lb", "ub", {"xc", "x"}), other[0]) if other else NONNEG
                good = sg in (NONNEG, POS, ZERO)
                whyl.append(f"min(cap, e) with sign(e) = {sg}" + ("" if good else f" for e = {short(other[0], 200) if other else ''}"))
            else:
                whyl.append(f"{short(e, 50)}: not min(<constant in [0,1]>, e)")
            okl = okl and good
        obs.append(ob("ALPHA", "truncation factor lies in [0, 1]", f, st, okl,
                      f"{name} = {short(v, 60)}; values that reach it: {whyl}", construct=f"{name} = min(1.0, <ratio>)"))
        helper = f      # handled
    ok = helper is None and isinstance(v, ast.Call) and dotted(v.func) in ("min", "np.minimum") and len(v.args) == 2
    why = f"{name} = {short(v, 80)}"
    if helper is not None:
        pass
    elif ok:
        consts = [a for a in v.args if isinstance(a, ast.Constant)]
        others = [a for a in v.args if not isinstance(a, ast.Constant)]
        # the full Newton step is taken whenever it is feasible: the cap is exactly 1
        ok = len(consts) == 1 and isinstance(consts[0].value, (int, float)) and not isinstance(consts[0].value, bool) and consts[0].value == 1 and len(others) == 1
        if ok:
            # distribute a division outside the np.where inside nanmin(...)
            e = others[0]
            sgn = _sign_with_where(S, e)
            ok = sgn in (NONNEG, POS, ZERO)
            why += f"; cap {consts[0].value}; sign(other operand) = {sgn}"
        else:
            why += ": not min(1, e) -- with another cap the point is not the (truncated) Newton point of the model"
    else:
        why += ": not a min(...) -- a factor above 1 overshoots the model minimiser, a missing cap leaves the box"
    if helper is None:
        obs.append(ob("ALPHA", "truncation factor lies in [0, 1]", f, st, ok, why, construct=f"{name} = min(1.0, <ratio>)"))
    rets = [r for r in walk_no_nested(f.node) if isinstance(r, ast.Return) and r.value is not None and
            any(isinstance(x, ast.Name) and x.id == name for x in ast.walk(r.value))]
    okr = len(rets) == 1
    if okr:
        e = rets[0].value
        uses = [x for x in ast.walk(e) if isinstance(x, ast.Name) and x.id == name]
        okr = len(uses) == 1 and isinstance(e, ast.BinOp) and isinstance(e.op, ast.Add) and src(e.left) == "xc" and \
            isinstance(e.right, ast.BinOp) and isinstance(e.right.op, (ast.Mult, ast.MatMult)) and \
            any(isinstance(x, ast.Name) and x.id == name for x in ast.walk(e.right))
        if okr:
            # the step is a pure product alpha * Z * dHat (in any association): no quotient, no other factor
            facs: List[ast.expr] = []

            def flat_(x):
                if isinstance(x, ast.BinOp) and isinstance(x.op, (ast.Mult, ast.MatMult)):
                    flat_(x.left)
                    flat_(x.right)
                elif isinstance(x, ast.Call) and isinstance(x.func, ast.Attribute) and x.func.attr == "dot" and len(x.args) == 1:
                    flat_(x.func.value)
                    flat_(x.args[0])
                else:
                    facs.append(x)
            flat_(e.right)
            okr = len(facs) == 3 and sum(1 for x in facs if isinstance(x, ast.Name) and x.id == name) == 1 and \
                all(isinstance(x, (ast.Name, ast.Attribute)) for x in facs)
    obs.append(ob("ALPHA", "the factor multiplies the whole step once", f, rets[0] if rets else f.node, okr,
                  f"returns {short(rets[0].value) if rets else '?'}", construct="return xc + alpha * Z @ dHat"))
    return obs


def _sign_with_where(S: Signs, e: ast.expr) -> str:
    e = e
    if isinstance(e, ast.Call) and dotted(e.func) in ("np.nanmin", "np.min") and e.args:
        return _sign_with_where(S, e.args[0])
    if isinstance(e, ast.IfExp):
        a, b = _sign_with_where(S, e.body), _sign_with_where(S, e.orelse)
        return NONNEG if {a, b} <= {NONNEG, POS, ZERO} else TOP
    if isinstance(e, ast.BinOp) and isinstance(e.op, ast.Div) and isinstance(e.left, ast.Call) and dotted(e.left.func) == "np.where":
        br = S.where_branches(e.left, e.right)
        if br is not None and all(s in (NONNEG, POS, ZERO) for _, s, _ in br):
            return NONNEG
        return TOP
    return S.sg(e)


@rule("FREE", min_instances=3)
def rule_free(ctx: Ctx) -> List[Ob]:
    """the free set is exactly the variables of the Cauchy point strictly inside the box (the mask
    is symmetric in both bounds), the active set is its complement, and the subspace step moves
    only free variables (it enters the result through the selection matrix built from the free set)"""
    f = ctx.repo.func("subspacemin.get_freev")
    obs: List[Ob] = []
    pt = f.params[0]
    cfg = ctx.cfg(f)
    rd = ctx.rd(f)
    rets = [n for n in cfg.nodes if n.kind == "stmt" and isinstance(n.ast, ast.Return) and isinstance(n.ast.value, ast.Tuple)]
    need(len(rets) >= 1, "FREE: get_freev does not return a tuple")
    fret = rets[-1]
    fv_name = src(rets[-1].ast.value.elts[0])

    def resolve(n, e, depth=0):
        """all mask expressions a free-set expression may stand for (None = not a mask of the point)"""
        if depth > 6:
            return [None]
        if isinstance(e, ast.Subscript):
            e = e.value
        if isinstance(e, ast.Call) and isinstance(e.func, ast.Attribute) and e.func.attr == "nonzero":
            e = e.func.value
        elif isinstance(e, ast.Call) and dotted(e.func) in ("np.flatnonzero", "np.nonzero", "np.where") and len(e.args) == 1:
            e = e.args[0]
        if isinstance(e, ast.Name):
            out = []
            for d, v, how in rd.value_exprs(n, e.id):
                out += [None] if v is None or how != "bind" else resolve(d, v, depth + 1)
            return out
        return [e]

    def sides_of(e):
        conj = []
        if isinstance(e, ast.BinOp) and isinstance(e.op, ast.BitAnd):
            conj = [e.left, e.right]
        elif isinstance(e, ast.Call) and dotted(e.func) == "np.logical_and" and len(e.args) == 2:
            conj = list(e.args)
        sides = set()
        for c in conj:
            if isinstance(c, ast.Compare) and len(c.ops) == 1:
                l, r, op = src(c.left), src(c.comparators[0]), type(c.ops[0])
                if op is ast.NotEq and {l, r} in ({pt, "ub"}, {pt, "lb"}):
                    sides.add("ub" if "ub" in (l, r) else "lb")
                elif (op is ast.Lt and (l, r) == (pt, "ub")) or (op is ast.Gt and (l, r) == ("ub", pt)):
                    sides.add("ub")
                elif (op is ast.Gt and (l, r) == (pt, "lb")) or (op is ast.Lt and (l, r) == ("lb", pt)):
                    sides.add("lb")
            if isinstance(c, ast.Compare) and len(c.ops) == 2 and all(isinstance(o, ast.Lt) for o in c.ops) and \
                    [src(c.left)] + [src(x) for x in c.comparators] == ["lb", pt, "ub"]:
                sides |= {"lb", "ub"}
        return sides, len(conj)
    masks = resolve(rets[-1], rets[-1].ast.value.elts[0])
    need(len(masks) >= 1, "FREE: no definition of the returned free set")
    for e in masks:
        if e is None:
            obs.append(ob("FREE", "free mask tests both bounds, conjunctively", f, rets[-1].ast, False,
                          f"on some path the returned free set `{fv_name}` is not computed from the current Cauchy point "
                          f"(a parameter or an opaque value reaches the return): the partition can be stale",
                          construct=f"free set returned by get_freev: {fv_name}"))
            continue
        sides, nconj = sides_of(e)
        ok = sides == {"lb", "ub"} and nconj == 2
        obs.append(ob("FREE", "free mask tests both bounds, conjunctively", f, e, ok,
                      f"mask `{short(e, 70)}` covers sides {sorted(sides)}" + ("" if ok else
                      ": a variable resting on the untested bound is treated as free; the truncation ratio is then 0 and the solver stalls at the Cauchy point"),
                      construct=f"free_vars mask: {short(e, 70)}"))
    # active set = complement of the free set
    from ..flow import Expander
    fxx = Expander(ctx, f)
    free_masks = [src(m) for m in masks if m is not None]
    adefs = [st_ for st_ in walk_no_nested(f.node) if isinstance(st_, (ast.Assign, ast.AnnAssign)) and getattr(st_, "value", None) is not None
             and src(st_.targets[0] if isinstance(st_, ast.Assign) else st_.target) == "active_vars"]
    need(len(adefs) == 1, "FREE: active_vars definition not found")
    av = adefs[0]
    a_exp = fxx.expand_at(av, av.value)
    a_src = src(a_exp).replace(" ", "")
    okc = ("~np.isin(np.arange(n),free_vars)" in src(av.value).replace(" ", "")) or ("np.setdiff1d(np.arange(n),free_vars)" in a_src) or \
        ("np.isin(np.arange(n),free_vars,invert=True)" in a_src)
    if not okc:
        # structural form: [positions of] NOT (all variables IN free set), every temporary followed
        e3 = a_exp
        if isinstance(e3, ast.Subscript) and src(e3.slice) == "0":
            e3 = e3.value
        if isinstance(e3, ast.Call) and isinstance(e3.func, ast.Attribute) and e3.func.attr == "nonzero" and not e3.args:
            e3 = e3.func.value
        elif isinstance(e3, ast.Call) and dotted(e3.func) == "np.flatnonzero" and e3.args:
            e3 = e3.args[0]
        A_ = F_ = None
        if isinstance(e3, ast.UnaryOp) and isinstance(e3.op, ast.Invert) and isinstance(e3.operand, ast.Call) and dotted(e3.operand.func) == "np.isin" \
                and len(e3.operand.args) == 2 and not e3.operand.keywords:
            A_, F_ = e3.operand.args
        elif isinstance(e3, ast.Call) and dotted(e3.func) == "np.setdiff1d" and len(e3.args) == 2:
            A_, F_ = e3.args
        if A_ is not None:
            fv_exp = src(fxx.expand_at(av, ast.Name(id=fv_name, ctx=ast.Load()))).replace(" ", "")
            all_ok = isinstance(A_, ast.Call) and dotted(A_.func) == "np.arange" and len(A_.args) == 1 and \
                src(A_.args[0]).replace(" ", "") in ("n", "x_cp.size", "len(x_cp)", "x_cp.shape[0]")
            okc = all_ok and src(F_).replace(" ", "") in (fv_name, fv_exp)
    if not okc and free_masks:
        # (~mask).nonzero()[0] with the very mask of the free set
        e2 = a_exp
        if isinstance(e2, ast.Subscript):
            e2 = e2.value
        if isinstance(e2, ast.Call) and isinstance(e2.func, ast.Attribute) and e2.func.attr == "nonzero":
            e2 = e2.func.value
        elif isinstance(e2, ast.Call) and dotted(e2.func) in ("np.flatnonzero", "np.nonzero") and e2.args:
            e2 = e2.args[0]
        if isinstance(e2, ast.UnaryOp) and isinstance(e2.op, ast.Invert):
            okc = src(e2.operand) in free_masks
        elif isinstance(e2, ast.Call) and dotted(e2.func) == "np.logical_not" and e2.args:
            okc = src(e2.args[0]) in free_masks
    obs.append(ob("FREE", "active set is the complement of the free set over all variables", f, av, okc,
                  f"active_vars = {short(a_exp, 80)}", construct="active_vars = complement(free_vars)"))
    g = ctx.repo.func("subspacemin.subspace_minimization")
    rets = [r for r in walk_no_nested(g.node) if isinstance(r, ast.Return) and r.value is not None and
            any(isinstance(x, ast.Name) and x.id == "dHat" for x in ast.walk(r.value))]
    okz = len(rets) == 1
    if okz:
        okz = any(isinstance(b, ast.BinOp) and isinstance(b.op, ast.MatMult) and src(b.right) == "dHat" and src(b.left).endswith("Z")
                  for b in ast.walk(rets[0].value)) or "Z.dot(dHat)" in src(rets[0].value)
    obs.append(ob("FREE", "the step enters the result only through the free-variable selection Z", g, rets[0] if rets else g.node, okz,
                  f"returns {short(rets[0].value) if rets else '?'}", construct="Z @ dHat"))
    # Z built from free_vars, A from active_vars
    def built_from(idx, want, avoid):
        zname = src(fret.ast.value.elts[idx]).split(".")[0]
        zsrc = []
        # the returned matrix may be a converted / renamed copy of the one that is filled: follow `a = b`, `a = b.tocsc()`
        znames, work = {zname}, [zname]
        while work:
            cur_ = work.pop()
            for st_ in walk_no_nested(f.node):
                if isinstance(st_, (ast.Assign, ast.AnnAssign)) and getattr(st_, "value", None) is not None:
                    t_ = st_.targets[0] if isinstance(st_, ast.Assign) else st_.target
                    if src(t_) != cur_:
                        continue
                    v_ = st_.value
                    if isinstance(v_, ast.Call) and isinstance(v_.func, ast.Attribute) and v_.func.attr in ("tocsc", "tocsr", "tocoo", "copy") and not v_.args:
                        v_ = v_.func.value
                    if isinstance(v_, ast.Name) and v_.id not in znames:
                        znames.add(v_.id)
                        work.append(v_.id)
        for st_ in walk_no_nested(f.node):
            if isinstance(st_, (ast.Assign, ast.AnnAssign)) and getattr(st_, "value", None) is not None:
                t_ = st_.targets[0] if isinstance(st_, ast.Assign) else st_.target
                v_ = st_.value
                if isinstance(v_, ast.Call) and isinstance(v_.func, ast.Attribute) and v_.func.attr in ("tocsc", "tocsr", "tocoo", "copy") and not v_.args:
                    v_ = v_.func.value
                if src(t_) in znames and not (isinstance(v_, ast.Call) and dotted(v_.func) == "lil_matrix") and \
                        not (isinstance(v_, ast.Name) and v_.id in znames):
                    zsrc.append(src(st_.value))
                if isinstance(t_, ast.Subscript) and src(t_.value) in znames:
                    zsrc.append(src(t_.slice))
                    # the entries written are ones (a selection matrix), nothing else
                    if not (isinstance(st_.value, ast.Constant) and not isinstance(st_.value.value, bool) and st_.value.value == 1):
                        zsrc.append(f"<value {src(st_.value)}: not 1>")
        return zname, zsrc, bool(zsrc) and all(want in z and avoid not in z for z in zsrc)

    zname, zsrc, okzz = built_from(1, "free_vars", "active_vars")
    obs.append(ob("FREE", "selection matrix Z has its unit entries on the free variables", f, fret.ast, okzz,
                  f"{zname} is built from: {zsrc}", construct="Z[free_vars, arange] = 1"))
    if len(fret.ast.value.elts) >= 3:
        aname, asrc, okaa = built_from(2, "active_vars", "free_vars")
        obs.append(ob("FREE", "selection matrix A has its unit entries on the active variables", f, fret.ast, okaa,
                      f"{aname} is built from: {asrc}", construct="A[active_vars, arange] = 1"))
    return obs


@rule("PIN", min_instances=1)
def rule_pin(ctx: Ctx) -> List[Ob]:
    """variables that reach a bound during the Cauchy search are pinned by copying the bound (no
    arithmetic), so that the exact tests x_cp != ub / x_cp != lb of get_freev see them as active"""
    f = ctx.repo.func("cauchy.get_cauchy_point")
    loops = [s for s in f.node.body if isinstance(s, (ast.While, ast.For))]
    need(len(loops) == 1, "PIN: breakpoint loop not found")
    obs: List[Ob] = []

    def pure_bound(e: ast.expr) -> bool:
        if isinstance(e, ast.Subscript):
            return pure_bound(e.value)
        if isinstance(e, ast.Name):
            return e.id in ("lb", "ub")
        if isinstance(e, ast.IfExp):
            return pure_bound(e.body) and pure_bound(e.orelse)
        if isinstance(e, ast.Call) and dotted(e.func) == "np.where" and len(e.args) == 3:
            return pure_bound(e.args[1]) and pure_bound(e.args[2])
        return False
    for s in ast.walk(loops[0]):
        if isinstance(s, (ast.Assign, ast.AugAssign)):
            tg = s.targets if isinstance(s, ast.Assign) else [s.target]
            for t in tg:
                if isinstance(t, ast.Subscript) and src(strip_sub(t)) == "x_cp":
                    ok = isinstance(s, ast.Assign) and pure_bound(s.value)
                    obs.append(ob("PIN", "pinned value is a copy of a bound", f, s, ok,
                                  f"{short(s)}" + ("" if ok else ": computed by arithmetic -- off by an ulp, the variable looks free to get_freev")))
    # after the walk the pinned entries stay as they are: the Cauchy point may only be completed on the variables the walk
    # did not fix (`x_cp[d != 0] = ..`: d is zeroed when a variable is fixed; a mask on t would also hit a variable fixed at a tied breakpoint); rebuilding x_cp as a whole recomputes the pinned ones by arithmetic
    after = f.node.body[f.node.body.index(loops[0]) + 1:]
    for st in after:
        for s in ast.walk(st):
            if isinstance(s, (ast.Assign, ast.AugAssign, ast.AnnAssign)):
                tg = s.targets if isinstance(s, ast.Assign) else [s.target]
                for t in tg:
                    if isinstance(t, ast.Name) and t.id == "x_cp":
                        obs.append(ob("PIN", "after the walk only the variables not reached are written", f, s, False,
                                      f"`{short(s, 70)}` rebuilds the whole Cauchy point: the pinned variables are recomputed (x - t g is the bound only up to rounding)",
                                      construct=f"after the walk: {short(s, 50)}"))
                    if isinstance(t, ast.Subscript) and src(strip_sub(t)) == "x_cp":
                        m_ = src(t.slice).replace(" ", "")
                        FREE_ = ("d!=0", "d!=0.0", "0!=d", "0.0!=d", "~(d==0)", "~(d==0.0)", "np.nonzero(d)", "d.nonzero()", "np.flatnonzero(d)",
                                 "np.not_equal(d,0)", "np.not_equal(d,0.0)", "d.astype(bool)")
                        okm = m_ in FREE_
                        if not okm and isinstance(t.slice, ast.Name):
                            # a named mask: bound once to `d != 0`
                            defs_ = [q for q in ast.walk(f.node) if isinstance(q, (ast.Assign, ast.AnnAssign)) and getattr(q, "value", None) is not None
                                     and src(q.targets[0] if isinstance(q, ast.Assign) else q.target) == t.slice.id]
                            okm = len(defs_) == 1 and src(defs_[0].value).replace(" ", "") in FREE_
                        obs.append(ob("PIN", "after the walk only the variables not reached are written", f, s, okm,
                                      f"`{short(s, 70)}`" + ("" if okm else ": writes entries the walk may have pinned (with tied breakpoints, `t >= t_cur` selects a variable already fixed at t_cur)"),
                                      construct=f"after the walk: {short(s, 50)}"))
    return obs
