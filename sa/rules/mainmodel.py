"""Locates the constructs of main.minimize_lbfgsb that several rules talk about
(by resolved name and dataflow, never by position).  Not a rule itself."""
from __future__ import annotations

import ast
from typing import Dict, List, Optional, Tuple

from ..core import AnalysisError, Func, dotted, kw, need, short, walk_no_nested
from ..runner import Ctx

ENTRY = "main.minimize_lbfgsb"


class MainModel:
    def __init__(self, ctx: Ctx):
        self.ctx = ctx
        self.f: Func = ctx.repo.func(ENTRY)
        self.cfg = ctx.cfg(self.f)
        self.rd = ctx.rd(self.f)
        fn = self.f.node
        loops = [s for s in fn.body if isinstance(s, ast.While)]
        need(len(loops) == 1, f"{ENTRY}: expected exactly one top-level while loop, found {len(loops)}")
        self.loop: ast.While = loops[0]
        self.sf = self._assigned_from("prepare_scalar_function")
        self.istate = self._assigned_from("InternalState")
        bt = self._tuple_assigned_from("get_bounds", 2)
        self.lb, self.ub = bt
        self.X, self.G = self._tuple_assigned_from("initialize_X_and_G", 2)
        self.mats = self._assigned_from("LBFGSB_MATRICES")
        # result constructions
        self.results: List[ast.Call] = [c for c in walk_no_nested(fn)
                                        if isinstance(c, ast.Call) and dotted(c.func) == "OptimizeResult"
                                        # OptimizeResult(<mapping>) alone is the copy constructor (a dict copy), not a result being built
                                        and not (len(c.args) == 1 and not c.keywords)]
        need(len(self.results) >= 3, f"{ENTRY}: fewer than 3 OptimizeResult constructions")
        self.returns: List[ast.Return] = [s for s in walk_no_nested(fn) if isinstance(s, ast.Return)]
        need(len(self.returns) >= 2, f"{ENTRY}: fewer than 2 return statements")
        # callback call: direct call of the parameter `callback`
        cbs = [c for c in walk_no_nested(fn) if isinstance(c, ast.Call) and isinstance(c.func, ast.Name)
               and c.func.id == "callback"]
        need(len(cbs) >= 1, f"{ENTRY}: call of the user callback not found")
        self.callback_calls = cbs
        self.final_return = self.returns[-1]
        need(self.final_return in fn.body, f"{ENTRY}: last return is not at function level")
        fr = self.result_of_return(self.final_return)
        need(fr is not None and kw(fr, "x") is not None, f"{ENTRY}: final return does not build a result with x=")
        from ..core import uncopy, src as _src
        self.x = _src(uncopy(kw(fr, "x")))

    def _assigned_from(self, callee: str) -> str:
        for s in walk_no_nested(self.f.node):
            v = getattr(s, "value", None)
            if isinstance(s, (ast.Assign, ast.AnnAssign)) and isinstance(v, ast.Call) and \
                    (dotted(v.func) or "").split(".")[-1] == callee:
                t = s.targets[0] if isinstance(s, ast.Assign) else s.target
                if isinstance(t, ast.Name):
                    return t.id
        raise AnalysisError(f"{ENTRY}: no variable assigned from {callee}(...)")

    def _tuple_assigned_from(self, callee: str, n: int) -> Tuple[str, ...]:
        for s in walk_no_nested(self.f.node):
            if isinstance(s, ast.Assign) and isinstance(s.value, ast.Call) and \
                    (dotted(s.value.func) or "").split(".")[-1] == callee and isinstance(s.targets[0], ast.Tuple) \
                    and len(s.targets[0].elts) == n and all(isinstance(e, ast.Name) for e in s.targets[0].elts):
                return tuple(e.id for e in s.targets[0].elts)
        raise AnalysisError(f"{ENTRY}: no tuple assigned from {callee}(...)")

    def result_of_return(self, r: ast.Return) -> Optional[ast.Call]:
        if isinstance(r.value, ast.Call) and dotted(r.value.func) == "OptimizeResult":
            return r.value
        return None

    def callback_state(self) -> ast.Call:
        for c in self.callback_calls:
            for a in list(c.args) + [k.value for k in c.keywords]:
                if isinstance(a, ast.Call) and dotted(a.func) == "OptimizeResult":
                    return a
        raise AnalysisError(f"{ENTRY}: the callback is not given an OptimizeResult state")

    def in_loop(self, node: ast.AST) -> bool:
        return any(x is node for x in ast.walk(self.loop))


def mainmodel(ctx: Ctx) -> MainModel:
    if "mainmodel" not in ctx.notes:
        ctx.notes["mainmodel"] = MainModel(ctx)
    return ctx.notes["mainmodel"]  # type: ignore
