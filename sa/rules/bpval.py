"""BPVAL -- the breakpoint vector holds the breakpoints and nothing else."""
from __future__ import annotations

import ast
from typing import List

from ..core import Ob, dotted, need, ob, short, src, walk_no_nested
from ..runner import Ctx, rule


@rule("BPVAL", min_instances=2)
def rule_bpval(ctx: Ctx) -> List[Ob]:
    """every value stored into the breakpoint vector t of get_cauchy_point is a breakpoint: the ratio (x - bound) / g of a
    variable with g != 0, or +inf for a variable with g == 0 (it never reaches a bound), or the zero of the allocation.  Any
    other store (a floor, a snap to 0 below a tolerance, a cap) moves a breakpoint: the variable is then pinned, or released,
    at another point of the projected path than the one where it meets its bound."""
    f = ctx.repo.func("cauchy.get_cauchy_point")
    obs: List[Ob] = []
    tn = "t"
    from ..flow import Expander
    ex = Expander(ctx, f)
    stores = []
    for s in walk_no_nested(f.node):
        tgts = []
        if isinstance(s, ast.Assign):
            tgts = s.targets
        elif isinstance(s, ast.AugAssign):
            tgts = [s.target]
        elif isinstance(s, ast.AnnAssign) and s.value is not None:
            tgts = [s.target]
        for t in tgts:
            if isinstance(t, ast.Subscript) and isinstance(t.value, ast.Name) and t.value.id == tn:
                stores.append((s, t))
            elif isinstance(t, ast.Name) and t.id == tn:
                stores.append((s, t))
    for c in walk_no_nested(f.node):
        # in-place numpy writers: np.putmask(t, ..), np.place(t, ..), np.copyto(t, ..), np.clip(.., out=t), t.fill(..), t.clip(out=t)
        if isinstance(c, ast.Call):
            d = dotted(c.func) or ""
            if d.split(".")[-1] in ("putmask", "place", "copyto", "put") and c.args and src(c.args[0]) == tn:
                stores.append((c, c))
            elif any(k.arg == "out" and src(k.value) == tn for k in c.keywords):
                stores.append((c, c))
            elif d in (f"{tn}.fill", f"{tn}.itemset", f"{tn}.sort", f"{tn}.partition"):
                stores.append((c, c))
    need(stores, "BPVAL: no definition of the breakpoint vector t found in get_cauchy_point")
    for s, t in stores:
        val = getattr(s, "value", None)
        kind = None
        if isinstance(s, ast.AugAssign) or isinstance(s, ast.Call):
            kind = None
        elif val is not None:
            try:
                val = ex.expand_at(s, val)      # single-definition temporaries (g_nz = grad[mask], t_to_ub = (x - ub)[mask] / g_nz)
            except Exception:
                pass
            txt = src(val)
            has_ratio = any(isinstance(x, ast.BinOp) and isinstance(x.op, ast.Div) and "grad" in src(x.right) for x in ast.walk(val)) or \
                any(isinstance(x, ast.Call) and (dotted(x.func) or "").split(".")[-1] in ("divide", "true_divide") for x in ast.walk(val))
            consts = [x.value for x in ast.walk(val) if isinstance(x, ast.Constant) and isinstance(x.value, (int, float)) and not isinstance(x.value, bool)]
            if has_ratio and all(cv in (0, 0.0) or cv == float("inf") for cv in consts):
                kind = "ratio"
            elif txt in ("np.inf", "inf", "float('inf')", "math.inf", "numpy.inf"):
                # only for the variables that never move
                idx = src(t.slice) if isinstance(t, ast.Subscript) else ""
                kind = "inf" if ("grad" in idx and ("== 0" in idx or "~" in idx or "not" in idx or "logical_not" in idx)) or not isinstance(t, ast.Subscript) else None
                if kind is None and isinstance(t, ast.Subscript) and isinstance(t.slice, ast.UnaryOp) and isinstance(t.slice.op, ast.Invert):
                    kind = "inf"
            elif isinstance(val, ast.Call) and (dotted(val.func) or "").split(".")[-1] in ("zeros_like", "zeros", "empty_like", "empty", "full_like", "full") \
                    and isinstance(t, ast.Name):
                fills = [a for a in val.args[1:]] + [k.value for k in val.keywords if k.arg == "fill_value"]
                kind = "alloc" if all(src(a) in ("np.inf", "0.0", "0", "grad.dtype", "float", "np.float64") or isinstance(a, ast.Attribute) for a in fills) else None
        ok = kind is not None
        obs.append(ob("BPVAL", "a store into the breakpoint vector writes a breakpoint", f, s, ok,
                      (f"`{short(s, 70)}`: {kind}" if ok else
                       f"`{short(s, 70)}` writes something else than (x - bound) / g or inf-for-g==0 into {tn}: a breakpoint is moved"),
                      construct=short(s, 70)))
    return obs
