"""FDFIXED -- finite-difference gradients and variables fixed by lb == ub."""
from __future__ import annotations

import ast
import re
from typing import List

from ..core import Ob, dotted, src, short
from ..runner import Ctx, rule

_BOUNDISH = re.compile(r"(^|[^a-z])(lb|ub|lower|upper|bounds?|xl|xu)([^a-z]|$)", re.I)


def _tests_fixed(tree: ast.AST) -> List[ast.AST]:
    """comparisons `lower == upper` / `!=` / np.equal / np.not_equal / `ub - lb == 0` between two bound-like expressions"""
    out = []
    for n in ast.walk(tree):
        if isinstance(n, ast.Compare) and len(n.ops) == 1 and isinstance(n.ops[0], (ast.Eq, ast.NotEq, ast.Gt, ast.Lt)):
            l, r = src(n.left), src(n.comparators[0])
            if _BOUNDISH.search(l) and _BOUNDISH.search(r) and l != r:
                out.append(n)
            elif isinstance(n.left, ast.BinOp) and isinstance(n.left.op, ast.Sub) and _BOUNDISH.search(src(n.left.left)) \
                    and _BOUNDISH.search(src(n.left.right)):
                out.append(n)
        elif isinstance(n, ast.Call) and (dotted(n.func) or "").split(".")[-1] in ("equal", "not_equal", "isclose") and len(n.args) >= 2 \
                and _BOUNDISH.search(src(n.args[0])) and _BOUNDISH.search(src(n.args[1])):
            out.append(n)
    return out


@rule("FDFIXED", min_instances=1)
def rule_fdfixed(ctx: Ctx) -> List[Ob]:
    """SciPy's approx_derivative, given bounds, shrinks the differencing step of a variable so that the stencil stays inside
    [lb, ub]; for a variable fixed by lb == ub the step becomes 0 and the quotient 0/0 (confirmed by reading
    scipy/optimize/_numdiff.py, _adjust_scheme_to_bounds: h_adjusted = 0 there; SciPy's own minimize() removes such variables
    before differencing, _remove_from_bounds).  A NaN gradient component makes every comparison of the projected gradient
    false: the main loop is not entered and the transient message 'START' is returned.  So a package that hands the box to
    approx_derivative must itself test for lb == ub somewhere on the way (mask the component, or take the variable out);
    decided here as: the module that calls approx_derivative with bounds, or the API entry, contains an equality test
    between the two bounds."""
    obs: List[Ob] = []
    calls = []
    for m in ctx.repo.modules.values():
        for n in ast.walk(m.tree):
            if isinstance(n, ast.Call) and (dotted(n.func) or "").split(".")[-1] == "approx_derivative":
                calls.append((m, n))
    for m, c in calls:
        tests = _tests_fixed(m.tree)
        main = ctx.repo.modules.get("main")
        if main is not None and main is not m:
            tests += _tests_fixed(main.tree)
        ok = bool(tests)
        obs.append(Ob("FDFIXED", "variables with lb == ub are treated before the box is handed to approx_derivative", m.rel, c.lineno,
                      m.name, "approx_derivative call with the box: treatment of lb == ub", ok,
                      (f"equality test on the bounds at line {tests[0].lineno}: `{short(tests[0], 60)}`" if ok else
                       "no test of lb == ub anywhere before the differencing: the step of a fixed variable is 0, its gradient "
                       "component 0/0 = nan, the projected-gradient tests are all false and the run returns x0 with the "
                       "transient message 'START'")))
    return obs
