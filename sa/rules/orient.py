"""ORIENT -- the checkpoint decoder inverts the encoder (C06).

The encoder (rule SIB) stores sk = diff(array(X), axis=0): rows chronological,
row j = x_{j+1} - x_j, and x = X[-1] is the NEWEST point.  Orientation typing:
    Inc(o)        increments, o in {CHRONO, REV}
    Disp(a, o)    cumulative displacement measured from anchor a in {OLDEST, NEWEST}
    Pts(o)        visited points, o = CHRONO (oldest first) or REV (newest first)
"""
from __future__ import annotations

import ast
from typing import List, Optional, Tuple

from ..core import AnalysisError, Ob, dotted, kw, need, ob, short, src, walk_no_nested
from ..runner import Ctx, rule

CHRONO, REV = "CHRONO", "REV"


def flip(o):
    return REV if o == CHRONO else CHRONO


class OT:
    def __init__(self, kind, order=None, anchor=None, base=None):
        self.kind, self.order, self.anchor, self.base = kind, order, anchor, base

    def __repr__(self):
        if self.kind == "inc":
            return f"increments[{self.order}] of {self.base}"
        if self.kind == "disp":
            return f"displacement-from-{self.anchor}[{self.order}] of {self.base}"
        if self.kind == "pts":
            return f"points[{'oldest-first' if self.order == CHRONO else 'newest-first'}] of {self.base}"
        if self.kind == "newest":
            return f"newest {self.base}"
        return self.kind


def _is_rev_slice(sl) -> bool:
    return isinstance(sl, ast.Slice) and sl.lower is None and sl.upper is None and \
        isinstance(sl.step, ast.UnaryOp) and isinstance(sl.step.op, ast.USub) and \
        isinstance(sl.step.operand, ast.Constant) and sl.step.operand.value == 1


def typ(e: ast.expr, problems: List[str]) -> Optional[OT]:
    d = dotted(e)
    if d and d.startswith("checkpoint.hess_inv.") and d.split(".")[-1] in ("sk", "yk"):
        return OT("inc", CHRONO, base="x" if d.endswith("sk") else "jac")
    if d in ("checkpoint.x", "checkpoint.jac"):
        return OT("newest", base=d.split(".")[-1])
    if isinstance(e, ast.Subscript):
        t = typ(e.value, problems)
        if t is None:
            return None
        if _is_rev_slice(e.slice):
            if t.kind in ("inc", "disp", "pts"):
                return OT(t.kind, flip(t.order), t.anchor, t.base)
            return None
        if isinstance(e.slice, ast.Slice) and e.slice.step is None:
            return t   # a contiguous row range keeps orientation
        return None
    if isinstance(e, ast.Call):
        fn = dotted(e.func)
        if fn in ("np.flip", "np.flipud", "reversed") and e.args:
            t = typ(e.args[0], problems)
            if t is None:
                return None
            if fn == "np.flip":
                ax = kw(e, "axis") or (e.args[1] if len(e.args) > 1 else None)
                if ax is None or src(ax) != "0":
                    problems.append(f"np.flip without axis=0 in `{short(e)}` also reverses the coordinates")
                    return None
            return OT(t.kind, flip(t.order), t.anchor, t.base) if t.kind in ("inc", "disp", "pts") else None
        if fn == "np.cumsum" and e.args:
            t = typ(e.args[0], problems)
            ax = kw(e, "axis") or (e.args[1] if len(e.args) > 1 else None)
            if t is None or t.kind != "inc":
                return None
            if ax is None or src(ax) != "0":
                problems.append(f"np.cumsum without axis=0 in `{short(e)}` accumulates along the wrong axis")
                return None
            return OT("disp", t.order, "OLDEST" if t.order == CHRONO else "NEWEST", t.base)
        if fn in ("np.atleast_2d", "np.asarray", "np.array", "list", "iter") and e.args:
            return typ(e.args[0], problems)
        return None
    if isinstance(e, ast.BinOp) and isinstance(e.op, (ast.Sub, ast.Add)):
        a, b = typ(e.left, problems), typ(e.right, problems)
        if a is not None and b is not None and a.kind == "newest" and b.kind == "disp":
            if a.base != b.base:
                problems.append(f"`{short(e)}` mixes the {a.base} anchor with increments of {b.base}")
                return None
            if isinstance(e.op, ast.Add):
                problems.append(f"`{short(e)}` ADDS past increments to the newest {a.base}: earlier points are newest MINUS the increments")
                return None
            if b.anchor != "NEWEST":
                problems.append(f"`{short(e)}` subtracts a displacement measured from the OLDEST point "
                                f"(cumsum of chronological increments) from the NEWEST {a.base}: the results are "
                                f"x_k - s_0, x_k - s_0 - s_1, ... -- points that were never visited")
                return None
            return OT("pts", REV, base=a.base)
        return None
    return None


@rule("ORIENT", min_instances=2)
def rule_orient(ctx: Ctx) -> List[Ob]:
    """the history decoder of a checkpoint is the inverse of the encoder: increments are
    accumulated from the newest pair backwards, subtracted from the newest point, and the
    reconstructed points are appended oldest first (append) or newest first (appendleft); the
    decoders of the point history and of the gradient history have the same shape"""
    f = ctx.repo.func("main.initialize_X_and_G")
    obs: List[Ob] = []
    loops = [s for s in walk_no_nested(f.node) if isinstance(s, ast.For)]
    from ..flow import Expander
    ex = Expander(ctx, f)
    if not loops:
        # no refill loop: the histories are built from the whole decoded sequences at once --
        # X = deque(<points>[, maxlen=..]) / X.extend(<points>): appended in iteration order, so oldest first is required
        rets = [r for r in walk_no_nested(f.node) if isinstance(r, ast.Return) and isinstance(r.value, ast.Tuple) and len(r.value.elts) == 2]
        need(rets, "initialize_X_and_G: neither a refill loop nor a returned (X, G) pair")
        names = [src(e) for e in rets[-1].value.elts]
        found = 0
        for nm, want in zip(names, ("x", "jac")):
            srcs = []
            for s_ in walk_no_nested(f.node):
                if isinstance(s_, (ast.Assign, ast.AnnAssign)) and getattr(s_, "value", None) is not None and \
                        src(s_.targets[0] if isinstance(s_, ast.Assign) else s_.target) == nm and isinstance(s_.value, ast.Call) and \
                        (dotted(s_.value.func) or "").split(".")[-1] in ("deque", "Deque") and s_.value.args:
                    srcs.append((s_, s_.value.args[0]))
                if isinstance(s_, ast.Expr) and isinstance(s_.value, ast.Call) and dotted(s_.value.func) == f"{nm}.extend" and s_.value.args:
                    srcs.append((s_, s_.value.args[0]))
            for s_, e_ in srcs:
                problems: List[str] = []
                e2 = ex.expand_at(s_, e_)
                while isinstance(e2, ast.Call) and dotted(e2.func) in ("tuple", "list", "iter") and len(e2.args) == 1:
                    e2 = e2.args[0]
                t = typ(e2, problems)
                if t is None and not problems:
                    continue        # e.g. deque() / deque([x]) of the early exits
                found += 1
                ok = t is not None and t.kind == "pts" and t.base == want and t.order == CHRONO
                obs.append(ob("ORIENT", f"decoder of the {want} history yields the visited points, oldest first", f, s_, ok,
                              (f"typed as {t}" if ok else (problems[0] if problems else f"typed as {t}: a sequence appended in iteration order must be oldest first")),
                              construct=short(e_, 100)))
        need(found >= 2, "initialize_X_and_G: the decoder of the histories was not found")
        return obs
    need(len(loops) == 1, "initialize_X_and_G: expected one refill loop")
    lp = loops[0]
    it = ex.expand_at(lp.iter, lp.iter)
    while isinstance(it, ast.Call) and dotted(it.func) in ("tuple", "list", "iter") and len(it.args) == 1:
        it = it.args[0]      # a materialised zip is iterated in the same order
    need(isinstance(it, ast.Call) and dotted(it.func) == "zip" and len(it.args) == 2 and isinstance(lp.target, ast.Tuple),
         "initialize_X_and_G: refill loop is not `for x, g in zip(<points>, <gradients>)` -- decoder cannot be typed")
    tys = []
    for a, want in zip(it.args, ("x", "jac")):
        problems: List[str] = []
        t = typ(a, problems)
        ok = t is not None and t.kind == "pts" and t.base == want
        if t is None and not problems:
            raise AnalysisError(f"ORIENT: decoder expression `{short(a)}` cannot be typed")
        tys.append(t)
        obs.append(ob("ORIENT", f"decoder of the {want} history yields visited points", f, lp.iter, ok,
                      (f"typed as {t}" if ok else (problems[0] if problems else f"typed as {t}, not points of {want}")),
                      construct=short(a, 100)))
    # sibling shape: same expression after renaming x->jac, sk->yk
    s0 = src(it.args[0]).replace("checkpoint.x", "checkpoint.jac").replace(".sk", ".yk")
    same = s0 == src(it.args[1])
    obs.append(ob("ORIENT", "point and gradient decoders are siblings of the same shape", f, lp.iter, same,
                  "identical up to (x, sk) <-> (jac, yk)" if same else f"`{short(it.args[0], 60)}` vs `{short(it.args[1], 60)}`",
                  construct="zip(<X decoder>, <G decoder>)"))
    # fill direction
    names = [t.id for t in lp.target.elts if isinstance(t, ast.Name)]
    for c in [c for b in lp.body for c in ast.walk(b) if isinstance(c, ast.Call) and isinstance(c.func, ast.Attribute)
              and c.func.attr in ("append", "appendleft") and c.args and isinstance(c.args[0], ast.Name) and c.args[0].id in names]:
        idx = names.index(c.args[0].id)
        t = tys[idx]
        want = CHRONO if c.func.attr == "append" else REV
        ok = t is not None and t.kind == "pts" and t.order == want
        obs.append(ob("ORIENT", "fill direction matches the order of the reconstructed points", f, c, ok,
                      f"{c.func.attr} needs {'oldest' if want == CHRONO else 'newest'}-first iteration; sequence is {t}",
                      construct=short(c)))
    return obs
